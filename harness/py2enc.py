# Fail-closed translator from the SOURCE of afkak's request encoders (afkak/kafkacodec.py: KafkaCodec.encode_* and
# _encode_message_header) to terms of the encoder language coq/Model/EncDSL.v.  Translator tie of property C04
# (DESIGN.md 10.2b): on every run the source under VERIF_REPO is translated again and Coq checks that the terms are
# the committed ones (coq/Model/EncAst.v), for which coq/Proofs/EncDSLSound.v proves `run ast_X args = encode_X args`
# (the hand-written model of Model/Requests.v, the subject of the C04 theorems).
#
# What is understood (everything else raises Refused(construct): the tie is then "unavailable" for that encoder):
#   parameters     cls/self is dropped; the others are LEVELS 0, 1, ... in order
#   guards         dropped (argument TYPES are outside the model):  `if not isinstance(x, T): raise ...`,
#                  `assert isinstance(x, T)`, `assert x is not None`; the None-default idioms
#                  `x = [] if x is None else x` / `if x is None: x = []`  (the model's argument is the list)
#   pure locals    `name = <expr>` and `if a >= C: n1 = e1; ... else: n1 = e1'; ...` are substituted where used
#   expressions    parameters, int constants, KafkaCodec.NAME / cls.NAME (class-level int constants), x.attr, len(x),
#                  group_by_topic_and_partition(x)
#   accumulator    ONE local collects the bytes:  m = <bytes>; m += <bytes>   or   m = [<bytes>, ..]; m.append(<bytes>);
#                  ... return m / return b"".join(m) / return <bytes>   - all three styles give the SAME item list
#   bytes          cls._encode_message_header(cid, corr, key[, api_version=v]), struct.pack(">fmt", e, ..),
#                  struct.pack(">f%sf" % len(x), len(x), *x), write_short_ascii/text/bytes(e), write_int_string(e),
#                  a bytes parameter, `a + b`, b"".join([..]); a local holding such a value (`header = cls._encode_..`)
#                  provided it is appended before anything computed after it (evaluation order = append order)
#   message sets   x = KafkaCodec._encode_message_set(<msgs>, magic=<e>)  binds the rest of the block (ILetMsgSet)
#   loops          for x in <list expr>;  for k, v in <dict expr>.items();  for k in <dict expr>  (body: the same forms)
# Adjacent struct.pack items are merged (struct.pack(">ab", x, y) == struct.pack(">a", x) + struct.pack(">b", y), also
# in which inputs raise struct.error).
import ast
import os

FMT = {"b": "Fb", "B": "FB", "h": "Fh", "H": "FH", "i": "Fi", "I": "FI", "q": "Fq"}
WRITERS = {"write_short_ascii": "ascii", "write_short_text": "text", "write_short_bytes": "sbytes",
           "write_int_string": "istring"}


class Refused(Exception):
    pass


def refuse(node, what):
    raise Refused("%s (line %s)" % (what, getattr(node, "lineno", "?")))


def class_constants(cls_node):
    out = {}
    for st in cls_node.body:
        if isinstance(st, ast.Assign) and len(st.targets) == 1 and isinstance(st.targets[0], ast.Name):
            v = st.value
            if isinstance(v, ast.Constant) and isinstance(v.value, int) and not isinstance(v.value, bool):
                out[st.targets[0].id] = v.value
    return out


def is_dict_annotation(ann):
    if ann is None:
        return False
    txt = ast.unparse(ann)
    return txt.startswith("Dict[") or txt.startswith("dict")


class Encoder:
    def __init__(self, fn, consts, class_name):
        self.fn, self.consts, self.class_name = fn, consts, class_name
        self.notes = []
        args = fn.args
        if args.vararg or args.kwarg or args.kwonlyargs or args.posonlyargs:
            refuse(fn, "parameter kinds other than plain positional")
        names = [a.arg for a in args.args]
        if not names or names[0] not in ("cls", "self"):
            refuse(fn, "first parameter is not cls/self")
        self.self_name = names[0]
        self.params = names[1:]
        self.env = {}           # name -> ("ex", expr, kind)
        for i, a in enumerate(args.args[1:]):
            self.env[a.arg] = ("ex", ("var", i), "dict" if is_dict_annotation(a.annotation) else "any")
        self.level = len(self.params)
        self.acc = None         # (name, "bytes" | "list"), decided by what the function returns
        self.acc_started = False
        self.pending = []       # bytes-valued locals computed but not yet appended, in order of computation
        self.done = False
        for st in fn.body:
            if isinstance(st, ast.Return) and st.value is not None:
                v = st.value
                if isinstance(v, ast.Name) and v.id not in self.params:
                    self.acc = (v.id, "bytes")
                elif isinstance(v, ast.Call) and isinstance(v.func, ast.Attribute) and v.func.attr == "join" \
                        and isinstance(v.func.value, ast.Constant) and v.func.value.value == b"" and len(v.args) == 1 \
                        and isinstance(v.args[0], ast.Name):
                    self.acc = (v.args[0].id, "list")

    # ---------------------------------------------------------------- pure expressions
    def pure(self, e):
        """-> (expr, kind); kind: 'dict' for something iterated with .items()/keys, else 'any'"""
        if isinstance(e, ast.Constant) and isinstance(e.value, int) and not isinstance(e.value, bool):
            return ("const", e.value), "any"
        if isinstance(e, ast.UnaryOp) and isinstance(e.op, ast.USub) and isinstance(e.operand, ast.Constant) \
                and isinstance(e.operand.value, int):
            return ("const", -e.operand.value), "any"
        if isinstance(e, ast.Name):
            b = self.env.get(e.id)
            if b is None or b[0] != "ex":
                refuse(e, "name %r is not a parameter or a pure local" % e.id)
            return b[1], b[2]
        if isinstance(e, ast.Attribute):
            if isinstance(e.value, ast.Name) and e.value.id in (self.class_name, self.self_name) and e.value.id not in self.env:
                if e.attr not in self.consts:
                    refuse(e, "unknown class constant %s" % e.attr)
                return ("const", self.consts[e.attr]), "any"
            base, _k = self.pure(e.value)
            return ("field", base, e.attr), "any"
        if isinstance(e, ast.Call) and isinstance(e.func, ast.Name) and not e.keywords:
            if e.func.id == "len" and len(e.args) == 1:
                return ("len", self.pure(e.args[0])[0]), "any"
            if e.func.id == "group_by_topic_and_partition" and len(e.args) == 1:
                return ("group", self.pure(e.args[0])[0]), "dict"
        refuse(e, "expression " + type(e).__name__)

    # ---------------------------------------------------------------- bytes-valued expressions -> items
    def bytes_items(self, e):
        if isinstance(e, ast.BinOp) and isinstance(e.op, ast.Add):
            return self.bytes_items(e.left) + self.bytes_items(e.right)
        if isinstance(e, ast.Name):
            b = self.env.get(e.id)
            if b is not None and b[0] == "ex":
                self.no_pending(e)
                return [("raw", b[1])]
            if b is not None and b[0] == "bytes":
                # a bytes local: it was COMPUTED where it was assigned; appending it here keeps the order of
                # evaluation only if nothing else was computed in between
                if not self.pending or self.pending[0] != e.id:
                    refuse(e, "bytes local %r is not the oldest value still to be appended" % e.id)
                self.pending.pop(0)
                del self.env[e.id]
                return b[1]
            refuse(e, "name %r used as bytes" % e.id)
        if isinstance(e, ast.Call):
            f = e.func
            # b"".join([...])
            if isinstance(f, ast.Attribute) and f.attr == "join" and isinstance(f.value, ast.Constant) and f.value.value == b"" \
                    and len(e.args) == 1 and isinstance(e.args[0], (ast.List, ast.Tuple)) and not e.keywords:
                out = []
                for x in e.args[0].elts:
                    out += self.bytes_items(x)
                return out
            if isinstance(f, ast.Attribute) and f.attr == "_encode_message_header" and isinstance(f.value, ast.Name) \
                    and f.value.id in (self.self_name, self.class_name):
                if len(e.args) not in (3, 4) or any(k.arg != "api_version" for k in e.keywords) or len(e.args) + len(e.keywords) > 4:
                    refuse(e, "header call shape")
                self.no_pending(e)
                xs = [self.pure(a)[0] for a in e.args]
                ver = xs[3] if len(xs) == 4 else (self.pure(e.keywords[0].value)[0] if e.keywords else ("const", 0))
                return [("header", xs[0], xs[1], xs[2], ver)]
            if isinstance(f, ast.Attribute) and f.attr == "pack" and isinstance(f.value, ast.Name) and f.value.id == "struct" \
                    and not e.keywords and e.args:
                self.no_pending(e)
                return [self.pack(e)]
            if isinstance(f, ast.Name) and f.id in WRITERS and len(e.args) == 1 and not e.keywords:
                self.no_pending(e)
                return [(WRITERS[f.id], self.pure(e.args[0])[0])]
        refuse(e, "bytes expression " + type(e).__name__)

    def looks_like_bytes(self, v):
        if isinstance(v, ast.BinOp) and isinstance(v.op, ast.Add):
            return self.looks_like_bytes(v.left) or self.looks_like_bytes(v.right)
        if isinstance(v, ast.Call):
            f = v.func
            if isinstance(f, ast.Attribute) and f.attr in ("_encode_message_header", "pack", "join"):
                return True
            if isinstance(f, ast.Name) and f.id in WRITERS:
                return True
        return False

    def no_pending(self, node):
        if self.pending:
            refuse(node, "bytes local %r computed earlier is appended later than a value computed after it" % self.pending[0])

    def pack(self, e):
        fmt, args = e.args[0], e.args[1:]
        if isinstance(fmt, ast.Constant) and isinstance(fmt.value, str):
            s = fmt.value
            if not s.startswith(">") or any(c not in FMT for c in s[1:]) or len(s) - 1 != len(args):
                refuse(e, "struct format %r" % s)
            if any(isinstance(a, ast.Starred) for a in args):
                refuse(e, "starred argument with a constant format")
            return ("pack", [(FMT[c], self.pure(a)[0]) for c, a in zip(s[1:], args)])
        # ">f%sf" % len(x), len(x), *x
        if isinstance(fmt, ast.BinOp) and isinstance(fmt.op, ast.Mod) and isinstance(fmt.left, ast.Constant) \
                and isinstance(fmt.left.value, str) and len(args) == 2 and isinstance(args[1], ast.Starred):
            s = fmt.left.value
            if len(s) == 5 and s[0] == ">" and s[2:4] == "%s" and s[1] == s[4] and s[1] in FMT:
                n1, _ = self.pure(fmt.right)
                n2, _ = self.pure(args[0])
                x, _ = self.pure(args[1].value)
                if n1 == ("len", x) and n2 == ("len", x):
                    return ("packstar", FMT[s[1]], x)
        refuse(e, "struct.pack with a computed format")

    # ---------------------------------------------------------------- statements
    def is_guard(self, st):
        def type_test(t):
            return isinstance(t, ast.Call) and isinstance(t.func, ast.Name) and t.func.id == "isinstance"

        def not_none(t):
            return isinstance(t, ast.Compare) and len(t.ops) == 1 and isinstance(t.ops[0], ast.IsNot) \
                and isinstance(t.comparators[0], ast.Constant) and t.comparators[0].value is None
        if isinstance(st, ast.Assert) and (type_test(st.test) or not_none(st.test)):
            return True
        if isinstance(st, ast.If) and not st.orelse and len(st.body) == 1 and isinstance(st.body[0], ast.Raise) \
                and isinstance(st.test, ast.UnaryOp) and isinstance(st.test.op, ast.Not) and type_test(st.test.operand):
            return True
        return False

    def is_none_default(self, st):
        def is_none_test(t, name):
            return isinstance(t, ast.Compare) and isinstance(t.left, ast.Name) and t.left.id == name and len(t.ops) == 1 \
                and isinstance(t.ops[0], ast.Is) and isinstance(t.comparators[0], ast.Constant) and t.comparators[0].value is None

        def empty(v):
            return isinstance(v, (ast.List, ast.Tuple)) and not v.elts
        if isinstance(st, ast.Assign) and len(st.targets) == 1 and isinstance(st.targets[0], ast.Name):
            n, v = st.targets[0].id, st.value
            if n in self.params and isinstance(v, ast.IfExp) and is_none_test(v.test, n) and empty(v.body) \
                    and isinstance(v.orelse, ast.Name) and v.orelse.id == n:
                return True
        if isinstance(st, ast.If) and not st.orelse and len(st.body) == 1 and isinstance(st.body[0], ast.Assign):
            a = st.body[0]
            if len(a.targets) == 1 and isinstance(a.targets[0], ast.Name) and a.targets[0].id in self.params \
                    and is_none_test(st.test, a.targets[0].id) and empty(a.value):
                return True
        return False

    def branch_assigns(self, body):
        out = {}
        for st in body:
            if not (isinstance(st, ast.Assign) and len(st.targets) == 1 and isinstance(st.targets[0], ast.Name)):
                return None
            out[st.targets[0].id] = st.value
        return out

    def emit(self, out, items):
        for it in items:
            if it[0] == "pack" and out and out[-1][0] == "pack":
                out[-1] = ("pack", out[-1][1] + it[1])
            else:
                out.append(it)

    def msgset_call(self, st):
        """x = KafkaCodec._encode_message_set(msgs, magic=m)  ->  (x, msgs expr, magic expr) or None"""
        if not (isinstance(st, ast.Assign) and len(st.targets) == 1 and isinstance(st.targets[0], ast.Name)):
            return None
        v = st.value
        if not (isinstance(v, ast.Call) and isinstance(v.func, ast.Attribute) and v.func.attr == "_encode_message_set"
                and isinstance(v.func.value, ast.Name) and v.func.value.id in (self.class_name, self.self_name)):
            return None
        if len(v.args) != 1 or len(v.keywords) != 1 or v.keywords[0].arg != "magic":
            refuse(st, "_encode_message_set call shape (offset given?)")
        return st.targets[0].id, self.pure(v.args[0])[0], self.pure(v.keywords[0].value)[0]

    def block(self, stmts, out, top):
        for idx, st in enumerate(stmts):
            ms = self.msgset_call(st)
            if ms is not None:
                # the rest of the block runs with the encoded set bound to a new level
                self.no_pending(st)
                name, msgs, magic = ms
                if name in self.params or (self.acc and name == self.acc[0]):
                    refuse(st, "message set assigned to a parameter or the accumulator")
                saved, lvl = dict(self.env), self.level
                self.env[name] = ("ex", ("var", lvl), "any")
                self.level = lvl + 1
                body = []
                self.block(stmts[idx + 1:], body, top)
                self.level, self.env = lvl, saved
                out.append(("letms", msgs, magic, body))
                return
            if self.done:
                refuse(st, "statement after return")
            if isinstance(st, ast.Expr) and isinstance(st.value, ast.Constant) and isinstance(st.value.value, str):
                continue                                              # docstring
            if isinstance(st, ast.Pass):
                continue
            if self.is_guard(st):
                self.notes.append("guard dropped: " + ast.unparse(st).splitlines()[0][:80])
                continue
            if self.is_none_default(st):
                self.notes.append("None default dropped: " + ast.unparse(st).splitlines()[0][:80])
                continue
            if isinstance(st, ast.Return):
                if not top:
                    refuse(st, "return inside a loop")
                v = st.value
                if self.acc is not None:
                    if not self.acc_started:
                        refuse(st, "the returned name was never assigned")
                elif v is not None:
                    self.emit(out, self.bytes_items(v))
                else:
                    refuse(st, "bare return")
                if self.pending:
                    refuse(st, "bytes local %r is computed but never appended" % self.pending[0])
                self.done = True
                continue
            if isinstance(st, ast.AugAssign) and isinstance(st.op, ast.Add) and isinstance(st.target, ast.Name) \
                    and self.acc and st.target.id == self.acc[0] and self.acc_started:
                if self.acc[1] == "bytes":
                    self.emit(out, self.bytes_items(st.value))
                elif isinstance(st.value, (ast.List, ast.Tuple)):
                    for x in st.value.elts:
                        self.emit(out, self.bytes_items(x))
                else:
                    refuse(st, "+= on the list accumulator")
                continue
            if isinstance(st, ast.Expr) and isinstance(st.value, ast.Call) and isinstance(st.value.func, ast.Attribute) \
                    and isinstance(st.value.func.value, ast.Name) and self.acc and st.value.func.value.id == self.acc[0] \
                    and self.acc[1] == "list" and self.acc_started and not st.value.keywords and len(st.value.args) == 1:
                if st.value.func.attr == "append":
                    self.emit(out, self.bytes_items(st.value.args[0]))
                    continue
                if st.value.func.attr == "extend" and isinstance(st.value.args[0], (ast.List, ast.Tuple)):
                    for x in st.value.args[0].elts:
                        self.emit(out, self.bytes_items(x))
                    continue
            if isinstance(st, ast.Assign) and len(st.targets) == 1 and isinstance(st.targets[0], ast.Name):
                name, v = st.targets[0].id, st.value
                if name in self.params:
                    refuse(st, "parameter reassigned")
                if self.acc and name == self.acc[0]:
                    if self.acc_started or not top:
                        refuse(st, "accumulator assigned twice or inside a loop")
                    self.acc_started = True
                    if self.acc[1] == "list":
                        if not isinstance(v, (ast.List, ast.Tuple)):
                            refuse(st, "list accumulator not started with a list display")
                        for x in v.elts:
                            self.emit(out, self.bytes_items(x))
                    else:
                        self.emit(out, self.bytes_items(v))
                    continue
                if name in self.env and self.env[name][0] == "bytes":
                    refuse(st, "bytes local assigned twice")
                if self.looks_like_bytes(v):
                    if not top:
                        refuse(st, "bytes local inside a loop")
                    items = []
                    self.emit(items, self.bytes_items(v))
                    self.env[name] = ("bytes", items)
                    self.pending.append(name)
                    continue
                ex, kind = self.pure(v)
                self.env[name] = ("ex", ex, kind)
                continue
            if isinstance(st, ast.If) and isinstance(st.test, ast.Compare) and len(st.test.ops) == 1 \
                    and isinstance(st.test.ops[0], ast.GtE) and isinstance(st.test.comparators[0], ast.Constant) \
                    and isinstance(st.test.comparators[0].value, int):
                a, b = self.branch_assigns(st.body), self.branch_assigns(st.orelse)
                if a is None or b is None or set(a) != set(b) or not a:
                    refuse(st, "if/else that is not a pure choice of locals")
                cond, _ = self.pure(st.test.left)
                c = st.test.comparators[0].value
                new = {}
                for n in a:
                    if n in self.params or (self.acc and n == self.acc[0]):
                        refuse(st, "if/else assigns a parameter or the accumulator")
                    new[n] = ("ex", ("ifge", cond, c, self.pure(a[n])[0], self.pure(b[n])[0]), "any")
                self.env.update(new)
                continue
            if isinstance(st, ast.For) and not st.orelse:
                it = st.iter
                saved = dict(self.env)
                lvl = self.level
                if isinstance(it, ast.Call) and isinstance(it.func, ast.Attribute) and it.func.attr == "items" \
                        and not it.args and not it.keywords:
                    coll, _k = self.pure(it.func.value)
                    if not (isinstance(st.target, ast.Tuple) and len(st.target.elts) == 2
                            and all(isinstance(t, ast.Name) for t in st.target.elts)):
                        refuse(st, "target of a loop over .items()")
                    k, v = st.target.elts
                    self.env[k.id] = ("ex", ("idx", ("var", lvl), 0), "any")
                    self.env[v.id] = ("ex", ("idx", ("var", lvl), 1), "dict")      # values of the grouped dict are dicts
                else:
                    coll, kind = self.pure(it)
                    if not isinstance(st.target, ast.Name):
                        refuse(st, "loop target")
                    if kind == "dict":
                        coll = ("keys", coll)
                    self.env[st.target.id] = ("ex", ("var", lvl), "any")
                self.level = lvl + 1
                body = []
                self.block(st.body, body, False)
                self.level = lvl
                self.env = saved
                out.append(("for", coll, body))
                continue
            refuse(st, "statement " + type(st).__name__ + ": " + ast.unparse(st).splitlines()[0][:60])

    def translate(self):
        out = []
        self.block(self.fn.body, out, True)
        if not self.done:
            refuse(self.fn, "function does not end with return")
        return out


# ------------------------------------------------------------------ printing as Gallina
def zlit(z):
    return "(%d)" % z if z < 0 else str(z)


def p_ex(e):
    k = e[0]
    if k == "var":
        return "EVar %d" % e[1]
    if k == "const":
        return "EConst %s" % zlit(e[1])
    if k == "idx":
        return "EIdx (%s) %d" % (p_ex(e[1]), e[2])
    if k == "field":
        return 'EField (%s) "%s"' % (p_ex(e[1]), e[2])
    if k == "len":
        return "ELen (%s)" % p_ex(e[1])
    if k == "group":
        return "EGroup (%s)" % p_ex(e[1])
    if k == "keys":
        return "EKeys (%s)" % p_ex(e[1])
    if k == "ifge":
        return "EIfGe (%s) %s (%s) (%s)" % (p_ex(e[1]), zlit(e[2]), p_ex(e[3]), p_ex(e[4]))
    raise ValueError(k)


def p_item(it, ind):
    k = it[0]
    if k == "pack":
        return "IPack [%s]" % "; ".join("(%s, %s)" % (f, p_ex(x)) for f, x in it[1])
    if k == "packstar":
        return "IPackStar %s (%s)" % (it[1], p_ex(it[2]))
    if k == "header":
        return "IHeader (%s) (%s) (%s) (%s)" % tuple(p_ex(x) for x in it[1:])
    if k in ("ascii", "text", "sbytes", "istring", "raw"):
        return "%s (%s)" % ({"ascii": "IAscii", "text": "IText", "sbytes": "IShortBytes", "istring": "IIntString", "raw": "IRaw"}[k], p_ex(it[1]))
    if k == "for":
        return "IFor (%s)\n%s" % (p_ex(it[1]), p_prog(it[2], ind + 2))
    if k == "letms":
        return "ILetMsgSet (%s) (%s)\n%s" % (p_ex(it[1]), p_ex(it[2]), p_prog(it[3], ind + 2))
    raise ValueError(k)


def p_prog(items, ind=2):
    pad = " " * ind
    if not items:
        return pad + "[]"
    return pad + "[" + (";\n" + pad + " ").join(p_item(it, ind + 1) for it in items) + "]"


# ------------------------------------------------------------------ driver
ENCODERS = ["_encode_message_header", "encode_api_versions_request", "encode_metadata_request",
            "encode_consumermetadata_request", "encode_heartbeat_request", "encode_leave_group_request",
            "encode_join_group_request", "encode_sync_group_request", "encode_join_group_protocol_metadata",
            "encode_sync_group_member_assignment", "encode_offset_request", "encode_offset_fetch_request",
            "encode_offset_commit_request", "encode_fetch_request", "encode_produce_request"]


def translate_source(text):
    """-> {function name: ("ok", gallina term text, params, notes) | ("refused", reason)}"""
    tree = ast.parse(text)
    cls = next((n for n in tree.body if isinstance(n, ast.ClassDef) and n.name == "KafkaCodec"), None)
    if cls is None:
        return {n: ("refused", "class KafkaCodec not found") for n in ENCODERS}
    consts = class_constants(cls)
    fns = {n.name: n for n in cls.body if isinstance(n, ast.FunctionDef)}
    out = {}
    for name in ENCODERS:
        if name not in fns:
            out[name] = ("refused", "function not found")
            continue
        try:
            enc = Encoder(fns[name], consts, "KafkaCodec")
            items = enc.translate()
            out[name] = ("ok", p_prog(items), enc.params, enc.notes)
        except Refused as e:
            out[name] = ("refused", str(e))
        except RecursionError:
            out[name] = ("refused", "recursion limit")
    return out


def translate_repo(repo):
    return translate_source(open(os.path.join(repo, "afkak", "kafkacodec.py")).read())


def gen_name(fn):
    return "gen_" + fn.lstrip("_")


def emit_gallina(results):
    lines = ["(* GENERATED by harness/py2enc.py from afkak/kafkacodec.py - do not edit *)",
             "From Coq Require Import String.", "From AV Require Import Base.Util Model.Prim Model.EncDSL.",
             "Open Scope string_scope.", ""]
    for fn in ENCODERS:
        r = results[fn]
        if r[0] == "ok":
            lines.append("(* %s(%s) *)" % (fn, ", ".join(r[2])))
            lines.append("Definition %s : prog :=\n%s.\n" % (gen_name(fn), r[1]))
    return "\n".join(lines)


if __name__ == "__main__":
    import sys
    res = translate_repo(sys.argv[1] if len(sys.argv) > 1 else "/repo")
    for fn in ENCODERS:
        print(fn, res[fn][0], res[fn][1] if res[fn][0] == "refused" else "")
    print(emit_gallina(res))
