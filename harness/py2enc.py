# Fail-closed translator from the SOURCE of afkak's request encoders (afkak/kafkacodec.py: KafkaCodec.encode_*,
# _encode_message_header, _encode_message_set, _encode_message) to terms of the encoder language coq/Model/EncDSL.v.
# Translator tie of property C04 (DESIGN.md 10.2b): on every run the source under VERIF_REPO is translated again and
# Coq checks that the terms are the committed ones (coq/Model/EncAst.v), for which coq/Proofs/EncDSLSound.v proves
# `run(c) ast_X args = <model function X> args` (Model/Requests.v, Model/MsgSet.v: the subjects of the C04 theorems).
#
# What is understood (everything else raises Refused(construct): the tie is then "unavailable" for that function):
#   parameters     cls/self is dropped; the others are LEVELS 0, 1, ... in order; every enclosing `for` / let adds levels
#   guards         dropped (argument TYPES are outside the model):  `if not isinstance(x, T): raise ...`,
#                  `assert isinstance(x, T)`, `assert x is not None`; the None-default idioms
#                  `x = [] if x is None else x` / `if x is None: x = []`  (the model's argument is the list)
#   pure locals    `name = <expr>`; `if a >= C / a is None: n1 = e1; .. [else: ..]` whose branches only assign pure
#                  locals (parameters may be re-bound) are substituted where used
#   expressions    parameters, int constants, KafkaCodec.NAME / cls.NAME (class-level int constants), x.attr, len(x),
#                  group_by_topic_and_partition(x)
#   accumulator    ONE local collects the bytes:  m = <bytes>; m += <bytes>   or   m = [<bytes>, ..]; m.append(<bytes>);
#                  ... return m / return b"".join(m) / return <bytes>   - all three styles give the SAME item list
#   bytes          cls._encode_message_header(cid, corr, key[, api_version=v]), struct.pack(">fmt", e, ..),
#                  struct.pack(">f%sf" % len(x), len(x), *x), write_short_ascii/text/bytes(e), write_int_string(e),
#                  a bytes parameter, `a + b`, b"".join([..]); a local holding such a value (`header = cls._encode_..`)
#                  provided it is appended before anything computed after it (evaluation order = append order)
#   lets           x = KafkaCodec._encode_message_set(<msgs>, magic=<e>) / x = KafkaCodec._encode_message(<e>) /
#                  x = int(time.time() * 1000): the REST of the block runs with x bound to a new level
#   checksum       crc = zlib.crc32(ACC) & 0xFFFFFFFF; ACC = struct.pack('>I', crc) + ACC   (ACC started in this block)
#   branches       if <e == INT | e is None | e is not None>: .. [elif ..] [else: ..] with arbitrary bodies: the rest of
#                  the block is translated once per branch (ICond); `raise ProtocolError/UnsupportedCodecError(..)`;
#                  a name assigned in the function but on no path to its first use is an UnboundLocalError (IRaise NameErr)
#   loops          for x in <list expr>;  for k, v in <dict expr>.items();  for k in <dict expr>;  a loop whose body ends
#                  with `v += <loop-invariant>` (v = v0 + iteration * step inside the body: IForIdx)
# Adjacent struct.pack items are merged (struct.pack(">ab", x, y) == struct.pack(">a", x) + struct.pack(">b", y), also
# in which inputs raise struct.error).
import ast
import os

FMT = {"b": "Fb", "B": "FB", "h": "Fh", "H": "FH", "i": "Fi", "I": "FI", "q": "Fq"}
WRITERS = {"write_short_ascii": "ascii", "write_short_text": "text", "write_short_bytes": "sbytes",
           "write_int_string": "istring"}
RAISES = {"ProtocolError": "Protocol", "UnsupportedCodecError": "Unsupported"}


class Refused(Exception):
    pass


class UnboundUse(Exception):
    pass


def refuse(node, what):
    raise Refused("%s (line %s)" % (what, getattr(node, "lineno", "?")))


def class_constants(cls_node):
    out = {}
    for st in cls_node.body:
        if isinstance(st, ast.Assign) and len(st.targets) == 1 and isinstance(st.targets[0], ast.Name):
            v = st.value
            if isinstance(v, ast.Constant) and isinstance(v.value, int) and not isinstance(v.value, bool):
                out[st.targets[0].id] = v.value
    return out


def is_dict_annotation(ann):
    if ann is None:
        return False
    txt = ast.unparse(ann)
    return txt.startswith("Dict[") or txt.startswith("dict")


class St:
    """translation state along ONE path through the function"""

    def __init__(self):
        self.env = {}            # name -> ("ex", expr, kind) | ("bytes", items)
        self.level = 0
        self.started = False     # the accumulator has been assigned
        self.acc_out = None      # the item list in which the accumulator was started, and from which index
        self.acc_idx = 0
        self.pending = []        # bytes-valued locals computed but not yet appended, oldest first

    def copy(self):
        c = St()
        c.env, c.level, c.started = dict(self.env), self.level, self.started
        c.acc_out, c.acc_idx, c.pending = self.acc_out, self.acc_idx, list(self.pending)
        return c


class Encoder:
    def __init__(self, fn, consts, class_name):
        self.fn, self.consts, self.class_name = fn, consts, class_name
        self.notes = []
        args = fn.args
        if args.vararg or args.kwarg or args.kwonlyargs or args.posonlyargs:
            refuse(fn, "parameter kinds other than plain positional")
        names = [a.arg for a in args.args]
        if not names or names[0] not in ("cls", "self"):
            refuse(fn, "first parameter is not cls/self")
        self.self_name = names[0]
        self.params = names[1:]
        self.st0 = St()
        for i, a in enumerate(args.args[1:]):
            self.st0.env[a.arg] = ("ex", ("var", i), "dict" if is_dict_annotation(a.annotation) else "any")
        self.st0.level = len(self.params)
        self.acc = None         # (name, "bytes" | "list"), decided by what the function returns
        self.assigned = set()
        for n in ast.walk(fn):
            if isinstance(n, ast.Return) and n.value is not None:
                v = n.value
                acc = None
                if isinstance(v, ast.Name) and v.id not in self.params:
                    acc = (v.id, "bytes")
                elif isinstance(v, ast.Call) and isinstance(v.func, ast.Attribute) and v.func.attr == "join" \
                        and isinstance(v.func.value, ast.Constant) and v.func.value.value == b"" and len(v.args) == 1 \
                        and isinstance(v.args[0], ast.Name):
                    acc = (v.args[0].id, "list")
                elif self.crc_return(v) is not None:
                    acc = (self.crc_return(v)[1], "bytes")
                if acc is not None:
                    if self.acc not in (None, acc):
                        refuse(n, "two different names are returned")
                    self.acc = acc
            if isinstance(n, (ast.Assign, ast.AugAssign, ast.For)):
                tg = n.targets if isinstance(n, ast.Assign) else [n.target]
                for t in tg:
                    for m in ast.walk(t):
                        if isinstance(m, ast.Name):
                            self.assigned.add(m.id)

    # ---------------------------------------------------------------- pure expressions
    def pure(self, e, st):
        """-> (expr, kind); kind: 'dict' for something iterated with .items()/keys, else 'any'"""
        if isinstance(e, ast.Constant) and isinstance(e.value, int) and not isinstance(e.value, bool):
            return ("const", e.value), "any"
        if isinstance(e, ast.UnaryOp) and isinstance(e.op, ast.USub) and isinstance(e.operand, ast.Constant) \
                and isinstance(e.operand.value, int):
            return ("const", -e.operand.value), "any"
        if isinstance(e, ast.Name):
            b = st.env.get(e.id)
            if b is None and e.id in self.assigned:
                raise UnboundUse(e.id)
            if b is None or b[0] != "ex":
                refuse(e, "name %r is not a parameter or a pure local" % e.id)
            return b[1], b[2]
        if isinstance(e, ast.Attribute):
            if isinstance(e.value, ast.Name) and e.value.id in (self.class_name, self.self_name) and e.value.id not in st.env:
                if e.attr not in self.consts:
                    refuse(e, "unknown class constant %s" % e.attr)
                return ("const", self.consts[e.attr]), "any"
            base, _k = self.pure(e.value, st)
            return ("field", base, e.attr), "any"
        if isinstance(e, ast.Call) and isinstance(e.func, ast.Name) and not e.keywords:
            if e.func.id == "len" and len(e.args) == 1:
                return ("len", self.pure(e.args[0], st)[0]), "any"
            if e.func.id == "group_by_topic_and_partition" and len(e.args) == 1:
                return ("group", self.pure(e.args[0], st)[0]), "dict"
        refuse(e, "expression " + type(e).__name__)

    def test(self, t, st):
        """-> (cond, swapped)   cond = ("ceq", e, z) | ("cnone", e)"""
        if isinstance(t, ast.Compare) and len(t.ops) == 1:
            op, rhs = t.ops[0], t.comparators[0]
            if isinstance(op, ast.Eq) and isinstance(rhs, ast.Constant) and isinstance(rhs.value, int) and not isinstance(rhs.value, bool):
                return ("ceq", self.pure(t.left, st)[0], rhs.value), False
            if isinstance(op, ast.Eq) and isinstance(rhs, ast.Name) and rhs.id in self.module_consts and rhs.id not in st.env:
                return ("ceq", self.pure(t.left, st)[0], self.module_consts[rhs.id]), False
            if isinstance(op, (ast.Is, ast.IsNot)) and isinstance(rhs, ast.Constant) and rhs.value is None:
                return ("cnone", self.pure(t.left, st)[0]), isinstance(op, ast.IsNot)
        refuse(t, "test " + ast.unparse(t)[:60])

    module_consts = {}

    # ---------------------------------------------------------------- bytes-valued expressions -> items
    def bytes_items(self, e, st):
        if isinstance(e, ast.BinOp) and isinstance(e.op, ast.Add):
            return self.bytes_items(e.left, st) + self.bytes_items(e.right, st)
        if isinstance(e, ast.Name):
            b = st.env.get(e.id)
            if b is None and e.id in self.assigned:
                raise UnboundUse(e.id)
            if b is not None and b[0] == "ex":
                self.no_pending(e, st)
                return [("raw", b[1])]
            if b is not None and b[0] == "bytes":
                # a bytes local: it was COMPUTED where it was assigned; appending it here keeps the order of
                # evaluation only if nothing else was computed in between
                if not st.pending or st.pending[0] != e.id:
                    refuse(e, "bytes local %r is not the oldest value still to be appended" % e.id)
                st.pending.pop(0)
                del st.env[e.id]
                return b[1]
            refuse(e, "name %r used as bytes" % e.id)
        if isinstance(e, ast.Call):
            f = e.func
            if isinstance(f, ast.Attribute) and f.attr == "join" and isinstance(f.value, ast.Constant) and f.value.value == b"" \
                    and len(e.args) == 1 and isinstance(e.args[0], (ast.List, ast.Tuple)) and not e.keywords:
                out = []
                for x in e.args[0].elts:
                    out += self.bytes_items(x, st)
                return out
            if isinstance(f, ast.Attribute) and f.attr == "_encode_message_header" and isinstance(f.value, ast.Name) \
                    and f.value.id in (self.self_name, self.class_name):
                if len(e.args) not in (3, 4) or any(k.arg != "api_version" for k in e.keywords) or len(e.args) + len(e.keywords) > 4:
                    refuse(e, "header call shape")
                self.no_pending(e, st)
                xs = [self.pure(a, st)[0] for a in e.args]
                ver = xs[3] if len(xs) == 4 else (self.pure(e.keywords[0].value, st)[0] if e.keywords else ("const", 0))
                return [("header", xs[0], xs[1], xs[2], ver)]
            if isinstance(f, ast.Attribute) and f.attr == "pack" and isinstance(f.value, ast.Name) and f.value.id == "struct" \
                    and not e.keywords and e.args:
                self.no_pending(e, st)
                return [self.pack(e, st)]
            if isinstance(f, ast.Name) and f.id in WRITERS and len(e.args) == 1 and not e.keywords:
                self.no_pending(e, st)
                return [(WRITERS[f.id], self.pure(e.args[0], st)[0])]
        refuse(e, "bytes expression " + type(e).__name__)

    def looks_like_bytes(self, v):
        if isinstance(v, ast.BinOp) and isinstance(v.op, ast.Add):
            return self.looks_like_bytes(v.left) or self.looks_like_bytes(v.right)
        if isinstance(v, ast.Call):
            f = v.func
            if isinstance(f, ast.Attribute) and f.attr in ("_encode_message_header", "pack", "join"):
                return True
            if isinstance(f, ast.Name) and f.id in WRITERS:
                return True
        return False

    def no_pending(self, node, st):
        if st.pending:
            refuse(node, "bytes local %r computed earlier is appended later than a value computed after it" % st.pending[0])

    def pack(self, e, st):
        fmt, args = e.args[0], e.args[1:]
        if isinstance(fmt, ast.Constant) and isinstance(fmt.value, str):
            s = fmt.value
            if not s.startswith(">") or any(c not in FMT for c in s[1:]) or len(s) - 1 != len(args):
                refuse(e, "struct format %r" % s)
            if any(isinstance(a, ast.Starred) for a in args):
                refuse(e, "starred argument with a constant format")
            return ("pack", [(FMT[c], self.pure(a, st)[0]) for c, a in zip(s[1:], args)])
        if isinstance(fmt, ast.BinOp) and isinstance(fmt.op, ast.Mod) and isinstance(fmt.left, ast.Constant) \
                and isinstance(fmt.left.value, str) and len(args) == 2 and isinstance(args[1], ast.Starred):
            s = fmt.left.value
            if len(s) == 5 and s[0] == ">" and s[2:4] == "%s" and s[1] == s[4] and s[1] in FMT:
                n1, _ = self.pure(fmt.right, st)
                n2, _ = self.pure(args[0], st)
                x, _ = self.pure(args[1].value, st)
                if n1 == ("len", x) and n2 == ("len", x):
                    return ("packstar", FMT[s[1]], x)
        refuse(e, "struct.pack with a computed format")

    # ---------------------------------------------------------------- statement classifiers
    def is_guard(self, st):
        def type_test(t):
            return isinstance(t, ast.Call) and isinstance(t.func, ast.Name) and t.func.id == "isinstance"

        def not_none(t):
            return isinstance(t, ast.Compare) and len(t.ops) == 1 and isinstance(t.ops[0], ast.IsNot) \
                and isinstance(t.comparators[0], ast.Constant) and t.comparators[0].value is None
        if isinstance(st, ast.Assert) and (type_test(st.test) or not_none(st.test)):
            return True
        if isinstance(st, ast.If) and not st.orelse and len(st.body) == 1 and isinstance(st.body[0], ast.Raise) \
                and isinstance(st.test, ast.UnaryOp) and isinstance(st.test.op, ast.Not) and type_test(st.test.operand):
            return True
        return False

    def is_none_default(self, st):
        def is_none_test(t, name):
            return isinstance(t, ast.Compare) and isinstance(t.left, ast.Name) and t.left.id == name and len(t.ops) == 1 \
                and isinstance(t.ops[0], ast.Is) and isinstance(t.comparators[0], ast.Constant) and t.comparators[0].value is None

        def empty(v):
            return isinstance(v, (ast.List, ast.Tuple)) and not v.elts
        if isinstance(st, ast.Assign) and len(st.targets) == 1 and isinstance(st.targets[0], ast.Name):
            n, v = st.targets[0].id, st.value
            if n in self.params and isinstance(v, ast.IfExp) and is_none_test(v.test, n) and empty(v.body) \
                    and isinstance(v.orelse, ast.Name) and v.orelse.id == n:
                return True
        if isinstance(st, ast.If) and not st.orelse and len(st.body) == 1 and isinstance(st.body[0], ast.Assign):
            a = st.body[0]
            if len(a.targets) == 1 and isinstance(a.targets[0], ast.Name) and a.targets[0].id in self.params \
                    and is_none_test(st.test, a.targets[0].id) and empty(a.value):
                return True
        return False

    def class_call(self, v, attr):
        return isinstance(v, ast.Call) and isinstance(v.func, ast.Attribute) and v.func.attr == attr \
            and isinstance(v.func.value, ast.Name) and v.func.value.id in (self.class_name, self.self_name)

    def is_now(self, v):
        """int(time.time() * 1000)"""
        if not (isinstance(v, ast.Call) and isinstance(v.func, ast.Name) and v.func.id == "int" and len(v.args) == 1 and not v.keywords):
            return False
        m = v.args[0]
        if not (isinstance(m, ast.BinOp) and isinstance(m.op, ast.Mult) and isinstance(m.right, ast.Constant) and m.right.value == 1000):
            return False
        c = m.left
        return isinstance(c, ast.Call) and not c.args and not c.keywords and isinstance(c.func, ast.Attribute) \
            and c.func.attr == "time" and isinstance(c.func.value, ast.Name) and c.func.value.id == "time"

    @staticmethod
    def crc_return(w):
        """struct.pack('>I', c) + X  ->  (c, X) or None"""
        if not (isinstance(w, ast.BinOp) and isinstance(w.op, ast.Add) and isinstance(w.right, ast.Name)):
            return None
        p = w.left
        if isinstance(p, ast.Call) and isinstance(p.func, ast.Attribute) and p.func.attr == "pack" and isinstance(p.func.value, ast.Name) \
                and p.func.value.id == "struct" and len(p.args) == 2 and isinstance(p.args[0], ast.Constant) and p.args[0].value == ">I" \
                and isinstance(p.args[1], ast.Name) and not p.keywords:
            return p.args[1].id, w.right.id
        return None

    def crc_of_acc(self, s1, s2):
        """crc = zlib.crc32(ACC) & 0xFFFFFFFF ; ACC = struct.pack('>I', crc) + ACC"""
        if not (self.acc and self.acc[1] == "bytes"):
            return False
        a = self.acc[0]
        if not (isinstance(s1, ast.Assign) and len(s1.targets) == 1 and isinstance(s1.targets[0], ast.Name)):
            return False
        c, v = s1.targets[0].id, s1.value
        if not (isinstance(v, ast.BinOp) and isinstance(v.op, ast.BitAnd) and isinstance(v.right, ast.Constant) and v.right.value == 0xFFFFFFFF):
            return False
        k = v.left
        if not (isinstance(k, ast.Call) and isinstance(k.func, ast.Attribute) and k.func.attr == "crc32" and isinstance(k.func.value, ast.Name)
                and k.func.value.id == "zlib" and len(k.args) == 1 and isinstance(k.args[0], ast.Name) and k.args[0].id == a and not k.keywords):
            return False
        if isinstance(s2, ast.Assign) and len(s2.targets) == 1 and isinstance(s2.targets[0], ast.Name) and s2.targets[0].id == a:
            w = s2.value
        elif isinstance(s2, ast.Return) and s2.value is not None:
            w = s2.value
        else:
            return False
        return self.crc_return(w) == (c, a)

    def pure_choice(self, stmt, st):
        """if <a >= C | a is None>: locals.. [else: locals..]  ->  updated env, or None when it is not of that form"""
        t = stmt.test
        cond = None
        if isinstance(t, ast.Compare) and len(t.ops) == 1:
            op, rhs = t.ops[0], t.comparators[0]
            if isinstance(op, ast.GtE) and isinstance(rhs, ast.Constant) and isinstance(rhs.value, int) and not isinstance(rhs.value, bool):
                cond = ("ge", rhs.value)
            elif isinstance(op, ast.Is) and isinstance(rhs, ast.Constant) and rhs.value is None:
                cond = ("none",)
        if cond is None:
            return None
        for b in (stmt.body, stmt.orelse):
            for s in b:
                if not (isinstance(s, ast.Assign) and len(s.targets) == 1 and isinstance(s.targets[0], ast.Name)):
                    return None
                if self.looks_like_bytes(s.value) or self.is_now(s.value) or self.class_call(s.value, "_encode_message") \
                        or self.class_call(s.value, "_encode_message_set"):
                    return None
                if self.acc and s.targets[0].id == self.acc[0]:
                    return None
        if not stmt.body:
            return None
        ce, _ = self.pure(t.left, st)
        envs = []
        for b in (stmt.body, stmt.orelse):
            e2 = dict(st.env)
            s2 = st.copy()
            s2.env = e2
            for s in b:
                ex, kind = self.pure(s.value, s2)
                e2[s.targets[0].id] = ("ex", ex, kind)
            envs.append(e2)
        new = dict(st.env)
        for n in set(envs[0]) | set(envs[1]):
            a, b = envs[0].get(n), envs[1].get(n)
            if a == b:
                continue
            if a is None or b is None:
                refuse(stmt, "local %r bound on one branch only" % n)
            new[n] = ("ex", ("ifge", ce, cond[1], a[1], b[1]) if cond[0] == "ge" else ("ifnone", ce, a[1], b[1]), "any")
        return new

    def emit(self, out, items):
        for it in items:
            if it[0] == "pack" and out and out[-1][0] == "pack":
                out[-1] = ("pack", out[-1][1] + it[1])
            else:
                out.append(it)

    # ---------------------------------------------------------------- statement lists
    def seq(self, stmts, st, out, top):
        """translate `stmts` along the path described by st, appending to `out`;
        returns True when every way through them ends in return / raise"""
        i = 0
        while i < len(stmts):
            stmt, rest = stmts[i], stmts[i + 1:]
            i += 1
            n0 = len(out)
            try:
                r = self.one(stmt, rest, st, out, top)
            except UnboundUse as u:
                if len(out) != n0:
                    refuse(stmt, "name %s may be unbound after part of the statement was evaluated" % u)
                out.append(("raise", "NameErr"))
                self.notes.append("use of %s on a path that does not assign it: UnboundLocalError" % u)
                return True
            if r == "skip-next":
                i += 1
            elif r is not None:
                return r
        return False

    def one(self, stmt, rest, st, out, top):
        """-> None (go on) | "skip-next" | True/False (the rest was consumed; terminated?)"""
        if isinstance(stmt, ast.Expr) and isinstance(stmt.value, ast.Constant) and isinstance(stmt.value.value, str):
            return None
        if isinstance(stmt, ast.Pass):
            return None
        if self.is_guard(stmt):
            self.notes.append("guard dropped: " + ast.unparse(stmt).splitlines()[0][:80])
            return None
        if self.is_none_default(stmt):
            self.notes.append("None default dropped: " + ast.unparse(stmt).splitlines()[0][:80])
            return None
        if isinstance(stmt, ast.Return):
            if not top:
                refuse(stmt, "return inside a loop")
            if self.acc is not None:
                if not st.started:
                    refuse(stmt, "the returned name was never assigned")
            elif stmt.value is not None:
                self.emit(out, self.bytes_items(stmt.value, st))
            else:
                refuse(stmt, "bare return")
            if st.pending:
                refuse(stmt, "bytes local %r is computed but never appended" % st.pending[0])
            if rest:
                refuse(stmt, "statement after return")
            return True
        if isinstance(stmt, ast.Raise):
            e = stmt.exc
            name = e.func.id if isinstance(e, ast.Call) and isinstance(e.func, ast.Name) else (e.id if isinstance(e, ast.Name) else None)
            if name not in RAISES or stmt.cause is not None:
                refuse(stmt, "raise of " + str(name))
            out.append(("raise", RAISES[name]))
            return True
        # ---- lets: the rest of the block is the body
        if isinstance(stmt, ast.Assign) and len(stmt.targets) == 1 and isinstance(stmt.targets[0], ast.Name):
            name, v = stmt.targets[0].id, stmt.value
            let = None
            if self.class_call(v, "_encode_message_set"):
                if len(v.args) != 1 or len(v.keywords) != 1 or v.keywords[0].arg != "magic":
                    refuse(stmt, "_encode_message_set call shape (offset given?)")
                let = ("letms", self.pure(v.args[0], st)[0], self.pure(v.keywords[0].value, st)[0])
            elif self.class_call(v, "_encode_message"):
                if len(v.args) != 1 or v.keywords:
                    refuse(stmt, "_encode_message call shape")
                let = ("letmsg", self.pure(v.args[0], st)[0])
            elif self.is_now(v):
                let = ("letnow",)
            if let is not None:
                self.no_pending(stmt, st)
                if name in self.params or (self.acc and name == self.acc[0]):
                    refuse(stmt, "let-bound value assigned to a parameter or the accumulator")
                s2 = st.copy()
                s2.env[name] = ("ex", ("var", st.level), "any")
                s2.level = st.level + 1
                body = []
                term = self.seq(rest, s2, body, top)
                out.append(let + (body,))
                return term
        # ---- checksum frame
        if rest and self.crc_of_acc(stmt, rest[0]):
            if not st.started or st.acc_out is not out:
                refuse(stmt, "checksum of an accumulator started in another block")
            self.no_pending(stmt, st)
            inner = out[st.acc_idx:]
            del out[st.acc_idx:]
            out.append(("crc", inner))
            if isinstance(rest[0], ast.Return):
                if not top or rest[1:] or st.pending:
                    refuse(stmt, "checksum return inside a loop / with statements after it")
                return True
            return "skip-next"
        if isinstance(stmt, ast.AugAssign) and isinstance(stmt.op, ast.Add) and isinstance(stmt.target, ast.Name) \
                and self.acc and stmt.target.id == self.acc[0] and st.started:
            if self.acc[1] == "bytes":
                self.emit(out, self.bytes_items(stmt.value, st))
            elif isinstance(stmt.value, (ast.List, ast.Tuple)):
                for x in stmt.value.elts:
                    self.emit(out, self.bytes_items(x, st))
            else:
                refuse(stmt, "+= on the list accumulator")
            return None
        if isinstance(stmt, ast.Expr) and isinstance(stmt.value, ast.Call) and isinstance(stmt.value.func, ast.Attribute) \
                and isinstance(stmt.value.func.value, ast.Name) and self.acc and stmt.value.func.value.id == self.acc[0] \
                and self.acc[1] == "list" and st.started and not stmt.value.keywords and len(stmt.value.args) == 1:
            if stmt.value.func.attr == "append":
                self.emit(out, self.bytes_items(stmt.value.args[0], st))
                return None
            if stmt.value.func.attr == "extend" and isinstance(stmt.value.args[0], (ast.List, ast.Tuple)):
                for x in stmt.value.args[0].elts:
                    self.emit(out, self.bytes_items(x, st))
                return None
        if isinstance(stmt, ast.Assign) and len(stmt.targets) == 1 and isinstance(stmt.targets[0], ast.Name):
            name, v = stmt.targets[0].id, stmt.value
            if self.acc and name == self.acc[0]:
                if st.started:
                    refuse(stmt, "accumulator assigned twice")
                st.started, st.acc_out, st.acc_idx = True, out, len(out)
                if self.acc[1] == "list":
                    if not isinstance(v, (ast.List, ast.Tuple)):
                        refuse(stmt, "list accumulator not started with a list display")
                    for x in v.elts:
                        self.emit(out, self.bytes_items(x, st))
                else:
                    self.emit(out, self.bytes_items(v, st))
                return None
            if name in st.env and st.env[name][0] == "bytes":
                refuse(stmt, "bytes local assigned twice")
            if self.looks_like_bytes(v):
                if name in self.params:
                    refuse(stmt, "bytes local over a parameter")
                items = []
                self.emit(items, self.bytes_items(v, st))
                st.env[name] = ("bytes", items)
                st.pending.append(name)
                return None
            ex, kind = self.pure(v, st)
            st.env[name] = ("ex", ex, kind)
            return None
        if isinstance(stmt, ast.If):
            new = self.pure_choice(stmt, st)
            if new is not None:
                st.env = new
                return None
            cond, swapped = self.test(stmt.test, st)
            a, b = (stmt.orelse, stmt.body) if swapped else (stmt.body, stmt.orelse)
            th, el = [], []
            t1 = self.seq(list(a) + list(rest), st.copy(), th, top)
            t2 = self.seq(list(b) + list(rest), st.copy(), el, top)
            out.append(("cond", cond, th, el))
            return t1 and t2
        if isinstance(stmt, ast.For) and not stmt.orelse:
            return self.loop(stmt, st, out)
        refuse(stmt, "statement " + type(stmt).__name__ + ": " + ast.unparse(stmt).splitlines()[0][:60])

    def loop(self, stmt, st, out):
        self.no_pending(stmt, st)
        it = stmt.iter
        body_stmts = list(stmt.body)
        lvl = st.level
        s2 = st.copy()
        # an induction variable:  v += <loop-invariant>  as the last statement of the body
        ind = None
        if body_stmts and isinstance(body_stmts[-1], ast.AugAssign) and isinstance(body_stmts[-1].op, ast.Add) \
                and isinstance(body_stmts[-1].target, ast.Name):
            v = body_stmts[-1].target.id
            b = st.env.get(v)
            if b is not None and b[0] == "ex" and not (self.acc and v == self.acc[0]):
                for n in ast.walk(ast.Module(body=body_stmts[:-1], type_ignores=[])):
                    if isinstance(n, (ast.Assign, ast.AugAssign)):
                        tg = n.targets if isinstance(n, ast.Assign) else [n.target]
                        if any(isinstance(m, ast.Name) and m.id == v for t in tg for m in ast.walk(t)):
                            refuse(stmt, "induction variable %r assigned elsewhere in the loop" % v)
                step, _ = self.pure(body_stmts[-1].value, st)        # evaluated in the state BEFORE the loop: invariant
                ind = (v, b[1], step)
                body_stmts = body_stmts[:-1]
        if ind:
            s2.env[ind[0]] = ("ex", ("add", ind[1], ("mul", ("var", lvl), ind[2])), "any")
            elem_lvl, s2.level = lvl + 1, lvl + 2
        else:
            elem_lvl, s2.level = lvl, lvl + 1
        if isinstance(it, ast.Call) and isinstance(it.func, ast.Attribute) and it.func.attr == "items" and not it.args and not it.keywords:
            coll, _k = self.pure(it.func.value, st)
            if not (isinstance(stmt.target, ast.Tuple) and len(stmt.target.elts) == 2 and all(isinstance(t, ast.Name) for t in stmt.target.elts)):
                refuse(stmt, "target of a loop over .items()")
            k, v = stmt.target.elts
            s2.env[k.id] = ("ex", ("idx", ("var", elem_lvl), 0), "any")
            s2.env[v.id] = ("ex", ("idx", ("var", elem_lvl), 1), "dict")      # values of the grouped dict are dicts
        else:
            coll, kind = self.pure(it, st)
            if not isinstance(stmt.target, ast.Name):
                refuse(stmt, "loop target")
            if kind == "dict":
                coll = ("keys", coll)
            s2.env[stmt.target.id] = ("ex", ("var", elem_lvl), "any")
        body = []
        self.seq(body_stmts, s2, body, False)
        if s2.pending:
            refuse(stmt, "bytes local left pending in a loop body")
        out.append(("foridx" if ind else "for", coll, body))
        if ind:
            del st.env[ind[0]]           # its final value is not expressible: any later use is refused
        return None

    def translate(self):
        out = []
        if not self.seq(list(self.fn.body), self.st0, out, True):
            refuse(self.fn, "a path through the function does not end with return / raise")
        return out


# ------------------------------------------------------------------ value-returning module functions (EncDSLV.v)
class ValueFn:
    """create_message / create_gzip_message / create_snappy_message / create_message_set: tree-shaped programs that
    return a Message or a list of Messages.  Understood:
      asserts made of isinstance(..), `x is None`, `x in (<int constants>)` joined by and/or   -> dropped (noted)
      x = int(time.time() * 1000)                     VLetNow          x = KafkaCodec._encode_message_set(e)   VLetMsgSet
      x = gzip_encode(e) / snappy_encode(e)           VLetCodec
      acc = [] ; for x in e: <extend statements>      VLetBuild   with   if <test>: .. else: ..   and
                                                      acc.extend([create_message(p, key=k[, magic=m]) for y in coll])
      if <e == CONST>: .. elif .. else: ..            VCond (the rest of the block is translated once per branch)
      return <name> | Message(a, b, c, d[, timestamp=e]) | [create_gzip_message(l, m)] | [create_snappy_message(l, m)]
      raise UnsupportedCodecError(..) / ProtocolError(..)"""

    def __init__(self, fn, consts):
        self.fn, self.consts, self.notes = fn, consts, []
        a = fn.args
        if a.vararg or a.kwarg or a.kwonlyargs or a.posonlyargs:
            refuse(fn, "parameter kinds other than plain positional")
        self.params = [x.arg for x in a.args]

    def pure(self, e, env):
        if isinstance(e, ast.Constant) and e.value is None:
            return ("none",)
        if isinstance(e, ast.Constant) and isinstance(e.value, int) and not isinstance(e.value, bool):
            return ("const", e.value)
        if isinstance(e, ast.Name):
            if e.id in env:
                return env[e.id]
            if e.id in self.consts:
                return ("const", self.consts[e.id])
            refuse(e, "name %r is not a parameter, a bound local or a module constant" % e.id)
        if isinstance(e, ast.Attribute):
            return ("field", self.pure(e.value, env), e.attr)
        refuse(e, "expression " + type(e).__name__)

    def test(self, t, env):
        if isinstance(t, ast.Compare) and len(t.ops) == 1 and isinstance(t.ops[0], ast.Eq):
            rhs = self.pure(t.comparators[0], env)
            if rhs[0] == "const":
                return ("ceq", self.pure(t.left, env), rhs[1])
        if isinstance(t, ast.Compare) and len(t.ops) == 1 and isinstance(t.ops[0], ast.Is) \
                and isinstance(t.comparators[0], ast.Constant) and t.comparators[0].value is None:
            return ("cnone", self.pure(t.left, env))
        refuse(t, "test " + ast.unparse(t)[:60])

    def guard_test(self, t):
        if isinstance(t, ast.BoolOp):
            return all(self.guard_test(v) for v in t.values)
        if isinstance(t, ast.Call) and isinstance(t.func, ast.Name) and t.func.id == "isinstance":
            return True
        if isinstance(t, ast.Compare) and len(t.ops) == 1:
            if isinstance(t.ops[0], (ast.Is, ast.IsNot)) and isinstance(t.comparators[0], ast.Constant) and t.comparators[0].value is None:
                return True
            if isinstance(t.ops[0], ast.In) and isinstance(t.comparators[0], (ast.Tuple, ast.List)) \
                    and all(isinstance(x, ast.Constant) and isinstance(x.value, int) for x in t.comparators[0].elts):
                return True
        return False

    def call_named(self, v, name):
        return isinstance(v, ast.Call) and isinstance(v.func, ast.Name) and v.func.id == name

    def message_ctor(self, v, env):
        if not self.call_named(v, "Message") or len(v.args) != 4 or any(k.arg != "timestamp" for k in v.keywords) or len(v.keywords) > 1:
            return None
        xs = [self.pure(a, env) for a in v.args]
        ts = self.pure(v.keywords[0].value, env) if v.keywords else ("none",)
        return ("xmessage", xs[0], xs[1], xs[2], xs[3], ts)

    def seqv(self, stmts, env, level):
        if not stmts:
            refuse(self.fn, "a path through the function does not end with return / raise")
        stmt, rest = stmts[0], list(stmts[1:])
        if isinstance(stmt, ast.Expr) and isinstance(stmt.value, ast.Constant) and isinstance(stmt.value.value, str):
            return self.seqv(rest, env, level)
        if isinstance(stmt, ast.Assert) and self.guard_test(stmt.test):
            self.notes.append("guard dropped: " + ast.unparse(stmt).splitlines()[0][:80])
            return self.seqv(rest, env, level)
        if isinstance(stmt, ast.Raise):
            e = stmt.exc
            name = e.func.id if isinstance(e, ast.Call) and isinstance(e.func, ast.Name) else None
            if name not in RAISES:
                refuse(stmt, "raise of " + str(name))
            return ("vraise", RAISES[name])
        if isinstance(stmt, ast.Return):
            if rest:
                refuse(stmt, "statement after return")
            v = stmt.value
            m = self.message_ctor(v, env) if v is not None else None
            if m is not None:
                return ("vret", m)
            if isinstance(v, ast.Name):
                return ("vret", ("xe", self.pure(v, env)))
            if isinstance(v, ast.List) and len(v.elts) == 1:
                c = v.elts[0]
                for fname, kind in (("create_gzip_message", 1), ("create_snappy_message", 2)):
                    if self.call_named(c, fname) and len(c.args) == 2 and not c.keywords:
                        return ("vletwrap", kind, self.pure(c.args[0], env), self.pure(c.args[1], env),
                                ("vret", ("xlist1", ("xe", ("var", level)))))
            refuse(stmt, "return value " + ast.unparse(v)[:60] if v is not None else "bare return")
        if isinstance(stmt, ast.If):
            c = self.test(stmt.test, env)
            return ("vcond", c, self.seqv(list(stmt.body) + rest, dict(env), level), self.seqv(list(stmt.orelse) + rest, dict(env), level))
        if isinstance(stmt, ast.Assign) and len(stmt.targets) == 1 and isinstance(stmt.targets[0], ast.Name):
            name, v = stmt.targets[0].id, stmt.value
            env2 = dict(env)
            env2[name] = ("var", level)
            if Encoder.is_now(None, v):
                return ("vletnow", self.seqv(rest, env2, level + 1))
            if isinstance(v, ast.Call) and isinstance(v.func, ast.Attribute) and v.func.attr == "_encode_message_set" \
                    and isinstance(v.func.value, ast.Name) and v.func.value.id == "KafkaCodec" and len(v.args) == 1 and not v.keywords:
                return ("vletms", self.pure(v.args[0], env), self.seqv(rest, env2, level + 1))
            for fname, kind in (("gzip_encode", 1), ("snappy_encode", 2)):
                if self.call_named(v, fname) and len(v.args) == 1 and not v.keywords:
                    return ("vletcodec", kind, self.pure(v.args[0], env), self.seqv(rest, env2, level + 1))
            if isinstance(v, ast.List) and not v.elts and rest and isinstance(rest[0], ast.For) and not rest[0].orelse:
                loop = rest[0]
                if not isinstance(loop.target, ast.Name):
                    refuse(loop, "loop target")
                outer = self.pure(loop.iter, env)
                envl = dict(env)
                envl[loop.target.id] = ("var", level)
                items = self.bitems(loop.body, envl, level + 1, name)
                return ("vletbuild", outer, items, self.seqv(rest[1:], env2, level + 1))
        refuse(stmt, "statement " + type(stmt).__name__ + ": " + ast.unparse(stmt).splitlines()[0][:60])

    def bitems(self, stmts, env, level, acc):
        out = []
        for st in stmts:
            if isinstance(st, ast.If):
                out.append(("bcond", self.test(st.test, env), self.bitems(st.body, env, level, acc), self.bitems(st.orelse, env, level, acc)))
                continue
            ok = isinstance(st, ast.Expr) and isinstance(st.value, ast.Call) and isinstance(st.value.func, ast.Attribute) \
                and st.value.func.attr == "extend" and isinstance(st.value.func.value, ast.Name) and st.value.func.value.id == acc \
                and len(st.value.args) == 1 and isinstance(st.value.args[0], ast.ListComp)
            if not ok:
                refuse(st, "statement in the list-building loop: " + ast.unparse(st).splitlines()[0][:60])
            comp = st.value.args[0]
            if len(comp.generators) != 1 or comp.generators[0].ifs or comp.generators[0].is_async or not isinstance(comp.generators[0].target, ast.Name):
                refuse(st, "comprehension shape")
            g = comp.generators[0]
            coll = self.pure(g.iter, env)
            envc = dict(env)
            envc[g.target.id] = ("var", level)
            c = comp.elt
            if not self.call_named(c, "create_message") or len(c.args) != 1 or any(k.arg not in ("key", "magic") for k in c.keywords):
                refuse(st, "comprehension element is not create_message(p, key=.., magic=..)")
            kw = {k.arg: self.pure(k.value, envc) for k in c.keywords}
            out.append(("bextend", coll, self.pure(c.args[0], envc), kw.get("key", ("none",)), kw.get("magic", ("const", 0))))
        return out

    def translate(self):
        env = {n: ("var", i) for i, n in enumerate(self.params)}
        return self.seqv(list(self.fn.body), env, len(self.params))


def p_vex(x):
    if x[0] == "xe":
        return "XE (%s)" % p_ex(x[1])
    if x[0] == "xmessage":
        return "XMessage (%s) (%s) (%s) (%s) (%s)" % tuple(p_ex(e) for e in x[1:])
    return "XList1 (%s)" % p_vex(x[1])


def p_bitems(bs, ind):
    pad = " " * ind
    if not bs:
        return pad + "[]"
    def one(b):
        if b[0] == "bcond":
            return "BCond (%s)\n%s\n%s" % (p_cond(b[1]), p_bitems(b[2], ind + 3), p_bitems(b[3], ind + 3))
        return "BExtendCreate (%s) (%s) (%s) (%s)" % tuple(p_ex(e) for e in b[1:])
    return pad + "[" + (";\n" + pad + " ").join(one(b) for b in bs) + "]"


def p_vprog(p, ind=2):
    pad = " " * ind
    k = p[0]
    if k == "vret":
        return pad + "(VRet (%s))" % p_vex(p[1])
    if k == "vraise":
        return pad + "(VRaise %s)" % p[1]
    if k == "vcond":
        return pad + "(VCond (%s)\n%s\n%s)" % (p_cond(p[1]), p_vprog(p[2], ind + 2), p_vprog(p[3], ind + 2))
    if k == "vletnow":
        return pad + "(VLetNow\n%s)" % p_vprog(p[1], ind + 2)
    if k == "vletms":
        return pad + "(VLetMsgSet (%s)\n%s)" % (p_ex(p[1]), p_vprog(p[2], ind + 2))
    if k == "vletcodec":
        return pad + "(VLetCodec %d (%s)\n%s)" % (p[1], p_ex(p[2]), p_vprog(p[3], ind + 2))
    if k == "vletbuild":
        return pad + "(VLetBuild (%s)\n%s\n%s)" % (p_ex(p[1]), p_bitems(p[2], ind + 2), p_vprog(p[3], ind + 2))
    if k == "vletwrap":
        return pad + "(VLetWrapper %d (%s) (%s)\n%s)" % (p[1], p_ex(p[2]), p_ex(p[3]), p_vprog(p[4], ind + 2))
    raise ValueError(k)


# ------------------------------------------------------------------ printing as Gallina
def zlit(z):
    return "(%d)" % z if z < 0 else str(z)


def p_ex(e):
    k = e[0]
    if k == "var":
        return "EVar %d" % e[1]
    if k == "const":
        return "EConst %s" % zlit(e[1])
    if k == "idx":
        return "EIdx (%s) %d" % (p_ex(e[1]), e[2])
    if k == "field":
        return 'EField (%s) "%s"' % (p_ex(e[1]), e[2])
    if k == "len":
        return "ELen (%s)" % p_ex(e[1])
    if k == "group":
        return "EGroup (%s)" % p_ex(e[1])
    if k == "keys":
        return "EKeys (%s)" % p_ex(e[1])
    if k == "ifge":
        return "EIfGe (%s) %s (%s) (%s)" % (p_ex(e[1]), zlit(e[2]), p_ex(e[3]), p_ex(e[4]))
    if k == "ifnone":
        return "EIfNone (%s) (%s) (%s)" % (p_ex(e[1]), p_ex(e[2]), p_ex(e[3]))
    if k == "add":
        return "EAdd (%s) (%s)" % (p_ex(e[1]), p_ex(e[2]))
    if k == "mul":
        return "EMul (%s) (%s)" % (p_ex(e[1]), p_ex(e[2]))
    if k == "none":
        return "ENone"
    raise ValueError(k)


def p_cond(c):
    if c[0] == "ceq":
        return "CEq (%s) %s" % (p_ex(c[1]), zlit(c[2]))
    return "CIsNone (%s)" % p_ex(c[1])


def p_item(it, ind):
    k = it[0]
    if k == "pack":
        return "IPack [%s]" % "; ".join("(%s, %s)" % (f, p_ex(x)) for f, x in it[1])
    if k == "packstar":
        return "IPackStar %s (%s)" % (it[1], p_ex(it[2]))
    if k == "header":
        return "IHeader (%s) (%s) (%s) (%s)" % tuple(p_ex(x) for x in it[1:])
    if k in ("ascii", "text", "sbytes", "istring", "raw"):
        return "%s (%s)" % ({"ascii": "IAscii", "text": "IText", "sbytes": "IShortBytes", "istring": "IIntString", "raw": "IRaw"}[k], p_ex(it[1]))
    if k == "for":
        return "IFor (%s)\n%s" % (p_ex(it[1]), p_prog(it[2], ind + 2))
    if k == "foridx":
        return "IForIdx (%s)\n%s" % (p_ex(it[1]), p_prog(it[2], ind + 2))
    if k == "letms":
        return "ILetMsgSet (%s) (%s)\n%s" % (p_ex(it[1]), p_ex(it[2]), p_prog(it[3], ind + 2))
    if k == "letmsg":
        return "ILetMessage (%s)\n%s" % (p_ex(it[1]), p_prog(it[2], ind + 2))
    if k == "letnow":
        return "ILetNow\n%s" % p_prog(it[1], ind + 2)
    if k == "crc":
        return "ICrc\n%s" % p_prog(it[1], ind + 2)
    if k == "raise":
        return "IRaise %s" % it[1]
    if k == "cond":
        return "ICond (%s)\n%s\n%s" % (p_cond(it[1]), p_prog(it[2], ind + 2), p_prog(it[3], ind + 2))
    raise ValueError(k)


def p_prog(items, ind=2):
    pad = " " * ind
    if not items:
        return pad + "[]"
    return pad + "[" + (";\n" + pad + " ").join(p_item(it, ind + 1) for it in items) + "]"


# ------------------------------------------------------------------ driver
ENCODERS = ["_encode_message_header", "encode_api_versions_request", "encode_metadata_request",
            "encode_consumermetadata_request", "encode_heartbeat_request", "encode_leave_group_request",
            "encode_join_group_request", "encode_sync_group_request", "encode_join_group_protocol_metadata",
            "encode_sync_group_member_assignment", "encode_offset_request", "encode_offset_fetch_request",
            "encode_offset_commit_request", "encode_fetch_request", "encode_produce_request",
            "_encode_message_set", "_encode_message"]


def translate_source(text):
    """-> {function name: ("ok", gallina term text, params, notes) | ("refused", reason)}"""
    tree = ast.parse(text)
    cls = next((n for n in tree.body if isinstance(n, ast.ClassDef) and n.name == "KafkaCodec"), None)
    if cls is None:
        return {n: ("refused", "class KafkaCodec not found") for n in ENCODERS}
    consts = class_constants(cls)
    fns = {n.name: n for n in cls.body if isinstance(n, ast.FunctionDef)}
    out = {}
    for name in ENCODERS:
        if name not in fns:
            out[name] = ("refused", "function not found")
            continue
        try:
            enc = Encoder(fns[name], consts, "KafkaCodec")
            items = enc.translate()
            out[name] = ("ok", p_prog(items), enc.params, enc.notes)
        except Refused as e:
            out[name] = ("refused", str(e))
        except RecursionError:
            out[name] = ("refused", "recursion limit")
    return out


VALUE_FNS = ["create_message", "create_gzip_message", "create_snappy_message", "create_message_set"]


def module_int_constants(text):
    out = {}
    for st in ast.parse(text).body:
        if isinstance(st, ast.Assign) and len(st.targets) == 1 and isinstance(st.targets[0], ast.Name) \
                and isinstance(st.value, ast.Constant) and isinstance(st.value.value, int) and not isinstance(st.value.value, bool):
            out[st.targets[0].id] = st.value.value
    return out


def translate_values(text, consts):
    tree = ast.parse(text)
    fns = {n.name: n for n in tree.body if isinstance(n, ast.FunctionDef)}
    out = {}
    for name in VALUE_FNS:
        if name not in fns:
            out[name] = ("refused", "function not found")
            continue
        try:
            vf = ValueFn(fns[name], consts)
            out[name] = ("ok", p_vprog(vf.translate()), vf.params, vf.notes)
        except Refused as e:
            out[name] = ("refused", str(e))
        except RecursionError:
            out[name] = ("refused", "recursion limit")
    return out


def translate_repo(repo):
    text = open(os.path.join(repo, "afkak", "kafkacodec.py")).read()
    res = translate_source(text)
    consts = module_int_constants(open(os.path.join(repo, "afkak", "common.py")).read())
    consts.update(module_int_constants(text))
    res.update(translate_values(text, consts))
    return res


def gen_name(fn):
    return "gen_" + fn.lstrip("_")


def emit_gallina(results):
    lines = ["(* GENERATED by harness/py2enc.py from afkak/kafkacodec.py - do not edit *)",
             "From Coq Require Import String.", "From AV Require Import Base.Util Model.Prim Model.EncDSL Model.EncDSLV.",
             "Open Scope string_scope.", ""]
    for fn in ENCODERS:
        r = results[fn]
        if r[0] == "ok":
            lines.append("(* %s(%s) *)" % (fn, ", ".join(r[2])))
            lines.append("Definition %s : prog :=\n%s.\n" % (gen_name(fn), r[1]))
    for fn in VALUE_FNS:
        r = results.get(fn, ("refused", "not translated"))
        if r[0] == "ok":
            lines.append("(* %s(%s) *)" % (fn, ", ".join(r[2])))
            lines.append("Definition %s : vprog :=\n%s.\n" % (gen_name(fn), r[1]))
    return "\n".join(lines)


if __name__ == "__main__":
    import sys
    res = translate_repo(sys.argv[1] if len(sys.argv) > 1 else "/repo")
    for fn in ENCODERS + VALUE_FNS:
        print(fn, res[fn][0], res[fn][1] if res[fn][0] == "refused" else "")
    print(emit_gallina(res))
