# Fail-closed translator from the SOURCE of the partitioner classes in afkak/partitioner.py to Gallina function text
# over the Python-shaped combinators of coq/Model/PartitionerPy.v.  Second part of C18's translator tie (A)
# (the first is harness/py2coq.py for pure_murmur2): on every run
#     HashedPartitioner.partition + the pure-Python _hash           -> gen_hashed_partition
#     RoundRobinPartitioner.__init__ / _set_partitions / partition  -> gen_rr_init, gen_rr_partition
# are translated again and proved equal to the hand-written model Model/Partitioner.v (hashed_partition[_text],
# rr_set / rr_partition) in coq/Run/out/gen/<id>/ (harness/murmur_tie.py, Proofs/PartitionerGenTac.v).
#
# Data model: a key is a pkey (KStr code points | KBytes | KBytearray | KOther); exceptions are the result monad
# pres (POk / PErr: TypeError, UnicodeEncodeError, ZeroDivisionError, IndexError, ValueError, StopIteration);
# an object is the tuple of its attributes (those assigned anywhere in the translated methods, in name order, plus the
# class attribute randomStart as a read-only flag); itertools.cycle = (list, next index); random.randint(a, b) is an
# ORACLE: the value it returned is the argument r of the generated function (the driver reads it back), ValueError
# when b < a; at most one randint call per method call is accepted.  pure_murmur2(x) is rendered as the model's
# Murmur.pure_murmur2 on a bytearray (TypeError otherwise, its documented guard): ITS tie to the source is part one.
#
# Understood (anything else raises Refused -> tie "unavailable"):
#   statements   x = e; self.a = e; if/elif/else; return [e]; raise TypeError(..); pass; docstrings; warnings.warn(..)
#                (dropped); next(self.a); self.m(args) and super().__init__(args) (inlined, also for their value);
#                for _ in range(e): <body without return>
#   expressions  names, self.a, ints, & % + -, len(x), x[i], sorted(x), cycle(x), next(self.a), randint(a, b),
#                isinstance(k, str | type("") | bytes | bytearray), not / and / or, == / != on lists,
#                bytearray(k, "UTF-8"), bytearray(k), bytes(k), pure_murmur2(x), a bare name or attribute as truth value
#                of a bool attribute
import ast
import os


class Refused(Exception):
    pass


def refuse(node, what):
    raise Refused("%s (line %s)" % (what, getattr(node, "lineno", "?")))


def is_docstring(s):
    return isinstance(s, ast.Expr) and isinstance(s.value, ast.Constant) and isinstance(s.value.value, str)


def dotted(e):
    if isinstance(e, ast.Name):
        return e.id
    if isinstance(e, ast.Attribute):
        b = dotted(e.value)
        return None if b is None else b + "." + e.attr
    return None


def find_class(tree, name):
    found = [n for n in tree.body if isinstance(n, ast.ClassDef) and n.name == name]
    if len(found) != 1:
        raise Refused("class %s not found (or defined twice)" % name)
    return found[0]


def methods_of(cls, pure_branch=True):
    """methods of a class body; for `if _c_murmur2: def .. else: def ..` the ELSE branch (the pure-Python path, the one
    that exists where the C extension is not installed)"""
    out = {}

    def add(stmts):
        for st in stmts:
            if isinstance(st, ast.FunctionDef):
                if st.name in out:
                    raise Refused("method %s defined twice" % st.name)
                out[st.name] = st
            elif isinstance(st, ast.If) and isinstance(st.test, ast.Name) and st.test.id == "_c_murmur2":
                add(st.orelse)
    add(cls.body)
    return out


class Obj:
    """translation of the methods of one class (with one base class)"""

    def __init__(self, tree, cls_name, flag_attrs=()):
        self.tree = tree
        self.cls = find_class(tree, cls_name)
        self.methods = methods_of(self.cls)
        self.base = None
        if len(self.cls.bases) == 1 and isinstance(self.cls.bases[0], ast.Name) and self.cls.bases[0].id != "object":
            self.base = methods_of(find_class(tree, self.cls.bases[0].id))
        self.flags = list(flag_attrs)            # class attributes read as booleans (never assigned through self)
        import py2coq
        self.mod = py2coq.Module(ast.unparse(tree))       # module-level integer constants (bound exactly once)
        self.modfuncs = {n.name: n for n in tree.body if isinstance(n, ast.FunctionDef)}
        self.tmp = 0
        self.depth = 0

    def attrs_assigned(self, roots):
        """instance attributes assigned by the methods reachable from `roots` (sorted)"""
        seen, todo, attrs = set(), list(roots), set()
        while todo:
            m = todo.pop()
            if m in seen:
                continue
            seen.add(m)
            fn = self.lookup(m)
            for n in ast.walk(fn):
                if isinstance(n, ast.Attribute) and isinstance(n.value, ast.Name) and n.value.id == "self":
                    if isinstance(n.ctx, ast.Store):
                        attrs.add(n.attr)
                if isinstance(n, ast.Call):
                    d = dotted(n.func)
                    if d and d.startswith("self.") and d[5:] in self.methods:
                        todo.append(d[5:])
                    if self.is_super_init(n):
                        todo.append("base:__init__")
        return sorted(attrs)

    def lookup(self, m):
        if m.startswith("mod:"):
            return self.modfuncs[m[4:]]
        if m.startswith("base:"):
            if self.base is None or m[5:] not in self.base:
                raise Refused("base method %s not found" % m[5:])
            return self.base[m[5:]]
        if m not in self.methods:
            raise Refused("method %s not found" % m)
        return self.methods[m]

    @staticmethod
    def is_super_init(c):
        return (isinstance(c, ast.Call) and isinstance(c.func, ast.Attribute) and c.func.attr == "__init__"
                and isinstance(c.func.value, ast.Call) and isinstance(c.func.value.func, ast.Name) and c.func.value.func.id == "super")

    def fresh(self):
        self.tmp += 1
        return "t%d" % self.tmp

    @staticmethod
    def wrap(binds, body):
        for name, m in reversed(binds):
            body = "pbind (%s) (fun %s =>\n%s)" % (m, name, body)
        return body

    # env: {"loc": {name: coqvar}, "att": {attr: coqvar}, "rand": count}
    @staticmethod
    def copy(env):
        return {"loc": dict(env["loc"]), "att": dict(env["att"]), "rand": env["rand"], "alias": dict(env.get("alias", {})),
                "bools": set(env.get("bools", set()))}

    # ---- expressions: (binds, term, env) - env may change (next() advances an iterator attribute, randint count)
    def ex(self, e, env):
        if isinstance(e, ast.Constant) and isinstance(e.value, int) and not isinstance(e.value, bool):
            return [], "(%d)" % e.value, env
        if isinstance(e, ast.Name):
            if e.id in env.get("alias", {}):                 # the local names the same object as an attribute
                return [], env["att"][env["alias"][e.id]], env
            if e.id not in env["loc"]:
                v = self.mod.constant(e.id) if self.mod.bind_count.get(e.id) == 1 else None
                if v is not None:
                    return [], "(%d)" % v, env
                refuse(e, "name %s is not a bound local or a module integer constant" % e.id)
            return [], env["loc"][e.id], env
        if isinstance(e, ast.Attribute) and isinstance(e.value, ast.Name) and e.value.id == "self":
            if e.attr not in env["att"]:
                refuse(e, "attribute self.%s may be unset here" % e.attr)
            return [], env["att"][e.attr], env
        if isinstance(e, ast.BinOp):
            b1, l, env = self.ex(e.left, env)
            b2, r, env = self.ex(e.right, env)
            if isinstance(e.op, ast.BitAnd):
                return b1 + b2, "(Z.land %s %s)" % (l, r), env
            if isinstance(e.op, ast.Add):
                return b1 + b2, "(Z.add %s %s)" % (l, r), env
            if isinstance(e.op, ast.Sub):
                return b1 + b2, "(Z.sub %s %s)" % (l, r), env
            if isinstance(e.op, ast.Mod):
                t = self.fresh()
                return b1 + b2 + [(t, "py_mod %s %s" % (l, r))], t, env
            refuse(e, "operator " + type(e.op).__name__)
        if isinstance(e, ast.Subscript):
            if isinstance(e.slice, (ast.Slice, ast.Tuple)):
                refuse(e, "slice")
            b1, l, env = self.ex(e.value, env)
            b2, i, env = self.ex(e.slice, env)
            t = self.fresh()
            return b1 + b2 + [(t, "py_getitem %s %s" % (l, i))], t, env
        if isinstance(e, ast.Call):
            if e.keywords or any(isinstance(a, ast.Starred) for a in e.args):
                refuse(e, "call form")
            name = dotted(e.func)
            if name == "len" and len(e.args) == 1:
                b, t, env = self.ex(e.args[0], env)
                return b, "(Z.of_nat (length %s))" % t, env
            if name == "sorted" and len(e.args) == 1:
                b, t, env = self.ex(e.args[0], env)
                return b, "(zsort %s)" % t, env
            if name in ("cycle", "itertools.cycle") and len(e.args) == 1:
                b, t, env = self.ex(e.args[0], env)
                return b, "(py_cycle %s)" % t, env
            if name in ("randint", "random.randint") and len(e.args) == 2:
                b1, a, env = self.ex(e.args[0], env)
                b2, c, env = self.ex(e.args[1], env)
                env = self.copy(env)
                env["rand"] += 1
                if env["rand"] > 1:
                    refuse(e, "more than one randint() call on one path (one oracle value per method call)")
                t = self.fresh()
                return b1 + b2 + [(t, "py_randint r %s %s" % (a, c))], t, env
            if name == "next" and len(e.args) == 1:
                a = e.args[0]
                if isinstance(a, ast.Attribute) and isinstance(a.value, ast.Name) and a.value.id == "self":
                    attr = a.attr
                elif isinstance(a, ast.Name) and a.id in env.get("alias", {}):
                    attr = env["alias"][a.id]                 # next(x) where x is the object stored in self.<attr>
                else:
                    refuse(e, "next() of something that is not an attribute (or a local naming one)")
                if attr not in env["att"]:
                    refuse(e, "attribute self.%s may be unset here" % attr)
                t = self.fresh()
                env2 = self.copy(env)
                old = env["att"][attr]
                env2["att"][attr] = "a_" + attr
                # the bind introduces the pair; the new iterator state shadows the attribute variable
                return [(t + "p", "py_next %s" % old), ("a_" + attr, "POk (snd %sp)" % t)], "(fst %sp)" % t, env2
            if name == "bytearray" and len(e.args) == 2 and isinstance(e.args[1], ast.Constant) \
                    and str(e.args[1].value).upper().replace("-", "") == "UTF8":
                b, k, env = self.ex(e.args[0], env)
                t = self.fresh()
                return b + [(t, "py_bytearray_utf8 %s" % k)], t, env
            if name in ("bytearray", "bytes") and len(e.args) == 1:
                b, k, env = self.ex(e.args[0], env)
                t = self.fresh()
                return b + [(t, "py_%s %s" % (name, k))], t, env
            if name == "pure_murmur2" and len(e.args) == 1:
                b, k, env = self.ex(e.args[0], env)
                t = self.fresh()
                return b + [(t, "py_murmur %s" % k)], t, env
            if name is not None and name.startswith("self.") and name[5:] in self.methods:
                return self.inline(name[5:], e.args, env, want_value=True)
            if name in self.modfuncs and name not in env["loc"] and self.mod.bind_count.get(name) == 1:
                return self.inline("mod:" + name, e.args, env, want_value=True)
            refuse(e, "call of %s" % (name or "?"))
        if isinstance(e, (ast.Compare, ast.BoolOp)) or (isinstance(e, ast.UnaryOp) and isinstance(e.op, ast.Not)):
            return self.cond(e, env)                       # a boolean computed into a local
        refuse(e, "expression " + type(e).__name__)

    def cond(self, e, env):
        if isinstance(e, ast.UnaryOp) and isinstance(e.op, ast.Not):
            b, t, env = self.cond(e.operand, env)
            return b, "(negb %s)" % t, env
        if isinstance(e, ast.BoolOp):
            f = "andb" if isinstance(e.op, ast.And) else "orb"
            b, out, env = self.cond(e.values[0], env)
            for v in e.values[1:]:
                b2, t2, env = self.cond(v, env)
                if b2:
                    refuse(v, "an operand of and/or that can raise")
                out = "(%s %s %s)" % (f, out, t2)
            return b, out, env
        if isinstance(e, ast.Call) and dotted(e.func) == "isinstance" and len(e.args) == 2 and not e.keywords:
            b, k, env = self.ex(e.args[0], env)
            c = e.args[1]
            if isinstance(c, ast.Name) and c.id in ("str", "bytes", "bytearray"):
                cls = {"str": "TStr", "bytes": "TBytes", "bytearray": "TBytearray"}[c.id]
            elif (isinstance(c, ast.Call) and dotted(c.func) == "type" and len(c.args) == 1 and isinstance(c.args[0], ast.Constant)
                  and c.args[0].value in ("", b"")):
                cls = "TStr" if c.args[0].value == "" else "TBytes"
            else:
                refuse(e, "isinstance() class")
            return b, "(py_isinstance %s %s)" % (k, cls), env
        if isinstance(e, ast.Compare) and len(e.ops) == 1 and isinstance(e.ops[0], (ast.Eq, ast.NotEq)):
            b1, l, env = self.ex(e.left, env)
            b2, r, env = self.ex(e.comparators[0], env)
            t = "(zlist_eqb %s %s)" % (l, r)
            return b1 + b2, t if isinstance(e.ops[0], ast.Eq) else "(negb %s)" % t, env
        if isinstance(e, ast.Attribute) and isinstance(e.value, ast.Name) and e.value.id == "self" and e.attr in self.flags:
            b, t, env = self.ex(e, env)
            return b, t, env
        if isinstance(e, ast.Name) and e.id in env["loc"] and e.id in env.get("bools", set()):
            return [], env["loc"][e.id], env
        refuse(e, "condition " + type(e).__name__)

    # ---- statements.  k_fall(env) / k_ret(term or None, env) give the text of what follows
    def block(self, stmts, env, k_fall, k_ret, in_loop=False):
        if not stmts:
            return k_fall(env)
        s, rest = stmts[0], list(stmts[1:])
        nxt = lambda env2: self.block(rest, env2, k_fall, k_ret, in_loop)
        if is_docstring(s) or isinstance(s, ast.Pass):
            return nxt(env)
        if isinstance(s, ast.Expr) and isinstance(s.value, ast.Call):
            c = s.value
            name = dotted(c.func)
            if name in ("warnings.warn", "warn"):
                return nxt(env)
            if name == "next":
                b, _t, env2 = self.ex(c, env)
                return self.wrap(b, nxt(env2))
            if self.is_super_init(c):
                return self.inline("base:__init__", c.args, env, want_value=False, then=nxt)
            if name is not None and name.startswith("self.") and name[5:] in self.methods:
                return self.inline(name[5:], c.args, env, want_value=False, then=nxt)
            refuse(s, "expression statement")
        if isinstance(s, ast.Assign):
            if len(s.targets) != 1:
                refuse(s, "chained assignment")
            t = s.targets[0]
            b, v, env2 = self.ex(s.value, env)
            env2 = self.copy(env2)
            val = s.value
            if isinstance(t, ast.Name):
                cv = "v_" + t.id + ("_%d" % self.depth if self.depth else "")      # callee locals never shadow the caller's
                env2["loc"][t.id] = cv
                bools = set(env2.get("bools", set()))
                bools.discard(t.id)
                if isinstance(val, (ast.Compare, ast.BoolOp)) or (isinstance(val, ast.UnaryOp) and isinstance(val.op, ast.Not)):
                    bools.add(t.id)
                env2["bools"] = bools
                env2["alias"].pop(t.id, None)
                if isinstance(val, ast.Attribute) and isinstance(val.value, ast.Name) and val.value.id == "self" and val.attr not in self.flags:
                    env2["alias"][t.id] = val.attr        # x = self.a : x names the object the attribute holds
                elif isinstance(val, ast.Name) and val.id in env["alias"]:
                    env2["alias"][t.id] = env["alias"][val.id]
                return self.wrap(b, "let %s := %s in\n%s" % (cv, v, nxt(env2)))
            if isinstance(t, ast.Attribute) and isinstance(t.value, ast.Name) and t.value.id == "self":
                if t.attr in self.flags:
                    refuse(s, "assignment to the class flag through self")
                # the attribute is REBOUND: locals that named its old object keep that object
                pre = ""
                for x, a in list(env2["alias"].items()):
                    if a == t.attr:
                        self.tmp += 1
                        fz = "v_%s_k%d" % (x, self.tmp)
                        pre += "let %s := %s in " % (fz, env2["att"][a])
                        env2["loc"][x] = fz
                        del env2["alias"][x]
                env2["att"][t.attr] = "a_" + t.attr
                if isinstance(val, ast.Name) and val.id in env2["loc"]:
                    env2["alias"][val.id] = t.attr        # self.a = x : x names the object now held by the attribute
                return self.wrap(b, "%slet a_%s := %s in\n%s" % (pre, t.attr, v, nxt(env2)))
            refuse(s, "assignment target")
        if isinstance(s, ast.If):
            if in_loop:
                refuse(s, "if inside a loop")
            b, c, env2 = self.cond(s.test, env)
            ta = self.block(list(s.body) + rest, self.copy(env2), k_fall, k_ret, in_loop)
            tb = self.block(list(s.orelse) + rest, self.copy(env2), k_fall, k_ret, in_loop)
            return self.wrap(b, "if %s then\n%s\nelse\n%s" % (c, ta, tb))
        if isinstance(s, ast.Return):
            if in_loop:
                refuse(s, "return inside a loop")
            if s.value is None or (isinstance(s.value, ast.Constant) and s.value.value is None):
                return k_ret(None, env)
            b, v, env2 = self.ex(s.value, env)
            return self.wrap(b, k_ret(v, env2))
        if isinstance(s, ast.Raise):
            e = s.exc
            if (isinstance(e, ast.Call) and dotted(e.func) == "TypeError") or (isinstance(e, ast.Name) and e.id == "TypeError"):
                return "PErr PTypeError"
            refuse(s, "raise of something other than TypeError")
        if isinstance(s, ast.For):
            it = s.iter
            if (s.orelse or in_loop or not isinstance(s.target, ast.Name) or not (isinstance(it, ast.Call) and dotted(it.func) == "range"
                                                                              and len(it.args) == 1 and not it.keywords)):
                refuse(s, "for form")
            if any(isinstance(n, ast.Name) and n.id == s.target.id for st in s.body for n in ast.walk(st)):
                refuse(s, "the loop variable is used")
            b, n, env2 = self.ex(it.args[0], env)
            touched = set()
            for st in s.body:
                for x in ast.walk(st):
                    if isinstance(x, ast.Attribute) and isinstance(x.value, ast.Name) and x.value.id == "self" and isinstance(x.ctx, ast.Store):
                        touched.add(x.attr)
                    if isinstance(x, ast.Call) and dotted(x.func) == "next" and len(x.args) == 1:
                        a0 = x.args[0]
                        if isinstance(a0, ast.Attribute) and isinstance(a0.value, ast.Name) and a0.value.id == "self":
                            touched.add(a0.attr)
                        elif isinstance(a0, ast.Name) and a0.id in env2.get("alias", {}):
                            touched.add(env2["alias"][a0.id])
                        else:
                            refuse(x, "next() of an unknown iterator inside a loop")
                    if isinstance(x, ast.Call) and dotted(x.func) is not None and dotted(x.func).startswith("self."):
                        refuse(x, "method call inside a loop")
            carried = sorted(a for a in touched if a in env2["att"] and a not in self.flags)
            if touched - set(carried):
                refuse(s, "a loop body touches an attribute that is unset or a flag")
            if any(isinstance(x, (ast.Name,)) and isinstance(x.ctx, ast.Store) for st in s.body for x in ast.walk(st)):
                refuse(s, "assignment to a local inside a loop")
            tup = lambda e3: self.tuple_of([e3["att"][a] for a in carried])
            env_in = self.copy(env2)
            unpack = self.unpack(carried, "s")
            for a in carried:
                env_in["att"][a] = "a_" + a
            body = self.block(list(s.body), env_in, lambda e3: "POk %s" % tup(e3), lambda v, e3: refuse(s, "return inside a loop"), True)
            if env_in["rand"] != env2["rand"]:
                refuse(s, "randint inside a loop")
            env3 = self.copy(env2)
            for a in carried:
                env3["att"][a] = "a_" + a
            return self.wrap(b, "pbind (py_repeat %s %s (fun s => %s\n%s)) (fun s => %s\n%s)" % (
                n, tup(env2), unpack, body, unpack, nxt(env3)))
        refuse(s, "statement " + type(s).__name__)

    @staticmethod
    def tuple_of(terms):
        if not terms:
            return "tt"
        return terms[0] if len(terms) == 1 else "(" + ", ".join(terms) + ")"

    @staticmethod
    def unpack(attrs, src):
        if not attrs:
            return ""
        if len(attrs) == 1:
            return "let a_%s := %s in " % (attrs[0], src)
        out, n = [], len(attrs)
        for i, a in enumerate(attrs):
            e = src
            for _ in range(n - 1 - max(i, 1)):
                e = "(fst %s)" % e
            e = "(fst %s)" % e if i == 0 else "(snd %s)" % e
            out.append("let a_%s := %s in " % (a, e))
        return "".join(out)

    def inline(self, m, args, env, want_value, then=None):
        """self.m(args): the callee's body with its parameters bound; attributes are threaded through"""
        fn = self.lookup(m)
        a = fn.args
        if a.vararg or a.kwarg or a.kwonlyargs or a.defaults or getattr(a, "posonlyargs", []) or self.depth > 4:
            refuse(fn, "signature of %s" % m)
        if any(isinstance(d, ast.Name) and d.id in ("classmethod", "staticmethod") for d in fn.decorator_list):
            refuse(fn, "call of a class/static method")
        params = [x.arg for x in a.args][(0 if m.startswith("mod:") else 1):]
        if len(params) != len(args):
            refuse(fn, "arguments of %s" % m)
        binds, envc = [], self.copy(env)
        terms = []
        for arg in args:
            b, t, envc = self.ex(arg, envc)
            binds += b
            terms.append(t)
        callee_env = {"loc": {}, "att": ({} if m.startswith("mod:") else dict(envc["att"])), "rand": envc["rand"], "alias": {}}
        lets = ""
        for pn, t in zip(params, terms):
            callee_env["loc"][pn] = "v_%s_%d" % (pn, self.depth + 1)
            lets += "let v_%s_%d := %s in " % (pn, self.depth + 1, t)
        self.depth += 1
        try:
            att0 = dict(callee_env["att"])
            if want_value:
                # the value of the call (a helper that does not touch the attributes): its body as a monadic term
                def k_ret(v, e2):
                    if v is None:
                        refuse(fn, "%s returns no value" % m)
                    if e2["att"] != att0:
                        refuse(fn, "%s changes attributes and is used for its value" % m)
                    return "POk %s" % v
                body = self.block(list(fn.body), callee_env, lambda e2: refuse(fn, "%s can fall off its end" % m), k_ret)
                t = self.fresh()
                env_after = self.copy(env)
                env_after["rand"] = max(env["rand"], callee_env["rand"])
                return binds + [(t, lets + "\n" + body)], t, env_after
            def cont(e2):
                back = self.copy(env)
                back["att"] = dict(e2["att"])
                back["rand"] = e2["rand"]
                back["alias"] = {}        # conservative: aliases do not survive a call that may rebind attributes
                return then(back)
            body = self.block(list(fn.body), callee_env, cont, lambda v, e2: cont(e2))
            return self.wrap(binds, lets + "\n" + body)
        finally:
            self.depth -= 1


def indent(text):
    out, depth = [], 1
    for line in text.split("\n"):
        out.append("  " * max(depth, 1) + line.strip())
        depth += line.count("(") - line.count(")")
    return "\n".join(out)


PRELUDE = "From AV Require Import Base.Util Model.Murmur Model.Partitioner Model.PartitionerPy.\n\n"


def translate_hashed(tree):
    o = Obj(tree, "HashedPartitioner")
    fn = o.lookup("partition")
    params = [a.arg for a in fn.args.args]
    if params != ["self", "key", "partitions"] or fn.args.defaults or fn.args.vararg or fn.args.kwarg:
        refuse(fn, "signature of HashedPartitioner.partition")
    if o.attrs_assigned(["partition"]):
        refuse(fn, "HashedPartitioner.partition assigns attributes")
    env = {"loc": {"key": "v_key", "partitions": "v_partitions"}, "att": {}, "rand": 0, "alias": {}}
    for a in ast.walk(fn):
        if isinstance(a, ast.Attribute) and isinstance(a.value, ast.Name) and a.value.id == "self" and not isinstance(a.ctx, ast.Load):
            refuse(a, "attribute store")
    body = o.block(list(fn.body), env, lambda e: refuse(fn, "partition can fall off its end"),
                   lambda v, e: ("POk %s" % v) if v is not None else refuse(fn, "return without a value"))
    return ("Definition gen_hashed_partition (v_key : pkey) (v_partitions : list Z) : pres Z :=\n%s.\n" % indent(body))


def translate_rr(tree):
    o = Obj(tree, "RoundRobinPartitioner", flag_attrs=["randomStart"])
    attrs = o.attrs_assigned(["__init__", "partition"])
    if attrs != ["iterpart", "partitions", "topic"]:
        raise Refused("RoundRobinPartitioner instance attributes are %r, expected iterpart, partitions, topic" % (attrs,))
    state = ["iterpart", "partitions"]        # topic is write-only: not part of the compared state
    out = []
    # __init__(self, topic, partitions)
    fn = o.lookup("__init__")
    if [a.arg for a in fn.args.args] != ["self", "topic", "partitions"]:
        refuse(fn, "signature of __init__")
    env = {"loc": {"topic": "v_topic", "partitions": "v_partitions"}, "att": {"randomStart": "a_randomStart"}, "rand": 0, "alias": {}}

    def fin(e):
        for a in state:
            if a not in e["att"]:
                refuse(fn, "attribute %s unset after __init__" % a)
        return "POk (%s, %s)" % (e["att"]["iterpart"], e["att"]["partitions"])
    body = o.block(list(fn.body), env, fin, lambda v, e: fin(e) if v is None else refuse(fn, "__init__ returns a value"))
    out.append("Definition gen_rr_init (a_randomStart : bool) (r : Z) (v_topic : unit) (v_partitions : list Z) : pres ((list Z * nat) * list Z) :=\n%s.\n" % indent(body))
    # partition(self, key, partitions)
    fn = o.lookup("partition")
    if [a.arg for a in fn.args.args] != ["self", "key", "partitions"]:
        refuse(fn, "signature of partition")
    env = {"loc": {"key": "v_key", "partitions": "v_partitions"},
           "att": {"randomStart": "a_randomStart", "iterpart": "a_iterpart", "partitions": "a_partitions", "topic": "v_topic"}, "rand": 0, "alias": {}}

    def ret(v, e):
        if v is None:
            refuse(fn, "partition returns nothing")
        return "POk (%s, (%s, %s))" % (v, e["att"]["iterpart"], e["att"]["partitions"])
    body = o.block(list(fn.body), env, lambda e: refuse(fn, "partition can fall off its end"), ret)
    out.append("Definition gen_rr_partition (a_randomStart : bool) (r : Z) (st : (list Z * nat) * list Z) (v_key : pkey) (v_partitions : list Z)\n"
               "  : pres (Z * ((list Z * nat) * list Z)) :=\n  let a_iterpart := fst st in let a_partitions := snd st in let v_topic := tt in\n%s.\n" % indent(body))
    return "\n".join(out)


def translate_source(source):
    tree = ast.parse(source)
    text = ("(* GENERATED by harness/py2part.py from afkak/partitioner.py HashedPartitioner / RoundRobinPartitioner - do not edit. *)\n"
            + PRELUDE + translate_hashed(tree) + "\n" + translate_rr(tree)
            + "\nCreate HintDb gen_part_defs.\n#[export] Hint Unfold gen_hashed_partition gen_rr_init gen_rr_partition : gen_part_defs.\n")
    return text


def translate_repo(repo):
    try:
        src = open(os.path.join(repo, "afkak", "partitioner.py")).read()
        return True, translate_source(src), "translated"
    except (Refused, SyntaxError, OSError, RecursionError) as e:
        return False, None, "%s: %s" % (type(e).__name__, str(e)[:300])


if __name__ == "__main__":
    import sys
    ok, text, msg = translate_repo(sys.argv[1] if len(sys.argv) > 1 else "/repo")
    sys.stdout.write(text if ok else "FAILED: " + msg + "\n")
