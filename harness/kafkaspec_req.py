# S-Kafka (requests), Python edition: an INDEPENDENT strict parser for Kafka requests written from the Kafka
# protocol guide (https://kafka.apache.org/protocol.html: primitive types, Request Header v1, the request schemas,
# message formats v0 / v1).  It imports NOTHING from afkak and nothing from the rest of the harness.
# It implements the same grammar with the same strictness as coq/Model/KafkaSpecReq.v; harness/props/C04.py runs
# both on the same bytes on every check and compares them field for field (`flatten` below is the trace format of
# coq/Model/ReqRun.v op 50 / 51 / 52).
#
#   RequestHeader      => api_key:INT16 api_version:INT16 correlation_id:INT32 client_id:NULLABLE_STRING
#   Produce v0,v1,v2   => acks:INT16 timeout_ms:INT32 [topic:STRING [partition:INT32 record_set_size:INT32 record_set]]
#   Fetch v0,v1,v2     => replica_id:INT32 max_wait_ms:INT32 min_bytes:INT32
#                         [topic:STRING [partition:INT32 fetch_offset:INT64 partition_max_bytes:INT32]]
#   ListOffsets v0     => replica_id:INT32 [topic:STRING [partition:INT32 timestamp:INT64 max_num_offsets:INT32]]
#   Metadata v0        => [topic:STRING]
#   OffsetCommit v1    => group_id:STRING generation_id:INT32 member_id:STRING
#                         [topic:STRING [partition:INT32 offset:INT64 timestamp:INT64 metadata:NULLABLE_STRING]]
#   OffsetFetch v1     => group_id:STRING [topic:STRING [partition:INT32]]
#   FindCoordinator v0 => group_id:STRING
#   JoinGroup v0       => group_id:STRING session_timeout_ms:INT32 member_id:STRING protocol_type:STRING
#                         [protocol_name:STRING metadata:BYTES]
#   Heartbeat v0       => group_id:STRING generation_id:INT32 member_id:STRING
#   LeaveGroup v0      => group_id:STRING member_id:STRING
#   SyncGroup v0       => group_id:STRING generation_id:INT32 member_id:STRING [member_id:STRING assignment:BYTES]
#   ApiVersions v0     => (empty)
#   Subscription v0    => version:INT16 [topic:STRING] user_data:NULLABLE_BYTES
#   Assignment v0      => version:INT16 [topic:STRING [partition:INT32]] user_data:NULLABLE_BYTES
#   MessageSet         => (offset:INT64 message_size:INT32 message)*
#   Message v0         => crc:UINT32 magic:INT8(=0) attributes:INT8 key:NULLABLE_BYTES value:NULLABLE_BYTES
#   Message v1         => crc:UINT32 magic:INT8(=1) attributes:INT8 timestamp:INT64 key:NULLABLE_BYTES value:NULLABLE_BYTES
#
# Strict: every byte accounted for, every CRC checked, counts and lengths non-negative (-1 only where NULLABLE),
# no array longer than the bytes that remain, compressed wrappers contain only uncompressed messages of the wrapper's
# own format (brokers reject "inner message magic does not match wrapper magic"), codecs other
# than none / gzip (/ snappy when a decompressor is supplied) rejected.
import gzip
import zlib


class Reject(Exception):
    pass


class Cursor:
    def __init__(self, data):
        self.d = bytes(data)
        self.i = 0

    def left(self):
        return len(self.d) - self.i

    def take(self, n):
        if n < 0 or self.left() < n:
            raise Reject("need %d bytes, %d left" % (n, self.left()))
        b = self.d[self.i:self.i + n]
        self.i += n
        return b

    def uint(self, n):
        return int.from_bytes(self.take(n), "big", signed=False)

    def int(self, n):
        return int.from_bytes(self.take(n), "big", signed=True)

    def int8(self):
        return self.int(1)

    def int16(self):
        return self.int(2)

    def int32(self):
        return self.int(4)

    def int64(self):
        return self.int(8)

    def string(self):
        return self.take(self.int16())            # a negative length is rejected by take

    def nullable_string(self):
        n = self.int16()
        return None if n == -1 else self.take(n)

    def bytes_(self):
        return self.take(self.int32())

    def nullable_bytes(self):
        n = self.int32()
        return None if n == -1 else self.take(n)

    def array(self, elem):
        n = self.int32()
        if n < 0 or self.left() < n:
            raise Reject("array count %d with %d bytes left" % (n, self.left()))
        return [elem(self) for _ in range(n)]

    def end(self):
        if self.left():
            raise Reject("%d trailing bytes" % self.left())


def std_gunzip(data):
    return gzip.decompress(bytes(data))


class Decompressors:
    """gunzip / unsnappy with a record of every call: (kind, input, ok, output); kind 1 gzip, 3 snappy
    (the numbering of the ORACLE pairs of the Coq runners)."""

    def __init__(self, gunzip=std_gunzip, unsnappy=None):
        self.gunzip, self.unsnappy, self.calls = gunzip, unsnappy, []

    def run(self, codec, data):
        if codec == 1:
            f, kind = self.gunzip, 1
        elif codec == 2 and self.unsnappy is not None:
            f, kind = self.unsnappy, 3
        else:
            raise Reject("unsupported codec %d" % codec)
        try:
            out = bytes(f(data))
        except Exception:  # noqa
            self.calls.append((kind, bytes(data), False, b""))
            raise Reject("decompression failed")
        self.calls.append((kind, bytes(data), True, out))
        return out


def message(offset, mb):
    c = Cursor(mb)
    crc = c.uint(4)
    if crc != (zlib.crc32(mb[4:]) & 0xFFFFFFFF):
        raise Reject("crc mismatch")
    magic, attr = c.uint(1), c.uint(1)
    if magic == 0:
        ts = None
    elif magic == 1:
        ts = c.int64()
    else:
        raise Reject("magic %d" % magic)
    key, value = c.nullable_bytes(), c.nullable_bytes()
    c.end()
    return {"offset": offset, "magic": magic, "attr": attr, "ts": ts, "key": key, "value": value}


def message_set(data, one):
    c, out = Cursor(data), []
    while c.left():
        off = c.int64()
        mb = c.take(c.int32())
        out.append(one(off, mb))
    return out


def inner_message(wrapper_magic):
    def one(offset, mb):
        m = message(offset, mb)
        if m["attr"] & 7:
            raise Reject("compressed message inside a compressed message")
        if m["magic"] != wrapper_magic:
            raise Reject("inner message magic does not match wrapper magic")
        return m
    return one


def outer_message(dec):
    def one(offset, mb):
        m = message(offset, mb)
        codec = m["attr"] & 7
        if codec == 0:
            return {"wrapper": False, "msg": m}
        if m["value"] is None:
            raise Reject("compressed message without value")
        inner = message_set(dec.run(codec, m["value"]), inner_message(m["magic"]))
        return {"wrapper": True, "msg": m, "inner": inner}
    return one


def topics_of(c, part):
    return c.array(lambda c: (c.string(), c.array(part)))


def body(c, key, version, dec):
    if key == 0 and version in (0, 1, 2):
        acks, timeout = c.int16(), c.int32()

        def part(c):
            p = c.int32()
            return (p, message_set(c.bytes_(), outer_message(dec)))
        return {"api": "Produce", "acks": acks, "timeout": timeout, "topics": topics_of(c, part)}
    if key == 1 and version in (0, 1, 2):
        replica, wait, minb = c.int32(), c.int32(), c.int32()
        return {"api": "Fetch", "replica": replica, "max_wait": wait, "min_bytes": minb,
                "topics": topics_of(c, lambda c: (c.int32(), c.int64(), c.int32()))}
    if (key, version) == (2, 0):
        replica = c.int32()
        return {"api": "ListOffsets", "replica": replica, "topics": topics_of(c, lambda c: (c.int32(), c.int64(), c.int32()))}
    if (key, version) == (3, 0):
        return {"api": "Metadata", "topics": c.array(lambda c: c.string())}
    if (key, version) == (8, 1):
        g, gen, m = c.string(), c.int32(), c.string()
        return {"api": "OffsetCommit", "group": g, "generation": gen, "member": m,
                "topics": topics_of(c, lambda c: (c.int32(), c.int64(), c.int64(), c.nullable_string()))}
    if (key, version) == (9, 1):
        g = c.string()
        return {"api": "OffsetFetch", "group": g, "topics": topics_of(c, lambda c: c.int32())}
    if (key, version) == (10, 0):
        return {"api": "FindCoordinator", "group": c.string()}
    if (key, version) == (11, 0):
        g, s, m, pt = c.string(), c.int32(), c.string(), c.string()
        return {"api": "JoinGroup", "group": g, "session_timeout": s, "member": m, "protocol_type": pt,
                "protocols": c.array(lambda c: (c.string(), c.bytes_()))}
    if (key, version) == (12, 0):
        g, gen, m = c.string(), c.int32(), c.string()
        return {"api": "Heartbeat", "group": g, "generation": gen, "member": m}
    if (key, version) == (13, 0):
        g, m = c.string(), c.string()
        return {"api": "LeaveGroup", "group": g, "member": m}
    if (key, version) == (14, 0):
        g, gen, m = c.string(), c.int32(), c.string()
        return {"api": "SyncGroup", "group": g, "generation": gen, "member": m,
                "assignments": c.array(lambda c: (c.string(), c.bytes_()))}
    if (key, version) == (18, 0):
        return {"api": "ApiVersions"}
    raise Reject("unsupported api key %d version %d" % (key, version))


def parse_request(data, dec=None):
    """-> dict(key, version, correlation, client, body) or None when the bytes are not a request of the grammar"""
    dec = dec if dec is not None else Decompressors()
    try:
        c = Cursor(data)
        key, version, corr, client = c.int16(), c.int16(), c.int32(), c.nullable_string()
        b = body(c, key, version, dec)
        c.end()
        return {"key": key, "version": version, "correlation": corr, "client": client, "body": b}
    except Reject:
        return None


def parse_subscription(data):
    try:
        c = Cursor(data)
        v, ts, ud = c.int16(), c.array(lambda c: c.string()), c.nullable_bytes()
        c.end()
        return (v, ts, ud)
    except Reject:
        return None


def parse_assignment(data):
    try:
        c = Cursor(data)
        v, ts, ud = c.int16(), topics_of(c, lambda c: c.int32()), c.nullable_bytes()
        c.end()
        return (v, ts, ud)
    except Reject:
        return None


# ---- message format versus request version (Produce v0/v1: format 0 only; v2: format 1) ----
def magics(req):
    out = []
    if req["body"]["api"] == "Produce":
        for _t, parts in req["body"]["topics"]:
            for _p, msgs in parts:
                for m in msgs:
                    out.append(m["msg"]["magic"])
                    out += [i["magic"] for i in m.get("inner", [])]
    return out


def format_matches_version(req):
    want = 1 if req["version"] == 2 else 0
    return all(mg == want for mg in magics(req))


# ---- the trace format of coq/Model/ReqRun.v ----
def lp(b):
    return [len(b)] + list(b)


def olp(b):
    return [-1] if b is None else lp(b)


def counted(f, xs):
    out = [len(xs)]
    for x in xs:
        out += f(x)
    return out


def f_pmsg(m):
    return [m["offset"], m["magic"], m["attr"]] + ([0, 0] if m["ts"] is None else [1, m["ts"]]) + olp(m["key"]) + olp(m["value"])


def f_smsg(m):
    if not m["wrapper"]:
        return [0] + f_pmsg(m["msg"])
    return [1] + f_pmsg(m["msg"]) + counted(f_pmsg, m["inner"])


def f_topics(f, ts):
    return counted(lambda t: lp(t[0]) + counted(f, t[1]), ts)


def f_body(b):
    api = b["api"]
    if api == "Produce":
        return [b["acks"], b["timeout"]] + f_topics(lambda pm: [pm[0]] + counted(f_smsg, pm[1]), b["topics"])
    if api == "Fetch":
        return [b["replica"], b["max_wait"], b["min_bytes"]] + f_topics(lambda x: list(x), b["topics"])
    if api == "ListOffsets":
        return [b["replica"]] + f_topics(lambda x: list(x), b["topics"])
    if api == "Metadata":
        return counted(lp, b["topics"])
    if api == "OffsetCommit":
        return lp(b["group"]) + [b["generation"]] + lp(b["member"]) + f_topics(lambda x: [x[0], x[1], x[2]] + olp(x[3]), b["topics"])
    if api == "OffsetFetch":
        return lp(b["group"]) + f_topics(lambda p: [p], b["topics"])
    if api == "FindCoordinator":
        return lp(b["group"])
    if api == "JoinGroup":
        return lp(b["group"]) + [b["session_timeout"]] + lp(b["member"]) + lp(b["protocol_type"]) \
            + counted(lambda np: lp(np[0]) + lp(np[1]), b["protocols"])
    if api == "Heartbeat":
        return lp(b["group"]) + [b["generation"]] + lp(b["member"])
    if api == "LeaveGroup":
        return lp(b["group"]) + lp(b["member"])
    if api == "SyncGroup":
        return lp(b["group"]) + [b["generation"]] + lp(b["member"]) + counted(lambda np: lp(np[0]) + lp(np[1]), b["assignments"])
    if api == "ApiVersions":
        return []
    raise ValueError(api)


def flatten(req):
    if req is None:
        return [0]
    return [1, 1 if format_matches_version(req) else 0, req["key"], req["version"], req["correlation"]] \
        + olp(req["client"]) + f_body(req["body"])


def flatten_subscription(x):
    if x is None:
        return [0]
    v, ts, ud = x
    return [1, v] + counted(lp, ts) + olp(ud)


def flatten_assignment(x):
    if x is None:
        return [0]
    v, ts, ud = x
    return [1, v] + f_topics(lambda p: [p], ts) + olp(ud)
