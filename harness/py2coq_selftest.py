# Self-test of the translator harness/py2coq.py and of the generic proof Proofs/MurmurGenTac.v (NOT part of a
# check; run by hand:  /venv/bin/python harness/py2coq_selftest.py [name ...]).
# For every variant of pure_murmur2 below:
#   1. translate it; compare with the expectation refused / translated;
#   2. DIFFERENTIAL TEST OF THE TRANSLATOR: evaluate the generated Gallina on sample keys inside Coq (vm_compute)
#      and compare with what CPython computes by executing the variant's source - validates the translator's
#      reading of Python (the one trusted step of tie (A));
#   3. run the scratch proof (murmur_tie.compile_scratch) and compare with the expectation proved / not proved.
#      A variant that computes something else than murmur2 must never be "proved".
import os
import random
import re
import sys

sys.path.insert(0, os.path.dirname(os.path.abspath(__file__)))
import vlib          # noqa: E402
import py2coq        # noqa: E402
import murmur_tie    # noqa: E402

ORIG = open("/repo/afkak/partitioner.py").read()
START = ORIG.index("def pure_murmur2(")
END = ORIG.index("class Partitioner(object):")


def module_with(fn_text, prelude=""):
    return ORIG[:START] + prelude + "\n\n" + fn_text + "\n\n" + ORIG[END:]


V = {}   # name -> (source of the whole module, expectation)  expectation in {"proved", "translated", "refused"}

V["orig"] = (ORIG, "proved")

V["or_assembly_fused"] = (module_with('''
def pure_murmur2(byte_array, seed=0x9747B28C):
    if not isinstance(byte_array, bytearray):
        raise TypeError("bytearray please")
    n = len(byte_array)
    M = 0x5BD1E995
    MASK = 2 ** 32 - 1
    h = seed ^ n
    for i in range(n // 4):
        k = byte_array[4 * i] & 0xFF | (byte_array[4 * i + 1] & 0xFF) << 8 | (byte_array[4 * i + 2] & 0xFF) << 16 | (byte_array[4 * i + 3] & 0xFF) << 24
        k = (k * M) & MASK
        k = ((k ^ (k >> 24)) * M) & MASK
        h = ((h * M) ^ k) & MASK
    rem = n % 4
    base = n - rem
    if rem == 3:
        h ^= (byte_array[base + 2] & 0xFF) << 16
    if rem >= 2:
        h ^= (byte_array[base + 1] & 0xFF) << 8
    if rem >= 1:
        h ^= byte_array[base] & 0xFF
        h = (h * M) & MASK
    h &= MASK
    h = ((h ^ (h >> 13)) * M) & MASK
    return h ^ (h >> 15)
'''), "proved")    # `|` for `+` in the word assembly: disjoint-bits lemma lor_is_add

V["fused_plus"] = (module_with('''
def pure_murmur2(byte_array, seed=0x9747B28C):
    if not isinstance(byte_array, bytearray):
        raise TypeError("bytearray please")
    n = len(byte_array)
    M = 0x5BD1E995
    MASK = 2 ** 32 - 1
    h = seed ^ n
    for i in range(n // 4):
        k = (byte_array[4 * i] & 0xFF) + ((byte_array[4 * i + 1] & 0xFF) << 8) + ((byte_array[4 * i + 2] & 0xFF) << 16) + ((byte_array[4 * i + 3] & 0xFF) << 24)
        k = (k * M) & MASK
        k = ((k ^ (k >> 24)) * M) & MASK
        h = ((h * M) ^ k) & MASK
    rem = n % 4
    base = n - rem
    if rem == 3:
        h ^= (byte_array[base + 2] & 0xFF) << 16
    if rem >= 2:
        h ^= (byte_array[base + 1] & 0xFF) << 8
    if rem >= 1:
        h ^= byte_array[base] & 0xFF
        h = (h * M) & MASK
    h &= MASK
    h = ((h ^ (h >> 13)) * M) & MASK
    return h ^ (h >> 15)
'''), "proved")

V["elif_chain_early_return"] = (module_with('''
def _fmix(h):
    h ^= (h % _TWO32) >> 13
    h = (h * _M) % _TWO32
    return (h ^ (h >> 15)) % _TWO32


def pure_murmur2(byte_array, seed=0x9747B28C):
    if type(byte_array) is not bytearray:
        raise TypeError("bytearray please")
    length = len(byte_array)
    h = seed ^ length
    if length == 0:
        return _fmix(h)
    nblocks, extra = divmod(length, 4)
    for i4 in range(0, length - extra, 4):
        k = (byte_array[i4] & 255) + ((byte_array[i4 + 1] & 255) << 8) + ((byte_array[i4 + 2] & 255) << 16) + ((byte_array[i4 + 3] & 255) << 24)
        k = k * _M % _TWO32
        k ^= k >> 24
        k = k * _M % _TWO32
        h = (h * _M % _TWO32) ^ k
    tail = 4 * nblocks
    if extra == 3:
        h ^= (byte_array[tail + 2] & 255) << 16
        h ^= (byte_array[tail + 1] & 255) << 8
        h ^= byte_array[tail] & 255
        h = h * _M % _TWO32
    elif extra == 2:
        h ^= (byte_array[tail + 1] & 255) << 8
        h ^= byte_array[tail] & 255
        h = h * _M % _TWO32
    elif extra == 1:
        h ^= byte_array[tail] & 255
        h = h * _M % _TWO32
    else:
        pass
    return _fmix(h)
''', prelude="_M = 0x5BD1E995\n_TWO32 = 1 << 32\n"), "proved")

V["array_helper_negative_index"] = (module_with('''
def _word(data, at):
    return (data[at] & 0xFF) + ((data[at + 1] & 0xFF) << 8) + ((data[at + 2] & 0xFF) << 16) + ((data[at + 3] & 0xFF) << 24)


def _check(b):
    """type guard only"""
    if not isinstance(b, (bytearray,)):
        raise TypeError("bytearray please")


def pure_murmur2(byte_array, seed=0x9747B28C):
    _check(byte_array)
    data = byte_array
    length = len(data)
    m = 0x5BD1E995
    mask = 0xFFFFFFFF
    h = seed ^ length
    for i in range(length // 4):
        k = _word(data, i * 4)
        k = (k * m) & mask
        k ^= k >> 24
        k = (k * m) & mask
        h = (h * m) & mask
        h = (h ^ k) & mask
    extra = length % 4
    if extra == 3:
        h ^= (data[-1] & 0xFF) << 16
        h ^= (data[-2] & 0xFF) << 8
        h ^= data[-3] & 0xFF
    if extra == 2:
        h ^= (data[-1] & 0xFF) << 8
        h ^= data[-2] & 0xFF
    if extra == 1:
        h ^= data[-1] & 0xFF
    if extra:
        h = (h & mask) * m & mask
    h ^= (h & mask) >> 13
    h &= mask
    h *= m
    h &= mask
    h ^= (h & mask) >> 15
    h &= mask
    return h
'''), "proved")   # negative indexes: py_index / py_index_app_neg

V["coercion_helper"] = (module_with(ORIG[START:END].replace(
    """    if not isinstance(byte_array, bytearray):
        raise TypeError("Type: %r of 'byte_array' arg must be 'bytearray'", type(byte_array))
""", """    byte_array = _as_bytearray(byte_array)
"""), prelude='''
def _as_bytearray(key):
    """Coerce a key into the bytearray the hash works on"""
    if isinstance(key, str):
        return bytearray(key, "UTF-8")
    if isinstance(key, bytes):
        return bytearray(key)
    if isinstance(key, bytearray):
        return key
    raise TypeError("Partition key {!r} must be str, bytes, or bytearray, not {}".format(key, type(key)))
'''), "proved")

V["carried_k"] = (module_with('''
def pure_murmur2(byte_array, seed=0x9747B28C):
    if not isinstance(byte_array, bytearray):
        raise TypeError("bytearray please")
    length = len(byte_array)
    m = 0x5BD1E995
    mask = 0xFFFFFFFF
    h = seed ^ length
    k = 0
    for i in range(length // 4):
        i4 = i * 4
        k = (byte_array[i4] & 0xFF) + ((byte_array[i4 + 1] & 0xFF) << 8) + ((byte_array[i4 + 2] & 0xFF) << 16) + ((byte_array[i4 + 3] & 0xFF) << 24)
        k = (k * m) & mask
        k ^= k >> 24
        k = (k * m) & mask
        h = (((h * m) & mask) ^ k) & mask
    extra_bytes = length % 4
    if extra_bytes == 3:
        h ^= (byte_array[(length & ~3) + 2] & 0xFF) << 16
        h &= mask
    if extra_bytes >= 2:
        h ^= (byte_array[(length & ~3) + 1] & 0xFF) << 8
        h &= mask
    if extra_bytes >= 1:
        h ^= byte_array[length & ~3] & 0xFF
        h = (h * m) & mask
    h ^= (h % 0x100000000) >> 13
    h = (h * m) & mask
    h ^= (h % 0x100000000) >> 15
    h &= mask
    return h
'''), "translated")   # the loop carries (h, k): fold over pairs, outside the generic proof

V["while_loop"] = (module_with('''
def pure_murmur2(byte_array, seed=0x9747B28C):
    h = seed ^ len(byte_array)
    i = 0
    while i < len(byte_array):
        h = (h * 31 + byte_array[i]) & 0xFFFFFFFF
        i += 1
    return h
'''), "refused")

V["struct_tail"] = (module_with('''
import struct
def pure_murmur2(byte_array, seed=0x9747B28C):
    h = seed ^ len(byte_array)
    (k,) = struct.unpack_from("<I", byte_array, 0)
    return h ^ k
'''), "refused")

V["variable_shift"] = (module_with('''
def pure_murmur2(byte_array, seed=0x9747B28C):
    h = seed ^ len(byte_array)
    for i in range(len(byte_array)):
        h = (h << (byte_array[i] & 3)) & 0xFFFFFFFF
    return h
'''), "refused")

V["true_division"] = (module_with('''
def pure_murmur2(byte_array, seed=0x9747B28C):
    return int(len(byte_array) / 4) ^ seed
'''), "refused")

V["rebound_constant"] = (module_with('''
def pure_murmur2(byte_array, seed=0x9747B28C):
    return (len(byte_array) * _K) ^ seed
''', prelude="_K = 3\n_K = 5\n"), "refused")

# mutants of the hash: must translate, must agree with CPython (step 2), must NOT be proved
V["mutant_signed_tail"] = (ORIG.replace("h ^= (byte_array[(length & ~3) + 1] & 0xFF) << 8", "h ^= ((byte_array[(length & ~3) + 1] ^ 0x80) - 0x80) << 8"), "translated")
V["mutant_r"] = (ORIG.replace("r = 24", "r = 23"), "translated")
V["mutant_seed"] = (ORIG.replace("def pure_murmur2(byte_array, seed=0x9747B28C)", "def pure_murmur2(byte_array, seed=0x9747B28D)"), "translated")
# harmless: h is already masked, so h ^ (h >> 15) needs no modulo and no final mask
V["harmless_no_final_mask"] = (ORIG.replace("    h ^= (h % 0x100000000) >> 15  # h >>> 15;\n    h &= mod32bits\n", "    h ^= h >> 15\n"), "proved")
# harmless for bytearrays (elements are 0..255): the Java-style & 0xFF dropped
V["harmless_no_byte_masks"] = (ORIG.replace(" & 0xFF)", ")").replace("h ^= byte_array[length & ~3] & 0xFF", "h ^= byte_array[length & ~3]"), "proved")
V["mutant_unmasked_h_shift"] = (ORIG.replace("h ^= (h % 0x100000000) >> 13", "h ^= h >> 13"), "translated")   # differs only for len >= 2**32: never proved, never sampled

V["mutant_loop_bound"] = (ORIG.replace("for i in range(length4):", "for i in range(length4 - (length4 >> 4)):"), "translated")
V["mutant_tail_ge"] = (ORIG.replace("if extra_bytes >= 2:", "if extra_bytes > 2:"), "translated")


def sample_keys(rnd):
    keys = [[], [0], [255], [1, 2], [0x80, 0xFF], [1, 2, 3], [1, 2, 3, 4], list(range(250, 256)) + [0, 1, 2]]
    for n in range(0, 24):
        keys.append([rnd.randint(0, 255) for _ in range(n)])
        keys.append([rnd.choice([0x80, 0xFF, 0x7F]) for _ in range(n)])
    keys.append([rnd.randint(0, 255) for _ in range(70)])
    return keys


def python_values(src, keys):
    ns = {}
    exec(compile(src.replace("from murmurhash2 import murmurhash2", "raise ImportError"), "<variant>", "exec"), ns)
    out = []
    for k in keys:
        try:
            out.append(ns["pure_murmur2"](bytearray(k)))
        except IndexError:
            out.append("IndexError")
    return out


def coq_values(text, keys, tag):
    d = os.path.join(murmur_tie.GEN, "selftest_" + tag)
    os.makedirs(d, exist_ok=True)
    rel = os.path.relpath(d, vlib.COQ)
    open(os.path.join(d, "MurmurGenRun.v"), "w").write(text)
    zl = lambda l: "[" + ";".join(str(x) for x in l) + "]"
    ev = ("From AVRun Require Import MurmurGenRun.\nFrom Coq Require Import ZArith List.\nImport ListNotations.\nOpen Scope Z_scope.\n"
          "Eval vm_compute in (map (fun k => gen_pure_murmur2 k gen_seed) [%s]).\n" % ";\n".join(zl(k) for k in keys))
    open(os.path.join(d, "Ev.v"), "w").write(ev)
    flags = "-Q . AV -Q %s AVRun" % rel
    rc, out = vlib.sh("timeout 120 coqc %s %s/MurmurGenRun.v && timeout 300 coqc %s %s/Ev.v" % (flags, rel, flags, rel), 450, cwd=vlib.COQ)
    if rc:
        return None, out[-1500:]
    m = re.search(r"=\s*\[(.*?)\]\s*:\s*list Z", out, re.S)
    return [int(x) for x in m.group(1).replace("\n", " ").split(";")], ""


def main(names):
    ok, log = murmur_tie.make_base()
    if not ok:
        print("base build failed", log)
        return 1
    rnd = random.Random(1)
    keys = sample_keys(rnd)
    bad = 0
    for name in (names or sorted(V)):
        src, expect = V[name]
        try:
            text, msg = py2coq.translate_source(src)
            got = "translated"
        except (py2coq.Untranslatable, SyntaxError) as e:
            text, msg, got = None, str(e), "refused"
        line = "%-28s expect=%-10s " % (name, expect)
        if got == "refused":
            flag = "ok" if expect == "refused" else "UNEXPECTED"
            bad += flag != "ok"
            print(line + "refused (%s) %s" % (msg[:70], flag))
            continue
        if expect == "refused":
            bad += 1
            print(line + "TRANSLATED although a refusal was expected")
            continue
        pv = python_values(src, keys)
        cv, err = coq_values(text, keys, name)
        if cv is None:
            bad += 1
            print(line + "generated text does not compile: " + err[-300:])
            continue
        diff = [(k, a, b) for k, a, b in zip(keys, pv, cv) if a != "IndexError" and a != b]
        if diff:
            bad += 1
            print(line + "TRANSLATOR DISAGREES WITH CPYTHON on %d keys, e.g. %r" % (len(diff), diff[0]))
            continue
        r = murmur_tie.compile_scratch(text)
        got = "proved" if r["ok"] else "translated"
        flag = "ok" if got == expect else ("UNSOUND?" if got == "proved" else "weaker than expected")
        bad += flag != "ok"
        print(line + "%s; gallina = cpython on %d keys; %s %s" % (msg[:40], len(keys), got, flag)
              + ("" if r["ok"] else "  [" + r["log"].strip().splitlines()[-1][:90] + "]"))
    return 1 if bad else 0


if __name__ == "__main__":
    sys.exit(main(sys.argv[1:]))
