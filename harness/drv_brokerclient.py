"""Driver for the real afkak.brokerclient._KafkaBrokerClient (model M7, coq/Model/BrokerClient.v).

Shared by harness/props/C06.py and C10.py (and usable by C11 / C20): event alphabet and its case-line encoding,
the implementation driver (`Impl`), an on-line state-aware event generator (`generate`), exhaustive small-scope
enumeration (`enumerate_sequences`) and the monitors that restate the C06 / C10 theorems over the implementation's
own trace.

Events (python tuples)  <->  case-line integers  <->  Model.BrokerClient.event
    ("make", rid, expect)      1 rid expect         EMake
    ("cancel", h)              2 h                  ECancel
    ("ok",)                    3                    EConnOk
    ("fail",)                  4                    EConnFail
    ("lost",)                  5                    ELost
    ("data", bytes)            6 <lp bytes>         EData
    ("frame", bytes)           7 <lp bytes>         EFrame
    ("fire",)                  8                    EFire
    ("close",)                 9                    EClose
    ("disc",)                  10                   EDisconnect
    ("update", same, addr)     11 same addr         EUpdate
Outputs (python tuples)  <->  trace integers  <->  Model.BrokerClient.output
    ("connect", addr) 1 addr | ("write", h, rid) 2 h rid | ("sched", k) 3 k | ("cancel_timer",) 4 |
    ("cancel_attempt",) 5 | ("lose",) 6 | ("def", h, code, frame) 7 h code [<lp frame> if code == 1] |
    ("closefired",) 8 | ("raised", kind) 9 kind | ("abort",) 12 (never produced by the model)
    def codes: 1 success(frame bytes) 2 success(None) 3 CancelledError 4 ClientError 99 anything else
Per event the trace is  0, int(client.connected()), outputs...
"""
import struct

import simnet
from vlib import lp

MAXLEN = 2 ** 31 - 1


# ------------------------------------------------------------------ encodings
def enc_event(ev):
    k = ev[0]
    if k == "make":
        return [1, ev[1], 1 if ev[2] else 0]
    if k == "cancel":
        return [2, ev[1]]
    if k == "ok":
        return [3]
    if k == "fail":
        return [4]
    if k == "lost":
        return [5]
    if k == "data":
        return [6] + lp(ev[1])
    if k == "frame":
        return [7] + lp(ev[1])
    if k == "fire":
        return [8]
    if k == "close":
        return [9]
    if k == "disc":
        return [10]
    if k == "update":
        return [11, 1 if ev[1] else 0, ev[2]]
    raise ValueError(ev)


def enc_case(events):
    out = []
    for e in events:
        out += enc_event(e)
    return out


def enc_out(o):
    k = o[0]
    if k == "connect":
        return [1, o[1]]
    if k == "write":
        return [2, o[1], o[2]]
    if k == "sched":
        return [3, o[1]]
    if k == "cancel_timer":
        return [4]
    if k == "cancel_attempt":
        return [5]
    if k == "lose":
        return [6]
    if k == "def":
        return [7, o[1], o[2]] + (lp(o[3]) if o[2] == 1 else [])
    if k == "closefired":
        return [8]
    if k == "raised":
        return [9, o[1]]
    if k == "abort":
        return [12]
    raise ValueError(o)


def enc_trace(records):
    out = []
    for (_ev, connected, outs, _en) in records:
        out += [0, connected]
        for o in outs:
            out += enc_out(o)
    return out


def rid_bytes(rid):
    return struct.pack(">i", ((rid + 2 ** 31) % 2 ** 32) - 2 ** 31)


def reply(rid, payload=b""):
    """body of a response frame carrying correlation id rid"""
    return rid_bytes(rid) + bytes(payload)


# ------------------------------------------------------------------ retry policies
class Policy(object):
    """retryPolicy(failures) -> float.  Records the argument of every call."""

    def __init__(self, kind, rnd):
        kind = kind[:-3] if kind.endswith("+cc") else kind      # "+cc" selects the network flavour, see CcNet
        self.kind = kind
        self.calls = []
        if kind == "twisted":
            from twisted.application.internet import backoffPolicy
            self.fn = backoffPolicy(jitter=lambda: 0.0)
        elif kind == "twisted_fast":
            from twisted.application.internet import backoffPolicy
            self.fn = backoffPolicy(initialDelay=0.1, maxDelay=15.0, factor=1.20205, jitter=lambda: 0.0)
        elif kind == "table":
            tab = [rnd.uniform(0.0, 30.0) for _ in range(64)]
            self.fn = lambda k: tab[k % 64]
        elif kind.startswith("table:"):      # reproducible non-monotone table: "table:<seed>"
            import random as _random
            r2 = _random.Random(int(kind[6:]))
            tab2 = [r2.uniform(0.0, 30.0) for _ in range(64)]
            self.fn = lambda k: tab2[k % 64]
        else:
            self.fn = lambda k: 1.0

    def __call__(self, k):
        self.calls.append(k)
        return self.fn(k)


# ------------------------------------------------------------------ network flavour
class CcAttempt(simnet.Attempt):
    """A connection attempt that reports cancellation the way Twisted's stock endpoints do (TCP4ClientEndpoint,
    HostnameEndpoint, TLS wrappers): the canceller itself fails the Deferred with error.ConnectingCancelledError, which
    is NOT a defer.CancelledError.  simnet.Attempt leaves it to Deferred.cancel() (plain CancelledError).  The model
    does not distinguish the two: the code must not care.  Selected per case by a policy kind ending in "+cc"."""

    def _cancelled(self, d):
        from twisted.internet.error import ConnectingCancelledError
        simnet.Attempt._cancelled(self, d)
        d.errback(ConnectingCancelledError(simnet.SimAddress(self.host, self.port)))


class CcEndpoint(simnet.PuppetEndpoint):
    def connect(self, factory):
        net = self.net
        net._attempts += 1
        a = CcAttempt(net, net._attempts, self.host, self.port, factory)
        net.attempts.append(a)
        net.log.append(("connect", a.attempt_id, self.host, self.port))
        mode, net.sync = net.sync, None
        if mode == "ok":
            a.accept()
        elif mode == "fail":
            a.fail()
        return a.d


class CcNet(simnet.SimNet):
    def __call__(self, reactor, host, port):
        self.calls.append((host, port))
        return CcEndpoint(self, host, port)


# ------------------------------------------------------------------ the implementation under test
class Impl(object):
    def __init__(self, policy_kind="const", rnd=None):
        from afkak.brokerclient import _KafkaBrokerClient
        from afkak.common import BrokerMetadata
        self.BrokerMetadata = BrokerMetadata
        self.log = []
        self.clock = simnet.SimClock(self.log)
        self.net = CcNet(self.log) if policy_kind.endswith("+cc") else simnet.SimNet(self.log)
        self.policy = Policy(policy_kind, rnd)
        self.client = _KafkaBrokerClient(self.clock, self.net, BrokerMetadata(1, "h0", 9092), "verif", self.policy)
        self.handles = []         # Deferreds returned by makeRequest, index = handle
        self.rids = []            # rid per handle
        self.records = []         # (event, connected, outs, enabled)
        self.closed = False

    # ---- environment facts (from the simulated world, never from the client's private attributes)
    def attempt(self):
        p = self.net.pending()
        return p[-1] if p else None

    def transport(self):
        lv = self.net.live()
        return lv[-1] if lv else None

    def timer(self):
        p = self.clock.pending()
        return p[0] if p else None

    def enabled(self, ev):
        k = ev[0]
        if k in ("ok", "fail"):
            return self.attempt() is not None
        if k in ("lost", "data", "frame"):
            return self.transport() is not None
        if k == "fire":
            return self.timer() is not None
        if k == "cancel":
            return 0 <= ev[1] < len(self.handles)
        return True

    @staticmethod
    def payload(h, rid):
        return b"RQ" + struct.pack(">I", h) + struct.pack(">q", rid)

    def _watch(self, d, h):
        from afkak.common import ClientError
        from twisted.internet.defer import CancelledError

        def cb(result):
            if result is None:
                self.log.append(("def", h, 2, None))
            elif isinstance(result, bytes):
                self.log.append(("def", h, 1, result))
            else:
                self.log.append(("def", h, 99, None))

        def eb(f):
            if f.check(CancelledError):
                self.log.append(("def", h, 3, None))
            elif f.check(ClientError):
                self.log.append(("def", h, 4, None))
            else:
                self.log.append(("def", h, 99, None))
        d.addCallbacks(cb, eb)

    def apply(self, ev):
        """apply one event to the real client; returns the structured outputs of this event"""
        from afkak.common import DuplicateRequestError
        k = ev[0]
        en = self.enabled(ev)
        del self.log[:]
        log = self.log
        try:
            self._dispatch(ev, k, en, log)
        except Exception as e:      # anything the model does not know (AlreadyCalledError, KeyError in a callback, ..):
            self.last_exc = repr(e)  # recorded as an output so that monitors can report the history that provoked it
            log.append(("raised", 99))
        outs = self._canon(list(log))
        rec = (ev, int(bool(self.client.connected())), outs, en)
        self.records.append(rec)
        return rec

    def _dispatch(self, ev, k, en, log):
        from afkak.common import DuplicateRequestError
        if not en:
            # no attempt / transport / Deferred to act on: nothing can be done to the implementation, except for time:
            # a "late" timer event is time passing with no timer armed, which must produce nothing
            if k == "fire":
                self.clock.advance(3600.0)
        elif k == "make":
            h = len(self.handles)
            try:
                d = self.client.makeRequest(ev[1], self.payload(h, ev[1]), ev[2])
            except DuplicateRequestError:
                log.append(("raised", 1))
            else:
                self.handles.append(d)
                self.rids.append(ev[1])
                self._watch(d, h)
        elif k == "cancel":
            try:
                self.handles[ev[1]].cancel()
            except KeyError:
                log.append(("raised", 5))
        elif k == "ok":
            self.attempt().accept()
        elif k == "fail":
            self.attempt().fail()
        elif k == "lost":
            self.transport().report_lost()
        elif k in ("data", "frame"):
            from afkak.common import BufferUnderflowError
            data = bytes(ev[1]) if k == "data" else simnet.frame(bytes(ev[1]))
            try:
                self.transport().deliver(data)
            except BufferUnderflowError:
                log.append(("raised", 4))
        elif k == "fire":
            self.clock.fire_next()
        elif k == "close":
            i0 = len(log)
            try:
                d = self.client.close()
            except AssertionError:
                log.append(("raised", 2))
            else:
                self.closed = True
                # The property says close() fails ALL pending requests, not in which order: the ClientError firings of
                # one close() call are put into the model's order (newest request first) before anything is compared.
                self._sort_close(log, i0)
                d.addCallback(lambda _: self.log.append(("closefired",)))
        elif k == "disc":
            self.client.disconnect()
        elif k == "update":
            try:
                self.client.updateMetadata(self.BrokerMetadata(1 if ev[1] else 2, "h%d" % ev[2], 9092 + ev[2]))
            except ValueError:
                log.append(("raised", 3))

    def _sort_close(self, log, i0):
        pos = [i for i in range(i0, len(log)) if log[i][0] == "def" and log[i][2] == 4]
        for i, e in zip(pos, sorted((log[i] for i in pos), key=lambda e: -e[1])):
            log[i] = e

    def _canon(self, log):
        outs = []
        npol = 0
        for e in log:
            k = e[0]
            if k == "connect":
                host, port = e[2], e[3]
                addr = int(host[1:]) if host[:1] == "h" and host[1:].isdigit() and port == 9092 + int(host[1:]) else -1
                outs.append(("connect", addr))
            elif k == "write":
                data = e[2]
                h, rid = -1, -1
                if len(data) == 4 + 14 and struct.unpack(">I", data[:4])[0] == 14 and data[4:6] == b"RQ":
                    h = struct.unpack(">I", data[6:10])[0]
                    rid = struct.unpack(">q", data[10:18])[0]
                    if not (h < len(self.rids) + 1):
                        h = -1
                outs.append(("write", h, rid))
            elif k == "sched":
                # the float handed to callLater must be, bit for bit, what the policy returned for the count it was given
                calls = self.policy.calls
                kk = -1
                if calls:
                    want = self.policy.fn(calls[-1])
                    if isinstance(e[2], float) and isinstance(want, float) and e[2].hex() == want.hex():
                        kk = calls[-1]
                    elif e[2] == want and type(e[2]) is type(want):
                        kk = calls[-1]
                outs.append(("sched", kk))
            elif k == "cancel_timer":
                outs.append(("cancel_timer",))
            elif k == "cancel_attempt":
                outs.append(("cancel_attempt",))
            elif k == "lose":
                outs.append(("lose",))
            elif k == "abort":
                outs.append(("abort",))
            elif k == "def":
                outs.append(e)
            elif k == "closefired":
                outs.append(e)
            elif k == "raised":
                outs.append(e)
        # the close Deferred's firing is observable only once close() has returned it: canonical position = last
        cf = [o for o in outs if o[0] == "closefired"]
        return [o for o in outs if o[0] != "closefired"] + cf


def run_impl(events, policy_kind="const", rnd=None):
    im = Impl(policy_kind, rnd)
    for ev in events:
        im.apply(ev)
    return im.records


# ------------------------------------------------------------------ on-line state-aware generator
PROFILES = {
    # weights: make cancel reply data connect-ok connect-fail lost fire close disc update late
    "c06": dict(make=22, cancel=8, reply=22, data=26, ok=10, fail=2, lost=3, fire=6, close=0.7, disc=1.5, update=1, late=10),
    "c10": dict(make=20, cancel=8, reply=10, data=10, ok=8, fail=9, lost=10, fire=12, close=0.8, disc=3, update=2, late=10),
}


class Gen(object):
    """Generates an event sequence while driving the implementation, looking only at the environment
    (pending attempt / armed timer / live transport / which handles fired) to choose mostly enabled events."""

    def __init__(self, rnd, profile="c06", length=40, policy_kind="const", end_close=False):
        self.rnd, self.w, self.length = rnd, PROFILES[profile], length
        self.im = Impl(policy_kind, rnd)
        self.wire = b""           # bytes the broker has "sent" on the current connection, not yet delivered
        self.fired = {}           # handle -> code
        self.written = []         # rids written on the current connection, in order (candidates for replies)
        self.answered = []        # rids already answered (for duplicate replies)
        self.next_rid = rnd.choice([1, 1, 1, 100, 2 ** 31 - 3, -3])
        self.end_close = end_close
        self.hist = {}

    def h(self, key):
        self.hist[key] = self.hist.get(key, 0) + 1

    def fresh_rid(self):
        r = self.next_rid
        self.next_rid += 1
        if self.next_rid > 2 ** 31 - 1:
            self.next_rid = -2 ** 31
        return r

    def pending_handles(self):
        return [h for h in range(len(self.im.handles)) if h not in self.fired]

    def choose(self):
        rnd, im, w = self.rnd, self.im, self.w
        opts = []
        att, tr, tm = im.attempt(), im.transport(), im.timer()
        pend = self.pending_handles()
        opts.append(("make", w["make"] * (0.4 if len(pend) > 6 else 1.0)))
        if pend:
            opts.append(("cancel", w["cancel"]))
        if att:
            opts.append(("ok", w["ok"] * 3))
            opts.append(("fail", w["fail"] * 3))
        if tm:
            opts.append(("fire", w["fire"] * 2))
        if tr:
            opts.append(("lost", w["lost"]))
            opts.append(("reply", w["reply"]))
            if self.wire:
                opts.append(("data", w["data"] * 1.5))
            opts.append(("disc", w["disc"]))
        opts.append(("close", w["close"] * (3 if im.closed else 1)))
        opts.append(("update", w["update"]))
        opts.append(("late", w["late"] * sum(x[1] for x in opts) / 100.0))
        tot = sum(x[1] for x in opts)
        x = rnd.uniform(0, tot)
        for name, wt in opts:
            x -= wt
            if x <= 0:
                return name
        return opts[-1][0]

    def rand_payload(self):
        rnd = self.rnd
        n = rnd.choice([0, 0, 1, 2, 3, 4, 5, 8, 12, 30])
        return bytes(rnd.randint(0, 255) for _ in range(n))

    def step(self):
        """returns the next event (or None when only the wire changed)"""
        rnd, im = self.rnd, self.im
        c = self.choose()
        if c == "make":
            pend = self.pending_handles()
            r = rnd.random()
            if r < 0.08 and pend:
                rid = im.rids[rnd.choice(pend)]            # duplicate of an in-flight id
                self.h("make_duplicate_id")
            elif r < 0.14 and self.answered:
                rid = rnd.choice(self.answered)             # reuse of a completed id
                self.h("make_reused_id")
            elif r < 0.2 and self.fired:
                rid = im.rids[rnd.choice(list(self.fired))]  # reuse of the id of a fired (maybe tombstoned) request
                self.h("make_reused_id")
            else:
                rid = self.fresh_rid()
            expect = rnd.random() >= 0.15
            if not expect:
                self.h("make_no_reply")
            return ("make", rid, expect)
        if c == "cancel":
            return ("cancel", rnd.choice(self.pending_handles()))
        if c in ("ok", "fail", "lost", "fire", "close", "disc"):
            return (c,)
        if c == "update":
            return ("update", rnd.random() < 0.85, rnd.randint(0, 3))
        if c == "reply":
            # the broker puts a response on the wire (not an event by itself)
            r = rnd.random()
            unans = [x for x in self.written if x not in self.answered]
            if r < 0.70 and unans:
                rid = unans[0] if rnd.random() < 0.6 else rnd.choice(unans)   # Kafka answers in order; not always here
                self.h("reply_to_written")
            elif r < 0.78 and self.answered:
                rid = rnd.choice(self.answered)
                self.h("reply_duplicate")
            elif r < 0.86:
                rid = rnd.choice([0, -1, 77777, 2 ** 31 - 1, -2 ** 31, self.next_rid + 5])
                self.h("reply_unknown_id")
            elif r < 0.90 and im.rids:
                rid = rnd.choice(im.rids)                   # any id ever used (cancelled, closed, unsent ..)
                self.h("reply_any_known_id")
            elif r < 0.93:
                body = bytes(rnd.randint(0, 255) for _ in range(rnd.randint(0, 3)))   # frame shorter than an id
                self.h("reply_short_frame")
                self.wire += simnet.frame(body)
                return None
            elif r < 0.96:
                ln = rnd.choice([2 ** 31, 2 ** 31 + 5, 2 ** 32 - 1, MAXLEN])      # MAXLEN itself is legal: just waits
                self.h("reply_length_%s" % ("over_limit" if ln > MAXLEN else "at_limit"))
                self.wire += struct.pack(">I", ln) + self.rand_payload()
                return None
            elif unans:
                rid = unans[0]
            else:
                rid = 424242
            self.answered.append(rid)
            self.wire += simnet.frame(reply(rid, self.rand_payload()))
            if rnd.random() < 0.5:
                return None
            c = "data"
        if c == "data":
            if not self.wire:
                return None
            r = rnd.random()
            if r < 0.35:
                n = len(self.wire)
            elif r < 0.6:
                n = rnd.randint(1, min(len(self.wire), 7))     # split inside prefix / id
            else:
                n = rnd.randint(0, len(self.wire))
            chunk, self.wire = self.wire[:n], self.wire[n:]
            self.h("data_chunk")
            return ("data", chunk)
        if c == "late":
            r = rnd.random()
            self.h("late_or_disabled_event")
            if r < 0.15:
                return ("ok",)
            if r < 0.3:
                return ("fail",)
            if r < 0.45:
                return ("fire",)
            if r < 0.6:
                return ("lost",)
            if r < 0.75:
                return ("frame", reply(rnd.choice(im.rids) if im.rids and rnd.random() < 0.7 else 5, b"late"))
            if r < 0.9 and im.handles:
                fired = list(self.fired)
                return ("cancel", rnd.choice(fired) if fired and rnd.random() < 0.8 else len(im.handles) + rnd.randint(0, 2))
            return ("data", bytes(rnd.randint(0, 255) for _ in range(rnd.randint(0, 6))))
        return None

    def run(self):
        events = []
        guard = 0
        while len(events) < self.length and guard < self.length * 20:
            guard += 1
            ev = self.step()
            if ev is None:
                continue
            if len(events) == self.length - 1 and self.end_close:
                ev = ("close",)
            rec = self.im.apply(ev)
            events.append(ev)
            self._observe(rec)
        return events, self.im.records

    def _observe(self, rec):
        ev, _c, outs, en = rec
        for o in outs:
            if o[0] == "def":
                self.fired[o[1]] = o[2]
            elif o[0] == "write":
                self.written.append(o[2])
        if ev[0] in ("lost",) and en:
            self.wire = b""
            self.written = []
        if ev[0] == "ok" and en:
            self.wire = b""
            self.written = [o[2] for o in outs if o[0] == "write"]
        self.h("ev_" + ev[0] + ("" if en else "_disabled"))


# ------------------------------------------------------------------ exhaustive small scope
def small_alphabet():
    """2 request ids x {make, cancel, reply} + connect ok/fail, lose, fire, close, disconnect; one no-reply make"""
    return [("make", 1, True), ("make", 2, True), ("make", 2, False), ("cancel", 0), ("cancel", 1),
            ("frame", reply(1)), ("frame", reply(2)), ("ok",), ("fail",), ("lost",), ("fire",), ("close",), ("disc",)]


def enumerate_sequences(depth, alphabet=None, limit=None):
    """All sequences of ENABLED events up to `depth` (every prefix is run on the implementation to learn
    which events the environment can produce next).  Yields (events, records) for every sequence."""
    alphabet = alphabet or small_alphabet()
    level = [[]]
    count = 0
    for d in range(depth):
        nxt = []
        for seq in level:
            im = Impl("const")
            for ev in seq:
                im.apply(ev)
            for ev in alphabet:
                if not im.enabled(ev):
                    continue
                if ev[0] == "close" and im.closed:
                    continue          # second close(): covered by the random stream
                nxt.append(seq + [ev])
        for seq in nxt:
            recs = run_impl(seq)
            count += 1
            yield seq, recs
            if limit and count >= limit:
                return
        level = nxt


# ------------------------------------------------------------------ monitors (theorem statements over implementation traces)
def parse_stream(stream):
    """reference reassembler: complete frames in a byte stream; returns (frames, status) with status
    'more' | 'limit' | 'short' (a frame shorter than an id: the real handler raises)"""
    frames, off = [], 0
    while len(stream) - off >= 4:
        ln = struct.unpack(">I", stream[off:off + 4])[0]
        if ln > MAXLEN:
            return frames, "limit"
        if len(stream) - off - 4 < ln:
            break
        body = stream[off + 4:off + 4 + ln]
        frames.append(body)
        off += 4 + ln
        if ln < 4:
            return frames, "short"
    return frames, "more"


def monitor(records, which=("C06", "C10")):
    """Returns a list of (theorem name, message, event index).  An independent, abstract re-statement of the
    property: it keeps only what an outside observer knows (which Deferreds fired, what was written on which
    connection, what bytes the broker sent)."""
    bad = []
    rid, expect, fired = [], [], {}
    conn = 0                  # 0 = no live connection
    nconn = 0
    written = {}              # handle -> connection number it was last written on
    outstanding = []          # handles written on the current connection and not yet answered by a frame, in write order
                              # (cancelled ones included: the broker answers them all the same, in order)
    stream = b""              # bytes delivered on the current connection
    nframes = 0               # frames of `stream` already accounted for
    aborted = False           # the current connection hit the length limit / a short frame
    closed = False
    closefired = 0
    attempt = timer = False
    failures = 0
    addr = 0
    c06, c10 = "C06" in which, "C10" in which

    def B(thm, msg):
        bad.append((thm, msg, idx))

    for idx, (ev, connected, outs, en) in enumerate(records):
        k = ev[0]
        defs = [o for o in outs if o[0] == "def"]
        writes = [o for o in outs if o[0] == "write"]
        connects = [o for o in outs if o[0] == "connect"]
        scheds = [o for o in outs if o[0] == "sched"]
        pending_before = [h for h in range(len(rid)) if h not in fired]
        was_closed = closed
        # ---- generic: fire at most once, never written after fired, once per connection (scan in output order)
        for o in outs:
            if o[0] == "def":
                h = o[1]
                if h in fired:
                    B("C06_exactly_once", "Deferred %d fired twice (codes %r then %r)" % (h, fired[h], o[2]))
                if o[2] == 99:
                    B("C06_exactly_once", "Deferred %d fired with an unexpected value/failure" % h)
        if not en:
            if outs and c06:
                B("C06_no_crosstalk", "disabled event %r produced %r" % (ev, outs))
            continue
        if any(o[0] in ("raised",) and o[1] == 5 for o in outs):
            B("C06_exactly_once", "canceller raised KeyError")
        if any(o[0] == "raised" and o[1] == 99 for o in outs):
            B("C06_exactly_once" if c06 else "C10_reachable", "event %r raised an exception no legal behaviour includes (AlreadyCalledError, KeyError, ...)" % (ev,))
        if any(o[0] == "abort" for o in outs):
            B("C10_close", "abortConnection is not part of the modelled behaviour")

        # ---- expectations per event
        exp_defs = None          # exact list of (h, code, frame) expected, or None = not constrained here
        if k == "make":
            dup = ev[1] in [rid[h] for h in pending_before]
            # a tombstone (cancelled but written, unanswered, same connection) also blocks the id: allowed, not required
            if outs == [("raised", 1)]:
                if not dup and not any(rid[h] == ev[1] and fired.get(h) == 3 and written.get(h) == nconn and conn for h in range(len(rid))):
                    B("C06_exactly_once", "DuplicateRequestError for id %d that is not in flight" % ev[1])
            else:
                h = len(rid)
                rid.append(ev[1])
                expect.append(ev[2])
                if dup:
                    B("C06_exactly_once", "duplicate in-flight id %d accepted" % ev[1])
                if closed:
                    exp_defs = [(h, 4, None)]
                    if c10 and (connects or writes or scheds):
                        B("C10_close", "activity after close: %r" % outs)
                elif conn:
                    if c10 and writes != [("write", h, ev[1])]:
                        B("C10_resend", "request on a live connection not written exactly once: %r" % writes)
                    exp_defs = [] if ev[2] else [(h, 2, None)]
                else:
                    exp_defs = []
                    want = [] if (attempt or timer) else [("connect", addr)]
                    if c10 and connects != want:
                        B("C10_reconnect_iff_pending", "make while disconnected: connects %r, expected %r" % (connects, want))
                    if c10 and writes:
                        B("C10_resend", "write without a connection")
                    if want:
                        attempt, failures = True, 0
        elif k == "cancel":
            h = ev[1]
            exp_defs = [(h, 3, None)] if h not in fired else []
            if c10 and (writes or connects or scheds):
                B("C10_never_resent", "cancel produced network activity %r" % outs)
        elif k == "ok":
            attempt = False
            nconn += 1
            conn = nconn
            stream, nframes, aborted = b"", 0, False
            outstanding = []
            failures = 0
            if closed:
                pass
            else:
                want_w = [("write", h, rid[h]) for h in pending_before]
                if c10 and writes != want_w:
                    B("C10_resend", "connection %d: written %r, pending in issue order %r" % (nconn, writes, want_w))
                exp_defs = [(h, 2, None) for h in pending_before if not expect[h]]
        elif k == "fail":
            attempt = False
            if not closed:
                failures += 1
                timer = True
                if c10 and outs != [("sched", failures)]:
                    B("C10_backoff", "failure %d in a row: outputs %r, expected [sched policy(%d)] (float compared bit for bit)" % (failures, outs, failures))
            exp_defs = []
        elif k == "fire":
            timer = False
            if not closed:
                attempt = True
                if c10 and outs != [("connect", addr)]:
                    B("C10_backoff", "timer fired: outputs %r, expected a connection attempt to address %d" % (outs, addr))
            exp_defs = []
        elif k == "lost":
            conn = 0
            outstanding = []
            exp_defs = []
            if not closed:
                want = [("connect", addr)] if pending_before else []
                if c10 and connects != want:
                    B("C10_reconnect_iff_pending", "connection lost with pending %r: connects %r" % (pending_before, connects))
                if want:
                    attempt, failures = True, 0
            if c10 and (writes or scheds):
                B("C10_resend", "write/sched at connection loss")
        elif k in ("data", "frame"):
            data = bytes(ev[1]) if k == "data" else simnet.frame(bytes(ev[1]))
            if not aborted:
                stream += data
                frames, status = parse_stream(stream)
                arriving = frames[nframes:]
                nframes = len(frames)
                exp_defs = []
                pend = set(pending_before)
                for f in arriving:
                    if len(f) < 4:
                        continue
                    cid = struct.unpack(">i", f[:4])[0]
                    # the frame answers the EARLIEST request with that id written on this connection and not yet
                    # answered; if that one was cancelled meanwhile the frame completes nothing - in particular not a
                    # later request that happens to carry the same id
                    for h in outstanding:
                        if rid[h] == cid:
                            outstanding.remove(h)
                            if h in pend:
                                exp_defs.append((h, 1, f))
                                pend.discard(h)
                            break
                if status == "limit":
                    aborted = True
                    if c06 and ("lose",) not in outs:
                        B("C06_length_limit", "length prefix above 2^31-1 did not request loseConnection")
                elif status == "short":
                    aborted = True
                    if c06 and ("raised", 4) not in outs:
                        B("C06_reassembly", "frame shorter than a correlation id was not rejected")
                elif c06 and (("lose",) in outs or any(o[0] == "raised" for o in outs)):
                    B("C06_length_limit", "well-formed data produced %r" % outs)
            else:
                # after an abort the receiver re-parses its whole buffer on every call (Twisted keeps alldata):
                # only frames that were complete before the abort may be seen again, nothing new
                stream += data
                old = parse_stream(stream)[0]
                for o in defs:
                    if o[2] != 1 or o[3] not in old:
                        B("C06_length_limit", "a frame not received before the abort was delivered after it: %r" % (o,))
            if c10 and (writes or connects or scheds):
                B("C10_never_resent", "received data produced network activity %r" % outs)
        elif k == "close":
            if was_closed:
                if outs != [("raised", 2)]:
                    B("C10_close", "second close(): %r" % outs)
            else:
                closed = True
                exp_defs = None     # which Deferreds fail is checked as a SET (the order is not part of the property)
                got4 = sorted(o[1] for o in defs if o[2] == 4)
                if c10 and (got4 != sorted(pending_before) or len(got4) != len(defs)):
                    B("C10_close", "close(): Deferreds failed %r, pending were %r" % ([(o[1], o[2]) for o in defs], pending_before))
                want = []
                if conn:
                    want.append(("lose",))
                elif attempt:
                    want.append(("cancel_attempt",))
                elif timer:
                    want.append(("cancel_timer",))
                others = [o for o in outs if o[0] not in ("def", "closefired")]
                if c10 and others != want:
                    B("C10_close", "close(): network outputs %r, expected %r" % (others, want))
                attempt = timer = False
                cf = [o for o in outs if o[0] == "closefired"]
                if c10 and len(cf) != (0 if conn else 1):
                    B("C10_close", "close Deferred fired %d times at close (live connection: %r)" % (len(cf), bool(conn)))
        elif k == "disc":
            exp_defs = []
            if c10 and outs != ([("lose",)] if conn else []):
                B("C10_reconnect_iff_pending", "disconnect(): %r" % outs)
        elif k == "update":
            exp_defs = []
            if ev[1]:
                addr = ev[2]
                if outs:
                    B("C10_reconnect_iff_pending", "updateMetadata produced %r" % outs)
            elif outs != [("raised", 3)]:
                B("C10_reconnect_iff_pending", "updateMetadata with another node id: %r" % outs)

        # ---- compare Deferred firings with the expectation
        got = [(o[1], o[2], o[3]) for o in defs]
        if exp_defs is not None and got != exp_defs:
            thm = "C06_own_response" if k in ("data", "frame") else ("C10_close" if k == "close" else "C06_exactly_once")
            if (thm.startswith("C06") and c06) or (thm.startswith("C10") and c10):
                B(thm, "event %r: Deferreds fired %r, expected %r" % (ev, got, exp_defs))
        for o in defs:
            if o[2] == 1 and c06:
                h = o[1]
                if h < len(rid) and o[3][:4] != rid_bytes(rid[h]):
                    B("C06_own_response", "Deferred %d (id %d) got a frame with id bytes %r" % (h, rid[h], o[3][:4]))
                if written.get(h) != nconn or not conn:
                    B("C06_own_response", "Deferred %d succeeded without having been written on this connection" % h)
        # ---- writes: once per connection, never after firing, only pending handles
        for o in outs:
            if o[0] == "write":
                h = o[1]
                if not conn:
                    B("C10_resend", "write while no connection is up")
                if h in fired:
                    B("C10_never_resent", "handle %d written after its Deferred fired (code %r)" % (h, fired[h]))
                if written.get(h) == nconn and conn:
                    B("C10_resend", "handle %d written twice on connection %d" % (h, nconn))
                if not (0 <= h < len(rid)) or rid[h] != o[2]:
                    B("C10_resend", "write of an unknown request %r" % (o,))
                written[h] = nconn
                if conn and 0 <= h < len(rid) and expect[h]:      # the broker sends no reply to a no-reply request
                    outstanding.append(h)
            elif o[0] == "def":
                fired[o[1]] = o[2]
            elif o[0] == "closefired":
                closefired += 1
                if closefired > 1:
                    B("C10_close", "close Deferred fired twice")
        if closed and was_closed and c10 and (connects or writes or scheds):
            B("C10_close", "after close: %r" % outs)
        if connected != (1 if conn else 0):
            B("C10_reconnect_iff_pending", "connected() = %d but the transport is %s" % (connected, "up" if conn else "down"))
    # ---- end of run
    if closed:
        left = [h for h in range(len(rid)) if h not in fired]
        if left:
            bad.append(("C10_close", "after close() Deferreds %r never fired" % left, len(records)))
        if not conn and closefired != 1:
            bad.append(("C10_close", "close Deferred fired %d times with no connection left" % closefired, len(records)))
    sel = [b for b in bad if b[0][:3] in which]
    return sel


def shrink(events, failing, budget=400):
    """greedy delta debugging: drop events while `failing(events)` stays true"""
    events = list(events)
    n = 0
    changed = True
    while changed and n < budget:
        changed = False
        i = len(events) - 1
        while i >= 0 and n < budget:
            cand = events[:i] + events[i + 1:]
            n += 1
            try:
                ok = failing(cand)
            except Exception:
                ok = False
            if ok:
                events, changed = cand, True
            i -= 1
    return events


def jsonable(events):
    return [[(list(x) if isinstance(x, (bytes, bytearray)) else x) for x in ev] for ev in events]


def unjson(events):
    out = []
    for ev in events:
        ev = list(ev)
        if ev[0] in ("data", "frame"):
            ev[1] = bytes(ev[1])
        if ev[0] in ("make", "update"):
            ev[1 if ev[0] == "update" else 2] = bool(ev[1 if ev[0] == "update" else 2])
        out.append(tuple(ev))
    return out
