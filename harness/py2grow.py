# Fail-closed translator for the consumer's pure ARITHMETIC (translator tie of C12/C14, DESIGN.md 10.2b, tie A):
#   growth   the body of the `except ConsumerFetchSizeTooSmall:` handler of Consumer._handle_fetch_response
#            -> a decision tree (coq/Model/GrowDSL.v, type gtree) over buffer_size / max_buffer_size
#   delay    the statements of Consumer._retry_fetch that update self.retry_delay -> a decision tree over rationals
#            (type dtree), REQUEST_RETRY_FACTOR read from the source as the exact decimal it is written as
#   resets   every other assignment to self.retry_delay in class Consumer -> list of (method, kind)
# Like harness/py2util.py this is a SYMBOLIC EXECUTION: locals, cached attributes, `a if c else b`, if/elif shapes and
# `and` / `or` vanish; a product with a value that is constant on the current path is a linear form; comparisons are
# "0 < linear form".  Logging calls and the construction of the Failure are ignored; `self._start_d.errback(..)` followed
# by `return` is the leaf GFail, falling out of the handler is the leaf GGrow <value of self.buffer_size>.
# Anything else raises Refused: the tie is then "unavailable" for that part, never a wrong term.
import ast
import os
import sys
from fractions import Fraction

PARTS = ["growth", "delay", "resets"]


class Refused(Exception):
    pass


def refuse(node, what):
    raise Refused("%s (line %s)" % (what, getattr(node, "lineno", "?")))


# linear forms over named atoms with Fraction coefficients: ("lin", c, ((k, atom), ...)); atoms: ("attr", name) | ("min", a, b)
def lin(c, terms=()):
    acc = {}
    for k, a in terms:
        acc[a] = acc.get(a, 0) + k
    return ("lin", Fraction(c), tuple(sorted(((k, a) for a, k in acc.items() if k != 0), key=lambda ka: repr(ka[1]))))


def add(a, b, sign=1):
    return lin(a[1] + sign * b[1], list(a[2]) + [(sign * k, t) for k, t in b[2]])


def scale(a, k):
    return lin(a[1] * k, [(c * k, t) for c, t in a[2]])


def const_of(a):
    return a[1] if a[0] == "lin" and not a[2] else None


class Sym:
    """symbolic execution of a statement list; attribute `target` is the one whose final value matters"""

    def __init__(self, source, consts, allowed_attrs, target, float_mode):
        self.source, self.consts, self.allowed, self.target, self.float_mode = source, consts, allowed_attrs, target, float_mode
        self.nodes = 0

    def node(self, t):
        self.nodes += 1
        if self.nodes > 200:
            raise Refused("decision tree too large")
        return t

    # ---- expressions, CPS: k(value, state); state = (env, attrs, nonnull, failed)
    def ev(self, e, st, k):
        env, attrs, nonnull, failed = st
        if isinstance(e, ast.Constant):
            if e.value is None:
                return k(("none",), st)
            if isinstance(e.value, bool):
                refuse(e, "boolean constant")
            if isinstance(e.value, int):
                return k(lin(e.value), st)
            if isinstance(e.value, float):
                if not self.float_mode:
                    refuse(e, "float constant")
                return k(lin(Fraction(ast.get_source_segment(self.source, e))), st)
            if isinstance(e.value, str):
                return k(("opaque",), st)
            refuse(e, "constant")
        if isinstance(e, ast.Name):
            if e.id in env:
                return k(env[e.id], st)
            if e.id in self.consts:
                return self.ev(self.consts[e.id], ({}, attrs, nonnull, failed), lambda v, s: k(v, st))
            refuse(e, "unknown name %s" % e.id)
        if isinstance(e, ast.Attribute) and isinstance(e.value, ast.Name) and e.value.id == "self":
            if e.attr in attrs:
                return k(attrs[e.attr], st)
            if e.attr in self.allowed:
                return k(lin(0, [(1, ("attr", e.attr))]), st)
            return k(("opaque",), st)
        if isinstance(e, ast.BinOp):
            def bin2(a, s):
                def bin3(b, s2):
                    if a[0] != "lin" or b[0] != "lin":
                        refuse(e, "arithmetic on a non-number")
                    if isinstance(e.op, ast.Add):
                        return k(add(a, b), s2)
                    if isinstance(e.op, ast.Sub):
                        return k(add(a, b, -1), s2)
                    if isinstance(e.op, ast.Mult):
                        ca, cb = const_of(a), const_of(b)
                        if ca is not None:
                            return k(scale(b, ca), s2)
                        if cb is not None:
                            return k(scale(a, cb), s2)
                        refuse(e, "product of two non-constants")
                    if isinstance(e.op, ast.Pow):
                        ca, cb = const_of(a), const_of(b)
                        if ca is not None and cb is not None and cb.denominator == 1 and 0 <= cb <= 64:
                            return k(lin(ca ** int(cb)), s2)
                    refuse(e, "operator %s" % type(e.op).__name__)
                return self.ev(e.right, s, bin3)
            return self.ev(e.left, st, bin2)
        if isinstance(e, ast.IfExp):
            return self.cond(e.test, st, lambda truth, s: self.ev(e.body if truth else e.orelse, s, k))
        if isinstance(e, ast.Call):
            name = ast.unparse(e.func)
            if name == "min" and len(e.args) == 2 and not e.keywords:
                def mn(a, s):
                    def mn2(b, s2):
                        if a[0] != "lin" or b[0] != "lin":
                            refuse(e, "min of a non-number")
                        ca, cb = const_of(a), const_of(b)
                        if ca is not None and cb is not None:
                            return k(lin(min(ca, cb)), s2)
                        x, y = sorted([a, b], key=repr)
                        return k(lin(0, [(1, ("min", x, y))]), s2)
                    return self.ev(e.args[1], s, mn2)
                return self.ev(e.args[0], st, mn)
            if name in ("float", "int") and len(e.args) == 1:
                return self.ev(e.args[0], st, k)
            return k(("opaque",), st)        # Failure(...), ConsumerFetchSizeTooSmall(...), log formatting: not looked at
        if isinstance(e, ast.JoinedStr):
            return k(("opaque",), st)
        refuse(e, "expression %s" % type(e).__name__)

    # ---- conditions: k(truth, state) is called once per outcome; a symbolic test makes an "if" node
    def cond(self, t, st, k):
        env, attrs, nonnull, failed = st
        if isinstance(t, ast.BoolOp):
            vals = t.values
            if isinstance(t.op, ast.And):
                if len(vals) == 1:
                    return self.cond(vals[0], st, k)
                rest = ast.BoolOp(op=ast.And(), values=vals[1:])
                return self.cond(vals[0], st, lambda tr, s: self.cond(rest, s, k) if tr else k(False, s))
            if len(vals) == 1:
                return self.cond(vals[0], st, k)
            rest = ast.BoolOp(op=ast.Or(), values=vals[1:])
            return self.cond(vals[0], st, lambda tr, s: k(True, s) if tr else self.cond(rest, s, k))
        if isinstance(t, ast.UnaryOp) and isinstance(t.op, ast.Not):
            return self.cond(t.operand, st, lambda tr, s: k(not tr, s))
        if isinstance(t, ast.Compare) and len(t.ops) == 1:
            op, rhs = t.ops[0], t.comparators[0]
            if isinstance(op, (ast.Is, ast.IsNot)) and isinstance(rhs, ast.Constant) and rhs.value is None:
                def isnone(v, s):
                    neg = isinstance(op, ast.IsNot)
                    if v[0] == "none":
                        return k(not neg, s)
                    if v[0] == "lin" and len(v[2]) == 1 and v[1] == 0 and v[2][0][0] == 1 and v[2][0][1][0] == "attr":
                        a = v[2][0][1][1]
                        e2, at2, nn, fl = s
                        if a in nn:
                            return k((nn[a] == "none") != neg, s)
                        ta = k(not neg, (e2, at2, dict(nn, **{a: "none"}), fl))
                        tb = k(neg, (e2, at2, dict(nn, **{a: "some"}), fl))
                        return self.node(("if", ("isnone", a), ta, tb))
                    if v[0] == "lin":
                        return k(neg, s)
                    refuse(t, "`is None` on %s" % v[0])
                return self.ev(t.left, st, isnone)
            if isinstance(op, (ast.Lt, ast.Gt, ast.LtE, ast.GtE)):
                def cmp(a, s):
                    def cmp2(b, s2):
                        if a[0] != "lin" or b[0] != "lin":
                            refuse(t, "comparison of a non-number")
                        if isinstance(op, ast.Lt):
                            d, neg = add(b, a, -1), False
                        elif isinstance(op, ast.Gt):
                            d, neg = add(a, b, -1), False
                        elif isinstance(op, ast.LtE):
                            d, neg = add(a, b, -1), True
                        else:
                            d, neg = add(b, a, -1), True
                        c = const_of(d)
                        if c is not None:
                            return k((c > 0) != neg, s2)
                        t_true, t_false = k(True, s2), k(False, s2)      # trees for `test holds` / `test fails`
                        first, second = k_true_first(t_true, t_false, neg)
                        return self.node(("if", ("pos", d), first, second))
                    return self.ev(rhs, s, cmp2)
                return self.ev(t.left, st, cmp)
        refuse(t, "condition %s" % ast.unparse(t))

    # ---- statements: leaf(state) builds the leaf when the block is left
    def block(self, stmts, st, kfall, kreturn):
        if not stmts:
            return kfall(st)
        s0, rest = stmts[0], stmts[1:]
        nxt = lambda s: self.block(rest, s, kfall, kreturn)
        env, attrs, nonnull, failed = st
        if isinstance(s0, ast.Expr):
            if isinstance(s0.value, ast.Constant):
                return nxt(st)
            if isinstance(s0.value, ast.Call):
                name = ast.unparse(s0.value.func)
                if name.startswith("log."):
                    return nxt(st)
                if name == "self._start_d.errback":
                    return nxt((env, attrs, nonnull, True))
            refuse(s0, "expression statement %s" % ast.unparse(s0)[:40])
        if isinstance(s0, ast.Return):
            return kreturn(st)
        if isinstance(s0, ast.Assign) and len(s0.targets) > 1 and all(isinstance(t, ast.Name) for t in s0.targets):
            names = [t.id for t in s0.targets]
            return self.ev(s0.value, st, lambda v, s: nxt((dict(s[0], **{n: v for n in names}), s[1], s[2], s[3])))
        if isinstance(s0, ast.Assign) and len(s0.targets) == 1:
            tg = s0.targets[0]
            if isinstance(tg, ast.Name):
                return self.ev(s0.value, st, lambda v, s: nxt((dict(s[0], **{tg.id: v}), s[1], s[2], s[3])))
            if isinstance(tg, ast.Attribute) and isinstance(tg.value, ast.Name) and tg.value.id == "self":
                if tg.attr == self.target:
                    return self.ev(s0.value, st, lambda v, s: nxt((s[0], dict(s[1], **{tg.attr: v}), s[2], s[3])))
                if tg.attr in self.allowed:
                    refuse(s0, "assignment to self.%s" % tg.attr)
                return self.ev(s0.value, st, lambda v, s: nxt(s))          # some other attribute: not our concern
            refuse(s0, "assignment target")
        if isinstance(s0, ast.AugAssign):
            tg = s0.target
            fake = ast.BinOp(left=tg, op=s0.op, right=s0.value)
            ast.copy_location(fake, s0)
            ast.fix_missing_locations(fake)
            if isinstance(tg, ast.Name):
                return self.ev(fake, st, lambda v, s: nxt((dict(s[0], **{tg.id: v}), s[1], s[2], s[3])))
            if isinstance(tg, ast.Attribute) and isinstance(tg.value, ast.Name) and tg.value.id == "self":
                if tg.attr == self.target:
                    return self.ev(fake, st, lambda v, s: nxt((s[0], dict(s[1], **{tg.attr: v}), s[2], s[3])))
                if tg.attr in self.allowed:
                    refuse(s0, "assignment to self.%s" % tg.attr)
                return nxt(st)
            refuse(s0, "augmented assignment target")
        if isinstance(s0, ast.If):
            return self.cond(s0.test, st, lambda tr, s: self.block(s0.body if tr else s0.orelse, s, nxt, kreturn))
        refuse(s0, "statement %s" % type(s0).__name__)


def k_true_first(ta, tb, neg):
    """("if", pos d, A, B): A is taken when 0 < d.  ta is the tree for `test true`, tb for `test false`;
    for <= and >= the test is the NEGATION of 0 < d"""
    return (tb, ta) if neg else (ta, tb)


# ---------------------------------------------------------------- the three parts
def find_class(module, name):
    for st in module.body:
        if isinstance(st, ast.ClassDef) and st.name == name:
            return st
    raise Refused("class %s not found" % name)


def find_method(cls, name):
    for st in cls.body:
        if isinstance(st, ast.FunctionDef) and st.name == name:
            return st
    raise Refused("method %s not found" % name)


def module_consts(module):
    return {st.targets[0].id: st.value for st in module.body
            if isinstance(st, ast.Assign) and len(st.targets) == 1 and isinstance(st.targets[0], ast.Name)}


def growth(source, module):
    fn = find_method(find_class(module, "Consumer"), "_handle_fetch_response")
    handlers = [h for n in ast.walk(fn) if isinstance(n, ast.Try) for h in n.handlers
                if h.type is not None and ast.unparse(h.type) == "ConsumerFetchSizeTooSmall"]
    if len(handlers) != 1:
        raise Refused("expected exactly one `except ConsumerFetchSizeTooSmall` handler, found %d" % len(handlers))
    sym = Sym(source, module_consts(module), {"buffer_size", "max_buffer_size"}, "buffer_size", False)
    st0 = ({}, {}, {}, False)

    def fall(st):
        if st[3]:
            raise Refused("errback of the start Deferred without a return")
        v = st[1].get("buffer_size", lin(0, [(1, ("attr", "buffer_size"))]))
        return sym.node(("grow", v))

    def ret(st):
        if not st[3]:
            raise Refused("return from the handler without errback")
        return sym.node(("fail",))
    return emit_gtree(sym.block(handlers[0].body, st0, fall, ret))


def delay(source, module):
    fn = find_method(find_class(module, "Consumer"), "_retry_fetch")

    def assigns(stmts):
        return any(isinstance(n, (ast.Assign, ast.AugAssign)) and any(
            isinstance(t, ast.Attribute) and t.attr == "retry_delay" for t in (n.targets if isinstance(n, ast.Assign) else [n.target]))
            for s in stmts for n in ast.walk(s))
    # the innermost statement list that contains every assignment to self.retry_delay
    block = fn.body
    while True:
        inner = [s for s in block if assigns([s])]
        if len(inner) == 1 and isinstance(inner[0], ast.If) and not assigns(inner[0].orelse) and \
                not any(isinstance(t, ast.Attribute) and t.attr == "retry_delay" for n in [inner[0]] for t in ast.walk(n.test)):
            block = inner[0].body
            continue
        break
    if not assigns(block):
        raise Refused("no assignment to self.retry_delay in _retry_fetch")
    # the statements that touch the delay, and the plain local assignments before them (`x = y = self.retry_delay`)
    stmts = [s for s in block if assigns([s]) or (isinstance(s, ast.Assign) and all(isinstance(t, ast.Name) for t in s.targets))]
    sym = Sym(source, module_consts(module), {"retry_delay", "retry_max_delay"}, "retry_delay", True)

    def fall(st):
        return sym.node(("set", st[1].get("retry_delay", lin(0, [(1, ("attr", "retry_delay"))]))))

    def ret(st):
        raise Refused("return inside the delay update")
    return emit_dtree(sym.block(stmts, ({}, {}, {}, False), fall, ret))


def resets(source, module):
    cls = find_class(module, "Consumer")
    out = []
    for m in cls.body:
        if not isinstance(m, ast.FunctionDef) or m.name == "_retry_fetch":
            continue
        for n in ast.walk(m):
            tgts = n.targets if isinstance(n, ast.Assign) else [n.target] if isinstance(n, ast.AugAssign) else []
            for t in tgts:
                if isinstance(t, ast.Attribute) and t.attr == "retry_delay" and isinstance(t.value, ast.Name) and t.value.id == "self":
                    if isinstance(n, ast.AugAssign):
                        raise Refused("augmented assignment to self.retry_delay in %s" % m.name)
                    rhs = ast.unparse(n.value)
                    if rhs == "self.retry_init_delay":
                        out.append((m.name, "RInitDelay"))
                    elif rhs == "float(request_retry_init_delay)" and m.name == "__init__":
                        out.append((m.name, "RFloatInitArg"))
                    else:
                        raise Refused("self.retry_delay = %s in %s" % (rhs[:40], m.name))
    return "[%s]" % "; ".join('("%s", %s)' % x for x in sorted(out))


# ---------------------------------------------------------------- Gallina text
def zt(z):
    return "(%d)" % z if z < 0 else "%d" % z


def emit_gex(v):
    if v[0] != "lin":
        raise Refused("buffer_size set to a non-number")
    c, terms = v[1], v[2]
    if c.denominator != 1 or any(k.denominator != 1 for k, _ in terms):
        raise Refused("non-integer arithmetic on the buffer size")
    kb = sum(k for k, a in terms if a == ("attr", "buffer_size"))
    km = sum(k for k, a in terms if a == ("attr", "max_buffer_size"))
    mins = [(k, a) for k, a in terms if a[0] == "min"]
    if not mins:
        return "(GLin %s %s %s)" % (zt(int(c)), zt(int(kb)), zt(int(km)))
    if len(mins) == 1 and mins[0][0] == 1 and c == 0 and kb == 0 and km == 0:
        return "(GMin %s %s)" % (emit_gex(mins[0][1][1]), emit_gex(mins[0][1][2]))
    raise Refused("arithmetic on a min(..)")


def emit_gtree(t, ind=1):
    pad = "  " * ind
    if t[0] == "grow":
        return pad + "GGrow %s" % emit_gex(t[1])
    if t[0] == "fail":
        return pad + "GFail"
    kind, p = t[1]
    c = "GCMaxNone" if kind == "isnone" and p == "max_buffer_size" else "GCPos %s" % emit_gex(p) if kind == "pos" else None
    if c is None:
        raise Refused("condition on %r" % (p,))
    a, b = emit_gtree(t[2], ind + 1), emit_gtree(t[3], ind + 1)
    p2 = "  " * (ind + 1)
    return pad + "GIf (%s)\n%s(%s)\n%s(%s)" % (c, p2, a[len(p2):], p2, b[len(p2):])


def qt(q):
    return "(%d # %d)" % (q.numerator, q.denominator)


def emit_dex(v):
    if v[0] != "lin" or v[1] != 0:
        raise Refused("retry delay set to something that is not a combination of the delay and its maximum")
    terms = v[2]
    kd = sum((k for k, a in terms if a == ("attr", "retry_delay")), Fraction(0))
    km = sum((k for k, a in terms if a == ("attr", "retry_max_delay")), Fraction(0))
    mins = [(k, a) for k, a in terms if a[0] == "min"]
    if not mins:
        return "(DLin %s %s)" % (qt(kd), qt(km))
    if len(mins) == 1 and mins[0][0] == 1 and kd == 0 and km == 0:
        return "(DMin %s %s)" % (emit_dex(mins[0][1][1]), emit_dex(mins[0][1][2]))
    raise Refused("arithmetic on a min(..)")


def emit_dtree(t, ind=1):
    pad = "  " * ind
    if t[0] == "set":
        return pad + "DSet %s" % emit_dex(t[1])
    if t[0] == "if" and t[1][0] == "pos":
        a, b = emit_dtree(t[2], ind + 1), emit_dtree(t[3], ind + 1)
        p2 = "  " * (ind + 1)
        return pad + "DIf %s\n%s(%s)\n%s(%s)" % (emit_dex(t[1][1]), p2, a[len(p2):], p2, b[len(p2):])
    raise Refused("delay update node %s" % (t[0],))


TYPES = {"growth": "gtree", "delay": "dtree", "resets": "reset_sites"}


def translate_source(text):
    module = ast.parse(text)
    out = {}
    for part, f in (("growth", growth), ("delay", delay), ("resets", resets)):
        try:
            out[part] = ("ok", f(text, module), [])
        except Refused as e:
            out[part] = ("refused", str(e))
    return out


def translate_repo(repo):
    return translate_source(open(os.path.join(repo, "afkak", "consumer.py")).read())


def emit_gallina(results, prefix="gen", header=None):
    out = [header or "(* generated by harness/py2grow.py from afkak/consumer.py - do not edit *)",
           "From Coq Require Import String QArith.", "From AV Require Import Base.Util Model.GrowDSL.",
           "Open Scope string_scope.", "Open Scope Z_scope.", ""]
    for part in PARTS:
        r = results[part]
        if r[0] != "ok":
            out.append("(* %s: %s *)\n" % (part, r[1]))
            continue
        out.append("Definition %s_%s : %s :=\n%s.\n" % (prefix, part, TYPES[part], r[1] if part != "resets" else "  " + r[1]))
    return "\n".join(out)


if __name__ == "__main__":
    root = os.path.dirname(os.path.dirname(os.path.abspath(__file__)))
    res = translate_repo(os.environ.get("VERIF_REPO", "/repo"))
    if "--snapshot" in sys.argv:
        bad = [p for p in PARTS if res[p][0] != "ok"]
        if bad:
            print("refused:", {p: res[p][1] for p in bad})
            sys.exit(1)
        hdr = ("(* The committed terms of the consumer-arithmetic tie (C12/C14, DESIGN.md 10.2b): what harness/py2grow.py makes of\n"
               "   afkak/consumer.py at the commit the soundness proofs (Proofs/GrowDSLSound.v) were written against.\n"
               "   Regenerate with  python3 harness/py2grow.py --snapshot  ONLY together with those proofs. *)")
        open(os.path.join(root, "coq", "Model", "GrowAst.v"), "w").write(emit_gallina(res, "ast", hdr))
        print("wrote coq/Model/GrowAst.v")
    else:
        for p in PARTS:
            print(p, res[p][0])
            print(res[p][1])
