# Shared driver for C19 / C09 / C01: the REAL afkak.producer.Producer under twisted's Clock over a scripted
# stand-in for KafkaClient (driver 1) or over the real KafkaClient with its broker layer scripted (driver 2).
# The canonical integer trace produced here is compared with coq/Model/Producer.v (run_case).
#
# case line :  acks n b has_t max api | lp(cache triples) | events...
# events    :  1 topic choice cnt bytes | 2 kind | 3 sid | 4 | 5 topic err haspart | 6 | 7 lid ok kind
#              8 tid | 9 r | 10 <value> | 11 <-1 | value> | 12 <value> (a result that omits payloads: outside the
#              client contract) | 13 b (handing a request to the client raises from now on / no longer: F-C01-5)
# value     :  0 | 1 lp(resps) | 2 lp(resps) lp(failed) | 3 kind | 4 kind        resps: (t p err off)*  failed: (t p kind)*
# trace     :  per event:  nout, then per output lp(ints), outputs sorted inside a step
# outputs   :  [1 attempt magic npl (t p nm mids..)*] [2 tid k kind] [3 tid] [4 topics..] [5 lid topic] [6]
#              [7 sid status a b c d]     status 1: a=topic b=part c=err d=offset; 2: None; 0: a=kind b=flag; 3: success carrying an exception
import gzip
import struct

MID = 100            # message id = sid * MID + index
TOPICS = ["tA", "tB", "tC"]

# ------------------------------------------------------------------ failure kinds
K_CANCEL, K_TIDCANCEL, K_NORESP, K_TYPE, K_VALUE = 2, 3, 4, 5, 6
K_KEY, K_ZERODIV, K_RUNTIME, K_CONNDONE, K_CONNLOST, K_INDEX = 9, 10, 11, 12, 13, 14
K_KUNAVAIL, K_LEADERUNAVAIL, K_PARTUNAVAIL, K_AFKAKCONN, K_CLIENTERR, K_FAILEDPAYLOADS, K_OTHERKAFKA = 20, 21, 22, 24, 25, 26, 27
K_OTHER = 99
K_BROKER = 1000      # + errno


def kind_tables():
    import afkak.common as C
    from twisted.internet import defer, error
    exact = {
        C.CancelledError: K_CANCEL, defer.CancelledError: K_TIDCANCEL, C.NoResponseError: K_NORESP,
        TypeError: K_TYPE, ValueError: K_VALUE, KeyError: K_KEY, ZeroDivisionError: K_ZERODIV, RuntimeError: K_RUNTIME,
        error.ConnectionDone: K_CONNDONE, error.ConnectionLost: K_CONNLOST, IndexError: K_INDEX,
        C.KafkaUnavailableError: K_KUNAVAIL, C.LeaderUnavailableError: K_LEADERUNAVAIL,
        C.PartitionUnavailableError: K_PARTUNAVAIL, C.ConnectionError: K_AFKAKCONN, C.ClientError: K_CLIENTERR,
        C.FailedPayloadsError: K_FAILEDPAYLOADS,
    }
    return exact


def kind_of_exc(exc):
    """exception instance -> (kind, flag)"""
    import afkak.common as C
    exact = kind_tables()
    t = type(exc)
    if isinstance(exc, C.BrokerResponseError):
        return K_BROKER + int(exc.errno), 0
    if t is C.CancelledError:
        rs = exc.request_sent
        return K_CANCEL, (1 if rs is True else 0 if rs is False else -1)
    if t in exact:
        return exact[t], 0
    if isinstance(exc, C.KafkaError):
        return K_OTHERKAFKA, 0
    return K_OTHER, 0


def exc_of_kind(kind):
    """kind -> a fresh exception instance (for scripted failures)"""
    import afkak.common as C
    if kind >= K_BROKER - 1:
        try:
            C.BrokerResponseError.raise_for_errno(kind - K_BROKER, "scripted")
        except C.BrokerResponseError as e:
            return e
    if kind == K_CANCEL:
        return C.CancelledError(request_sent=False)
    for cls, k in kind_tables().items():
        if k == kind:
            if cls is C.FailedPayloadsError:
                return cls([], [])
            return cls("scripted")
    if kind == K_OTHERKAFKA:
        return C.ProtocolError("scripted")
    return AssertionError("scripted")


def is_kafka_kind(kind):
    import afkak.common as C
    return isinstance(exc_of_kind(kind), C.KafkaError)


# ------------------------------------------------------------------ message ids
def make_msgs(sid, specs):
    """specs: list of 'n' (null) | 'e' (empty) | int size (value carrying the id, padded to >= size bytes)"""
    out = []
    for i, s in enumerate(specs):
        if s == "n":
            out.append(None)
        elif s == "e":
            out.append(b"")
        else:
            tag = b"%d:%d|" % (sid, i)
            out.append(tag + b"x" * max(0, int(s) - len(tag)))
    return out


def make_key(sid, key_none):
    return None if key_none else b"k%d" % sid


def parse_message_set(data):
    """independent parser of a v0/v1 message set (uncompressed entries) -> list of (key, value)"""
    out, i = [], 0
    while i < len(data):
        _off, size = struct.unpack_from(">qi", data, i)
        i += 12
        body = data[i:i + size]
        i += size
        _crc, magic, attrs = struct.unpack_from(">iBB", body, 0)
        j = 6
        if magic == 1:
            j += 8
        klen, = struct.unpack_from(">i", body, j)
        j += 4
        key = None
        if klen >= 0:
            key = body[j:j + klen]
            j += klen
        vlen, = struct.unpack_from(">i", body, j)
        j += 4
        val = None
        if vlen >= 0:
            val = body[j:j + vlen]
            j += vlen
        if attrs & 3 == 1:
            out += parse_message_set(gzip.decompress(val))
        else:
            out.append((key, val))
    return out


def decode_payload_messages(messages, sends):
    """messages: list of afkak Message (possibly one gzip wrapper).  sends: sid -> (key, msgs).
    returns (magic, [mid...]) ; unidentifiable message -> -1"""
    magic = messages[0].magic if messages else 0
    flat = []
    for m in messages:
        if m.attributes & 3 == 1:
            flat += parse_message_set(gzip.decompress(m.value))
        elif m.attributes & 3 == 0:
            flat.append((m.key, m.value))
        else:
            flat.append((None, None))
    bykey = {k: sid for sid, (k, _m) in sends.items() if k is not None}
    used = set()
    mids = []
    for key, val in flat:
        mid = -1
        if val and b"|" in val[:24]:
            try:
                a, b = val.split(b"|", 1)[0].split(b":")
                sid, idx = int(a), int(b)
                if sid in sends and idx < len(sends[sid][1]) and sends[sid][1][idx] == val and sends[sid][0] == key:
                    mid = sid * MID + idx
            except ValueError:
                pass
        elif key is not None and key in bykey:
            sid = bykey[key]
            for idx, mm in enumerate(sends[sid][1]):
                if mm == val and (sid, idx) not in used and (mm is None or mm == b""):
                    mid = sid * MID + idx
                    break
        if mid >= 0:
            used.add((mid // MID, mid % MID))
        mids.append(mid)
    return magic, mids


# ------------------------------------------------------------------ recording reactor
def make_clock():
    from twisted.internet.task import Clock, LoopingCall

    class RecClock(Clock):
        def __init__(self):
            Clock.__init__(self)
            self.timers = {}      # tid -> DelayedCall (retry timers of the producer)
            self.ntimer = 0
            self.on_sched = None
            self.looper_calls = []
            self.looper_delays = []   # every delay the LoopingCall asked the reactor for
            self.looper_times = []    # (virtual time of the request, deadline)
            self.owner = None

        def callLater(self, delay, func, *a, **kw):
            dc = Clock.callLater(self, delay, func, *a, **kw)
            if isinstance(func, LoopingCall):
                self.looper_calls.append(dc)
                self.looper_delays.append(delay)
                self.looper_times.append((self.rightNow, dc.getTime()))
            elif self.owner is not None and self.owner(func, a):
                tid = self.ntimer
                self.ntimer += 1
                self.timers[tid] = dc
                kind = 0 if (a and a[0] is True) else 1
                if self.on_sched:
                    self.on_sched(tid, delay, kind, dc)
            return dc

        def fire(self, dc):
            """run one pending call now (time jumps forward to its deadline if needed)"""
            if dc not in self.calls:
                return False
            self.calls.remove(dc)
            if dc.getTime() > self.rightNow:
                self.rightNow = dc.getTime()
            dc.called = 1
            dc.func(*dc.args, **dc.kw)
            return True
    return RecClock()


def delay_index(delay, init, factor, limit=400):
    """index k with init*F*...*F (k sequential float multiplications) == delay bit for bit, else -1"""
    d = init
    for k in range(limit):
        if float(d).hex() == float(delay).hex():
            return k
        d *= factor
    return -1


# ------------------------------------------------------------------ stand-in KafkaClient (driver 1)
class StubClient(object):
    """What Producer touches of KafkaClient: reactor, topic_partitions, metadata_error_for_topic,
    load_metadata_for_topics, reset_topic_metadata, send_produce_request, _api_versions, get_api_version."""

    def __init__(self, run, api):
        self.run = run
        self.reactor = run.clock
        self.topic_partitions = {}
        self.topic_errors = {}
        self._api_versions = api
        self.loads = {}       # lid -> Deferred
        self.nload = 0
        self.request = None   # (Deferred, [(t, p)]) outstanding produce request
        self.version_d = None
        self.cancel_value = None
        self.broken = False   # send_produce_request raises synchronously (event 13)
        self.sync_plans = []  # python event ("syncnext", kind, k): the next produce requests return ALREADY-FIRED Deferreds

    # -- metadata cache (client.py:274-301, 328-332)
    def metadata_error_for_topic(self, topic):
        return self.topic_errors.get(topic, 3)

    def reset_topic_metadata(self, *topics):
        self.run.emit([4] + sorted(set(TOPICS.index(t) for t in topics)))
        for t in topics:
            self.topic_partitions.pop(t, None)
            self.topic_errors.pop(t, None)

    def load_metadata_for_topics(self, *topics):
        from twisted.internet.defer import Deferred
        lid = self.nload
        self.nload += 1
        # real client: cancellation is eaten, the Deferred fires with None (client.py:508-513)
        d = Deferred(lambda dd: dd.callback(None))
        self.loads[lid] = d
        self.run.emit([5, lid, TOPICS.index(topics[0]) if len(topics) == 1 else -1])
        return d

    def get_api_version(self, key):
        from twisted.internet.defer import Deferred
        self.run.emit([6])
        self.version_d = Deferred()
        return self.version_d

    def send_produce_request(self, payloads, acks=1, timeout=1000, fail_on_error=True, callback=None):
        from twisted.internet.defer import Deferred
        if self.broken:
            raise RuntimeError("scripted: handing the produce request to the client raises")
        self.run.saw_produce(payloads, acks, fail_on_error)
        if self.sync_plans:
            # the client answers at once (e.g. the real client with cached metadata that names no leader raises
            # LeaderUnavailableError before any I/O): the Deferred handed back has already fired.  For the model this is
            # the result event right after the event that sent the request: the step is split here.
            kind, k = self.sync_plans.pop(0)
            v = self.sync_value(kind, k, payloads, acks)
            d = Deferred()
            self.run.split_step([10] + self.run.value_ints(v))
            self.run.fire_value(d, v)
            return d

        def canceller(dd):
            v = self.cancel_value
            if v is not None:
                self.run.fire_value(dd, v)
        d = Deferred(canceller)
        self.request = (d, [(p.topic, p.partition) for p in payloads])
        return d


def _sync_value(self, kind, k, payloads, acks):
    cur = sorted((TOPICS.index(p.topic), p.partition) for p in payloads)
    if kind == "ok":
        return ("empty", None) if acks == 0 else ("resp", [(t, p, 0, 100 + 10 * j) for j, (t, p) in enumerate(cur)])
    if kind == "failed":
        return ("failed", [], [(t, p, k) for (t, p) in cur])
    if kind == "errcode" and acks != 0:
        return ("resp", [(t, p, k, -1) for (t, p) in cur])
    if kind == "partial" and acks != 0 and len(cur) >= 2:
        return ("failed", [(t, p, 0, 100 + 10 * j) for j, (t, p) in enumerate(cur[1:])], [(cur[0][0], cur[0][1], K_CONNLOST)])
    return ("kafka", K_LEADERUNAVAIL)


StubClient.sync_value = _sync_value


# ------------------------------------------------------------------ one implementation run
class ImplRun(object):
    """cfg: dict(acks, batch(bool), n, b, t, max, api(0 None/1 zero/2 table), codec, retry_interval, partitioner,
    nparts: {topic index: count}, cache: [(topic idx, err, haspart)])"""

    def __init__(self, cfg, client_factory=None):
        from afkak.producer import Producer
        import afkak.partitioner as P
        self.cfg = cfg
        self.clock = make_clock()
        self.trace = []          # list of sorted step outputs
        self.cur = None
        self.events = []         # model events (lists of ints), choice of sends patched at the end
        self.sends = {}          # sid -> (key, msgs)
        self.send_ev = {}        # index in self.events -> sid
        self.nsid = 0
        self.send_d = {}         # sid -> Deferred
        self.fired = {}          # sid -> count of outcomes
        self.choice = {}         # sid -> recorded partition (or negative: partitioner raised)
        self.last_attempt = 0
        self.cur_event = None
        self.timer_kind = {}
        self.problems = []       # driver-level anomalies (float delay mismatch, contract breach ...)
        self.produce_log = []    # (step index, attempt, [(t, p, [mids])])
        self.delays = []
        self.raw = []            # per event: the outputs in the order the implementation produced them
        self.snaps = []          # per event: observable state AFTER the event (see snapshot())
        self.applied = []        # per event: a scripted client result was delivered to the producer by this event
        self.dishonest_at = None # index of the first event outside the honest environment (applied 12, or 13 1)
        self.partitioner_builds = []   # (step, topic name, partition list) of every partitioner_class(topic, partitions) call
        api = {0: None, 1: 0, 2: "table"}[cfg["api"]]
        if api == "table":
            from afkak.common import ApiVersion
            api = [ApiVersion(0, 0, 3), ApiVersion(1, 0, 4), ApiVersion(18, 0, 1)]
        self.client = (client_factory or StubClient)(self, api)
        for (t, err, hp) in cfg.get("cache", []):
            self.set_cache(t, err, hp)
        run = self

        base = {"rr": P.RoundRobinPartitioner, "hashed": P.HashedPartitioner}.get(cfg.get("partitioner", "rr"))

        class Scripted(object):
            def __init__(self, topic, partitions):
                pass

            def partition(self, key, partitions):
                v = cfg.get("script", {}).get(key, 0)
                if v == "raise":
                    raise ZeroDivisionError("scripted partitioner failure")
                if v == "out":
                    return 77
                return partitions[v % len(partitions)]

        inner_cls = base or Scripted

        class Recording(object):
            def __init__(self, topic, partitions):
                # every construction of a partitioner by the producer is an observable call of the user's class
                run.partitioner_builds.append((len(run.events), topic, list(partitions)))
                self.inner = inner_cls(topic, partitions)

            def partition(self, key, partitions):
                try:
                    p = self.inner.partition(key, partitions)
                except Exception as e:
                    run.note_choice(key, -(1 + kind_of_exc(e)[0]))
                    raise
                run.note_choice(key, p)
                return p

        self.clock.owner = lambda func, a: True
        self.clock.on_sched = self.on_sched
        kw = dict(req_acks=cfg["acks"], max_req_attempts=cfg["max"], retry_interval=cfg.get("retry_interval", 0.25),
                  codec=cfg.get("codec"), partitioner_class=Recording)
        if cfg["batch"]:
            kw.update(batch_send=True, batch_every_n=cfg["n"], batch_every_b=cfg["b"], batch_every_t=cfg["t"])
        self.cur = []
        self.producer = Producer(self.client, **kw)
        self.cur = None
        self.Producer = Producer
        self.snap0 = self.snapshot()

    # -- model-side configuration of this run
    def model_cfg(self):
        c = self.cfg
        if c["batch"]:
            n, b, has_t = c["n"], c["b"], 1 if c["t"] else 0
        else:
            n, b, has_t = 1, 1, 0
        flat = []
        for (t, err, hp) in c.get("cache", []):
            flat += [t, err, 1 if hp else 0]
        return [c["acks"], n, b, has_t, c["max"], c["api"]] + [len(flat)] + flat

    def case_line(self):
        line = self.model_cfg()
        for i, ev in enumerate(self.events):
            if ev[0] == 1:
                sid = self.send_ev[i]
                ev = list(ev)
                ev[2] = self.choice.get(sid, self.inferred_choice(sid))
            line += ev
        return line

    def flat_trace(self):
        out = []
        for step in self.trace:
            out.append(len(step))
            for o in step:
                out += [len(o)] + o
        return out

    # -- partition choices (oracle read back from the implementation)
    def note_choice(self, key, p):
        if key is None:
            return
        for sid, (k, _m) in self.sends.items():
            if k == key:
                self.choice[sid] = p

    def inferred_choice(self, sid):
        for (_i, _a, pls) in self.produce_log:
            for (_t, p, mids) in pls:
                if any(m // MID == sid for m in mids if m >= 0):
                    return p
        return 0

    # -- recording
    def emit(self, o):
        if self.cur is None:
            self.problems.append("output outside an event: %r" % (o,))
            return
        self.cur.append([int(x) for x in o])

    def on_sched(self, tid, delay, kind, dc):
        k = delay_index(delay, self.cfg.get("retry_interval", 0.25), self.Producer.RETRY_INTERVAL_FACTOR)
        if not self.Producer.RETRY_INTERVAL_FACTOR > 1:
            # the factor is a parameter of the proof (C09_delay_grows needs F > 1): the code's own constant must satisfy it
            self.problems.append("RETRY_INTERVAL_FACTOR = %r is not > 1: retry delays do not grow" % (self.Producer.RETRY_INTERVAL_FACTOR,))
        if k < 0:
            self.problems.append("retry delay %r (%s) is not init*F^k for any k" % (delay, float(delay).hex()))
        self.timer_kind[tid] = kind
        self.delays.append((tid, delay, k))
        self.emit([2, tid, k, kind])
        orig_cancel = dc.cancel

        def cancel():
            self.emit([3, tid])
            return orig_cancel()
        dc.cancel = cancel

    def saw_produce(self, payloads, acks, fail_on_error):
        ev = self.cur_event
        if ev and ev[0] == 8 and self.timer_kind.get(ev[1]) == 1:
            self.last_attempt += 1
        else:
            self.last_attempt = 1
        if acks != self.cfg["acks"] or fail_on_error is not False:
            self.problems.append("send_produce_request(acks=%r, fail_on_error=%r)" % (acks, fail_on_error))
        pls, magic = [], 0
        for p in payloads:
            magic, mids = decode_payload_messages(p.messages, self.sends)
            pls.append((TOPICS.index(p.topic), p.partition, mids))
        pls.sort()
        o = [1, self.last_attempt, magic, len(pls)]
        for (t, p, mids) in pls:
            o += [t, p, len(mids)] + mids
        self.produce_log.append((len(self.trace), self.last_attempt, pls))
        self.emit(o)

    def outcome_cb(self, sid):
        def cb(r):
            from afkak.common import ProduceResponse
            self.fired[sid] = self.fired.get(sid, 0) + 1
            if r is None:
                self.emit([7, sid, 2, 0, 0, 0, 0])
            elif isinstance(r, ProduceResponse):
                t = TOPICS.index(r.topic) if r.topic in TOPICS else -1
                self.emit([7, sid, 1, t, r.partition, r.error, r.offset])
            else:
                k = kind_of_exc(r)[0] if isinstance(r, BaseException) else K_OTHER
                self.emit([7, sid, 3, k, 0, 0, 0])

        def eb(f):
            self.fired[sid] = self.fired.get(sid, 0) + 1
            k, flag = kind_of_exc(f.value)
            self.emit([7, sid, 0, k, flag, 0, 0])
            if getattr(self, "reenter", None) is not None and getattr(self, "reenter_sid", None) == sid:
                self.reenter_send()
        return cb, eb

    # -- cache
    def set_cache(self, t, err, hp):
        c = self.client
        name = TOPICS[t]
        c.topic_partitions.pop(name, None)
        c.topic_errors.pop(name, None)
        if err == 3 and not hp:
            return
        c.topic_errors[name] = err
        if hp:
            c.topic_partitions[name] = list(range(self.cfg.get("nparts", {}).get(t, 2)))

    # -- contract values
    def fire_value(self, d, v):
        """fire the client's produce Deferred with contract value v"""
        from afkak.common import FailedPayloadsError, ProduceResponse
        from twisted.python.failure import Failure
        tag = v[0]
        if tag == "empty":
            d.callback(v[1] if len(v) > 1 else [])
        elif tag == "resp":
            d.callback([ProduceResponse(TOPICS[t], p, e, o) for (t, p, e, o) in v[1]])
        elif tag == "failed":
            resps = [ProduceResponse(TOPICS[t], p, e, o) for (t, p, e, o) in v[1]]
            bytp = {(TOPICS.index(pl.topic), pl.partition): pl for pl in self.last_payloads}
            failed = [(bytp[(t, p)], Failure(exc_of_kind(k))) for (t, p, k) in v[2]]
            d.errback(Failure(FailedPayloadsError(resps, failed)))
        elif tag in ("kafka", "other"):
            d.errback(Failure(exc_of_kind(v[1])))
        else:
            raise AssertionError(v)

    @staticmethod
    def value_ints(v):
        tag = v[0]
        if tag == "empty":
            return [0]
        if tag == "resp":
            flat = [x for r in v[1] for x in r]
            return [1, len(flat)] + flat
        if tag == "failed":
            f1 = [x for r in v[1] for x in r]
            f2 = [x for r in v[2] for x in r]
            return [2, len(f1)] + f1 + [len(f2)] + f2
        if tag == "kafka":
            return [3, v[1]]
        return [4, v[1]]

    def value_ok(self, v):
        """the client contract for the outstanding request (Model.Producer.result_ok)"""
        if self.client.request is None:
            return False
        cur = sorted((TOPICS.index(t), p) for (t, p) in self.client.request[1])
        acks = self.cfg["acks"]
        tag = v[0]
        if tag == "empty":
            return True
        if tag == "resp":
            tps = sorted((t, p) for (t, p, _e, _o) in v[1])
            return acks != 0 and tps == cur
        if tag == "failed":
            r = sorted((t, p) for (t, p, _e, _o) in v[1])
            f = sorted((t, p) for (t, p, _k) in v[2])
            if not f or len(set(f)) != len(f) or len(set(r)) != len(r) or set(r) & set(f):
                return False
            if acks == 0:
                return not r and set(f) <= set(cur)
            return sorted(r + f) == cur
        if tag == "kafka":
            return is_kafka_kind(v[1]) and v[1] != K_FAILEDPAYLOADS
        if tag == "other":
            return not is_kafka_kind(v[1])
        return False

    def value_omit_ok(self, v):
        """Model.Producer.omit_ok: answered and failed payloads are distinct payloads of the request, not all of them"""
        if self.client.request is None or self.cfg["acks"] == 0:
            return False
        cur = sorted((TOPICS.index(t), p) for (t, p) in self.client.request[1])
        if v[0] == "resp":
            r, f = [(t, p) for (t, p, _e, _o) in v[1]], []
        elif v[0] == "failed":
            r, f = [(t, p) for (t, p, _e, _o) in v[1]], [(t, p) for (t, p, _k) in v[2]]
            if not f:
                return False
        else:
            return False
        both = r + f
        return len(set(both)) == len(both) and set(both) <= set(cur) and not set(cur) <= set(both)

    # -- events
    def apply(self, ev):
        """ev: python-level event tuple; appends the model event and the step outputs"""
        if ev[0] == "syncnext":       # not a model event: arms the client (see StubClient.send_produce_request)
            self.client.sync_plans.append((ev[1], ev[2]))
            return None
        self.cur = []
        self.result_applied = False
        self._split = False
        mev = self._apply(ev)
        if self._split:
            mev = self.cur_event
        self.events.append(mev)
        self.applied.append(self.result_applied)
        self.raw.append(list(self.cur))
        self.trace.append(sorted(self.cur))
        self.cur = None
        self.snaps.append(self.snapshot())
        return mev

    def split_step(self, mev2, sync_result=True):
        """the step of the current event ends here and the model event mev2 begins: a result that arrives
        synchronously, inside the call that sent the request (sync_result), or a call the application makes
        re-entrantly from the callback of a send Deferred"""
        self.events.append(self.cur_event)
        self.applied.append(self.result_applied)
        self.raw.append(list(self.cur))
        self.trace.append(sorted(self.cur))
        snap = self.snapshot()
        if sync_result:
            snap["busy"] = snap["req"] = True      # between the two halves the request just sent is outstanding
        self.snaps.append(snap)
        self.cur = []
        self.cur_event = mev2
        self.result_applied = bool(sync_result)
        self._split = True

    def reenter_send(self):
        """the application's errback of a cancelled send calls send_messages() re-entrantly (python event "recancel"):
        for the sequential model this is the send event right after the cancel event"""
        t, key_none, specs = self.reenter
        self.reenter = None
        sid = self.nsid
        key, msgs = make_key(sid, key_none), make_msgs(sid, specs)
        self.sends[sid] = (key, msgs)
        self.nsid += 1
        mev2 = [1, t, 0, len(msgs), sum(len(m) for m in msgs if m is not None)]
        self.split_step(mev2, sync_result=False)
        self.send_ev[len(self.events)] = sid
        d = self.producer.send_messages(TOPICS[t], key=key, msgs=msgs)
        self.send_d[sid] = d
        d.addCallbacks(*self.outcome_cb(sid))

    def snapshot(self):
        """what an outside observer can tell after an event: is the producer waiting on anything it asked its
        client / reactor for (request, version lookup, metadata loads, retry timers), which callers are still
        waiting, is the periodic timer armed"""
        c = self.client
        loads = [lid for lid, d in sorted(getattr(c, "loads", {}).items()) if not d.called]
        timers = [tid for tid, dc in sorted(self.clock.timers.items()) if dc in self.clock.calls]
        req = getattr(c, "request", None) is not None and not c.request[0].called
        ver = getattr(c, "version_d", None) is not None and not c.version_d.called
        return {"busy": bool(loads or timers or req or ver), "loads": loads, "timers": timers, "req": bool(req), "ver": bool(ver),
                "unresolved": [sid for sid, d in sorted(self.send_d.items()) if not d.called],
                "looper": any(dc in self.clock.calls for dc in self.clock.looper_calls)}

    def _apply(self, ev):
        from twisted.python.failure import Failure
        op = ev[0]
        c = self.client
        if op == "send":
            _op, sid, t, key_none, specs = ev
            key, msgs = make_key(sid, key_none), make_msgs(sid, specs)
            self.sends[sid] = (key, msgs)
            assert sid == self.nsid, "send ids are handed out in order"
            self.nsid += 1
            mev = [1, t, 0, len(msgs), sum(len(m) for m in msgs if m is not None)]
            self.cur_event = mev
            self.send_ev[len(self.events)] = sid
            d = self.producer.send_messages(TOPICS[t], key=key, msgs=msgs)
            self.send_d[sid] = d
            d.addCallbacks(*self.outcome_cb(sid))
            return mev
        if op == "badsend":
            _op, sid, which = ev
            assert sid == self.nsid, "send ids are handed out in order"
            self.nsid += 1
            mev = [2, K_VALUE if which == "empty" else K_TYPE]
            self.cur_event = mev
            if which == "topic":
                d = self.producer.send_messages(b"bytes-topic", msgs=[b"x"])
            elif which == "key":
                d = self.producer.send_messages(TOPICS[0], key="text-key", msgs=[b"x"])
            elif which == "empty":
                d = self.producer.send_messages(TOPICS[0], msgs=[])
            else:
                d = self.producer.send_messages(TOPICS[0], msgs=[b"ok", "text-message"])
            d.addCallbacks(*self.outcome_cb(sid))
            return mev
        if op == "cancel":
            mev = [3, ev[1]]
            self.cur_event = mev
            d = self.send_d.get(ev[1])
            if d is not None:
                d.cancel()
            return mev
        if op == "recancel":      # cancel(sid) by an application whose errback submits a new send re-entrantly
            _op, sid, t, key_none, specs = ev
            mev = [3, sid]
            self.cur_event = mev
            d = self.send_d.get(sid)
            if d is not None and not d.called:
                self.reenter, self.reenter_sid = (t, key_none, specs), sid
                d.cancel()
                self.reenter = None
            elif d is not None:
                d.cancel()
            return mev
        if op == "tick":
            mev = [4]
            self.cur_event = mev
            live = [dc for dc in self.clock.looper_calls if dc in self.clock.calls]
            if live:
                self.clock.fire(live[0])
            return mev
        if op == "metaset":
            _op, t, err, hp = ev
            self.cur_event = mev = [5, t, err, 1 if hp else 0]
            self.set_cache(t, err, hp)
            return mev
        if op == "metaclearall":
            self.cur_event = mev = [6]
            c.topic_partitions.clear()
            c.topic_errors.clear()
            return mev
        if op == "loaddone":
            _op, lid, ok, kind = ev
            self.cur_event = mev = [7, lid, 1 if ok else 0, kind]
            d = c.loads.get(lid)
            if d is not None and not d.called:
                if ok:
                    d.callback(True)
                else:
                    d.errback(Failure(exc_of_kind(kind)))
            return mev
        if op == "timer":
            self.cur_event = mev = [8, ev[1]]
            dc = self.clock.timers.get(ev[1])
            if dc is not None:
                self.clock.fire(dc)
            return mev
        if op == "version":
            r = ev[1]
            self.cur_event = mev = [9, r]
            d = c.version_d
            if d is not None and not d.called:
                c.version_d = None
                if r == 0:
                    c._api_versions = 0
                    d.callback(0)
                elif r == 1:
                    from afkak.common import ApiVersion
                    c._api_versions = [ApiVersion(0, 0, 3), ApiVersion(1, 0, 4)]
                    d.callback(3)
                else:
                    d.errback(Failure(exc_of_kind(r)))
            return mev
        if op == "result":
            v = ev[1]
            self.cur_event = mev = [10] + self.value_ints(v)
            if c.request is not None and not c.request[0].called and self.value_ok(v):
                d = c.request[0]
                c.request = None
                self.result_applied = True
                self.fire_value(d, v)
            return mev
        if op == "resultomit":
            v = ev[1]
            self.cur_event = mev = [12] + self.value_ints(v)
            if c.request is not None and not c.request[0].called and self.value_omit_ok(v):
                d = c.request[0]
                c.request = None
                self.result_applied = True
                if self.dishonest_at is None:
                    self.dishonest_at = len(self.events)
                self.fire_value(d, v)
            return mev
        if op == "broken":
            self.cur_event = mev = [13, 1 if ev[1] else 0]
            c.broken = bool(ev[1])
            if ev[1] and self.dishonest_at is None:
                self.dishonest_at = len(self.events)
            return mev
        if op == "stop":
            v = ev[1]
            self.cur_event = mev = [11] + ([-1] if v is None else self.value_ints(v))
            if v is not None and not self.value_ok(v):
                v = None
                mev[:] = [11, -1]
            c.cancel_value = v
            req = c.request
            self.producer.stop()
            c.cancel_value = None
            if req is not None and req[0].called and c.request is req:
                c.request = None
            vd = c.version_d
            if vd is not None and vd.called:
                c.version_d = None
            return mev
        raise AssertionError(ev)

    # payloads of the outstanding request (ProduceRequest objects), needed to build FailedPayloadsError
    @property
    def last_payloads(self):
        return self._last_payloads


def _patch_last_payloads():
    orig = StubClient.send_produce_request

    def send_produce_request(self, payloads, *a, **kw):
        self.run._last_payloads = list(payloads)
        return orig(self, payloads, *a, **kw)
    StubClient.send_produce_request = send_produce_request


_patch_last_payloads()


# ------------------------------------------------------------------ seeded, state-aware generator
ERRS = [3, 6, 7, 5, 2, 10, 1, -1, 19, 200]


def gen_cfg(rnd):
    ntop = rnd.choice([1, 1, 2, 2, 3])
    nparts = {t: rnd.choice([1, 2, 3]) for t in range(ntop)}
    cache = []
    for t in range(ntop):
        r = rnd.random()
        if r < 0.6:
            cache.append((t, 0, True))
        elif r < 0.7:
            cache.append((t, 5, True))
        elif r < 0.75:
            cache.append((t, 0, False))
        elif r < 0.8:
            cache.append((t, 3, False))
    batch = rnd.random() < 0.7
    cfg = dict(acks=rnd.choice([1, 1, -1, 0]), batch=batch,
               n=rnd.choice([0, 1, 2, 3, 3, 5, 8, -1]) if rnd.random() < 0.95 else rnd.randint(1, 12),
               b=rnd.choice([0, 0, 1, 20, 60, 200, 6000]), t=rnd.choice([None, 0, 5, 5, 0.5, 30]),
               max=rnd.choice([1, 2, 3, 3, 5]), api=rnd.choice([0, 1, 1, 2, 2]), codec=rnd.choice([None, None, 0, 1]),
               retry_interval=rnd.choice([0.25, 0.25, 0.1, 2.0]), partitioner=rnd.choice(["rr", "rr", "hashed", "scripted"]),
               ntop=ntop, nparts=nparts, cache=cache, script={})
    return cfg


def gen_value(rnd, run, for_cancel=False):
    """a contract value for the outstanding request"""
    cur = sorted((TOPICS.index(t), p) for (t, p) in run.client.request[1])
    acks = run.cfg["acks"]
    r = rnd.random()

    def resp(tp):
        e = 0 if rnd.random() < 0.6 else rnd.choice(ERRS)
        return (tp[0], tp[1], e, rnd.randint(0, 9999) if e == 0 else -1)
    fk = lambda: rnd.choice([K_TIDCANCEL, K_CONNDONE, K_CONNLOST, K_BROKER + 7, K_AFKAKCONN, K_RUNTIME])
    if for_cancel:
        if r < 0.5:
            if acks == 0:
                return ("failed", [], [(t, p, K_TIDCANCEL) for (t, p) in cur])
            k = rnd.randint(0, len(cur) - 1)
            sh = list(cur)
            rnd.shuffle(sh)
            return ("failed", [resp(tp) for tp in sh[:k]], [(t, p, K_TIDCANCEL) for (t, p) in sh[k:]])
        r = rnd.random()
    if acks == 0:
        if r < 0.55:
            return ("empty", rnd.choice([None, [], False]))
        if r < 0.8:
            k = rnd.randint(1, len(cur))
            return ("failed", [], [(t, p, fk()) for (t, p) in rnd.sample(cur, k)])
    else:
        if r < 0.35:
            return ("resp", [(t, p, 0, rnd.randint(0, 9999)) for (t, p) in cur])
        if r < 0.6:
            sh = list(cur)
            rnd.shuffle(sh)
            return ("resp", [resp(tp) for tp in sh])
        if r < 0.8:
            sh = list(cur)
            rnd.shuffle(sh)
            k = rnd.randint(0, len(cur) - 1)
            return ("failed", [resp(tp) for tp in sh[:k]], [(t, p, fk()) for (t, p) in sh[k:]])
        if r < 0.84:
            return ("empty", rnd.choice([None, [], False]))
    if rnd.random() < 0.65:
        return ("kafka", rnd.choice([K_KUNAVAIL, K_LEADERUNAVAIL, K_LEADERUNAVAIL, K_PARTUNAVAIL, K_AFKAKCONN, K_BROKER + 7, K_OTHERKAFKA]))
    return ("other", rnd.choice([K_TIDCANCEL, K_RUNTIME, K_CONNDONE, K_TYPE, K_OTHER]))


def gen_send(rnd, run):
    cfg = run.cfg
    sid = run.nsid
    t = rnd.randrange(cfg["ntop"])
    n = rnd.choice([1, 1, 1, 2, 2, 3, 4])
    specs = []
    for _ in range(n):
        r = rnd.random()
        specs.append("n" if r < 0.1 else "e" if r < 0.17 else 5000 if r < 0.2 else rnd.randint(6, 40))
    key_none = cfg["partitioner"] == "rr" and rnd.random() < 0.4
    if key_none:
        specs = [s if isinstance(s, int) else 8 for s in specs]
    if cfg["partitioner"] == "scripted":
        r = rnd.random()
        if cfg.get("sync"):
            r = 1.0     # a partitioner failure is reported after the batch's produce request was handed over (see gen_event)
        cfg["script"][make_key(sid, False)] = "raise" if r < 0.06 else "out" if r < 0.1 else rnd.randint(0, 2)
    return ("send", sid, t, key_none, specs)


def pending(run):
    c = run.client
    loads = [lid for lid, d in sorted(c.loads.items()) if not d.called]
    timers = [tid for tid, dc in sorted(run.clock.timers.items()) if dc in run.clock.calls]
    req = c.request is not None and not c.request[0].called
    ver = getattr(c, "version_d", None) is not None and not c.version_d.called
    outst = [sid for sid, d in sorted(run.send_d.items()) if not d.called]
    looper = any(dc in run.clock.calls for dc in run.clock.looper_calls)
    return loads, timers, req, ver, outst, looper


def gen_event(rnd, run, stopped):
    cfg = run.cfg
    loads, timers, req, ver, outst, looper = pending(run)
    opts = []
    opts.append((30 if not stopped else 6, lambda: gen_send(rnd, run)))
    opts.append((1.5, lambda: ("badsend", run.nsid, rnd.choice(["topic", "key", "empty", "msgtype"]))))
    if outst:
        opts.append((7, lambda: ("cancel", rnd.choice(outst))))
    if run.nsid:
        opts.append((1.2, lambda: ("cancel", rnd.randrange(run.nsid + 1))))
    opts.append((9 if looper else 0.7, lambda: ("tick",)))
    if not cfg.get("sync"):
        # (with synchronous client results the metadata is kept stable: a send whose partition lookup fails gets its
        # outcome AFTER the produce request of its batch was handed over, i.e. after a synchronous result was handled;
        # the sequential model puts both in the step of the event - an ordering the split of the step would expose)
        opts.append((4, lambda: ("metaset", rnd.randrange(cfg["ntop"]),) + rnd.choice([(0, True), (0, True), (0, True), (5, True), (3, False), (0, False), (6, True)])))
        opts.append((0.8, lambda: ("metaclearall",)))
    if loads:
        def ld():
            lid = rnd.choice(loads)
            return ("loaddone", lid, True, 0) if rnd.random() < 0.85 else ("loaddone", lid, False, rnd.choice([K_KUNAVAIL, K_KUNAVAIL, K_RUNTIME]))

        def fix():
            # the usual course of a load: the cache is filled, then the Deferred fires
            return ("metaset", rnd.randrange(cfg["ntop"]), 0, True)
        opts.append((22, ld))
        opts.append((12, fix))
    if run.client.nload if hasattr(run.client, "nload") else False:
        opts.append((0.8, lambda: ("loaddone", rnd.randrange(run.client.nload + 1), True, 0)))
    if timers:
        opts.append((22, lambda: ("timer", rnd.choice(timers))))
    if run.clock.ntimer:
        opts.append((0.8, lambda: ("timer", rnd.randrange(run.clock.ntimer + 1))))
    if ver:
        opts.append((30, lambda: ("version", rnd.choice([0, 1, 1, 1, 0, K_TIDCANCEL, K_CANCEL + 0, K_RUNTIME]) if rnd.random() < 0.3 else rnd.choice([0, 1]))))
    else:
        opts.append((0.4, lambda: ("version", rnd.choice([0, 1, K_RUNTIME]))))
    if req:
        opts.append((34, lambda: ("result", gen_value(rnd, run))))
    else:
        opts.append((0.8, lambda: ("result", rnd.choice([("empty", None), ("kafka", K_KUNAVAIL), ("other", K_RUNTIME), ("resp", [(0, 0, 0, 1)])]))))
    if req and len(run.client.request[1]) >= 2 and cfg["acks"] != 0 and cfg.get("dishonest", True):
        def om():
            cur = sorted((TOPICS.index(t), p) for (t, p) in run.client.request[1])
            keep = rnd.sample(cur, rnd.randint(1, len(cur) - 1))
            if rnd.random() < 0.7:
                return ("resultomit", ("resp", [(t, p, 0 if rnd.random() < 0.7 else rnd.choice(ERRS), rnd.randint(0, 99)) for (t, p) in keep]))
            k = rnd.randint(1, len(keep))
            return ("resultomit", ("failed", [(t, p, 0, rnd.randint(0, 99)) for (t, p) in keep[k:]], [(t, p, K_CONNLOST) for (t, p) in keep[:k]]))
        opts.append((2.0, om))
    if cfg.get("dishonest", True):
        if getattr(run.client, "broken", False):
            opts.append((3.0, lambda: ("broken", False)))
        else:
            opts.append((0.5, lambda: ("broken", True)))
    if cfg.get("reenter") and outst:
        def rc():
            _s, _sid, t, key_none, specs = gen_send(rnd, run)     # also scripts the partitioner choice of the new send
            return ("recancel", rnd.choice(outst), t, key_none, specs)
        opts.append((cfg["reenter"], rc))
    if cfg.get("sync") and len(getattr(run.client, "sync_plans", [0, 0])) < 2:
        def sy():
            r = rnd.random()
            if r < 0.3:
                return ("syncnext", "ok", 0)
            if r < 0.55:
                return ("syncnext", "kafka", 0)
            if r < 0.75:
                return ("syncnext", "failed", rnd.choice([K_CONNLOST, K_CONNDONE, K_AFKAKCONN]))
            if r < 0.9:
                return ("syncnext", "errcode", rnd.choice(ERRS))
            return ("syncnext", "partial", 0)
        opts.append((cfg["sync"], sy))
    if not stopped:
        def st():
            if req and rnd.random() < 0.5:
                return ("stop", gen_value(rnd, run, for_cancel=True))
            return ("stop", None)
        opts.append((2.5, st))
    else:
        opts.append((3, lambda: ("stop", None)))
    tot = sum(w for w, _ in opts)
    x = rnd.random() * tot
    for w, f in opts:
        x -= w
        if x <= 0:
            return f()
    return opts[0][1]()


def gen_run(rnd, cfg=None, nev=None, client_factory=None, run_cls=None):
    cfg = cfg or gen_cfg(rnd)
    run = (run_cls or ImplRun)(cfg, client_factory) if client_factory else (run_cls or ImplRun)(cfg)
    nev = nev or rnd.choice([4, 8, 12, 16, 24, 32, 48])
    stopped = False
    pyevents = []
    tail = None
    for _ in range(nev):
        ev = gen_event(rnd, run, stopped)
        pyevents.append(ev)
        run.apply(ev)
        if ev[0] == "stop" and not stopped:
            stopped = True
            tail = rnd.randint(0, 6)
        if tail is not None:
            tail -= 1
            if tail < 0:
                break
    run.pyevents = pyevents
    return run


def replay_run(cfg, pyevents, client_factory=None, run_cls=None):
    cfg = dict(cfg)
    cfg["nparts"] = {int(k): v for k, v in cfg.get("nparts", {}).items()}
    cfg["script"] = {(k.encode() if isinstance(k, str) else k): v for k, v in cfg.get("script", {}).items()}
    run = (run_cls or ImplRun)(cfg, client_factory) if client_factory else (run_cls or ImplRun)(cfg)
    for ev in pyevents:
        run.apply(tuple(_tuplify(ev)))
    run.pyevents = pyevents
    return run


def _tuplify(x):
    if isinstance(x, list):
        return tuple(_tuplify(y) for y in x)
    return x
