# C17 - a started group member always progresses.  Drives the REAL afkak._group.Coordinator / ConsumerGroup
# (harness/props/group_lib.py: recording task.Clock, scripted stand-in client, stub partition Consumer) and the extracted
# Gallina model coq/Model/Group.v on the same event histories; compares output traces and per-step observation vectors;
# runs monitors restating the theorems of coq/Props/C17.v on the implementation's own behaviour.
import random

import vlib
from props import group_lib as GL
from props.group_lib import (E_CFAIL, E_FIRE, E_HBREPLY, E_JOIN, E_LEAVE, E_LOOKUP, E_META, E_PARTS, E_START, E_STOP, E_SYNC, K_CANCELLED,
                             K_CNA, K_NONKAFKA, K_NOTCOORD, K_OTHERKAFKA, O_API, O_SCHED, O_STARTD)

MODEL = "group"
MODULE = "Model.GroupObs"
TIED = ["C17_never_idle", "C17_never_idle_flag", "C17_stable_means_heartbeating", "C17_rejoin_timer_real", "C17_retriable_rejoins", "C17_timer_starts_join", "C17_any_timer_starts_join", "C17_join_failure_is_rejoin_after_error",
        "C17_sync_failure_is_rejoin_after_error", "C17_metadata_failure_is_rejoin_after_error", "C17_partition_lookup_failure_is_rejoin_after_error",
        "C17_heartbeat_failure_is_rejoin_after_error",
        "C17_lookup_failure_retried", "C17_coordinator_forgotten", "C17_settles_partial", "C17_owed_event_progress", "C17_fatal_surfaces", "C17_fatal_surfaces_after_leave"]


# ------------------------------------------------------------------ monitors (theorem statements over the implementation's own run)
def monitor(kind, steps):
    """returns (list of failures, facts).  Uses only: what the driver delivered, the recorded outputs, the observation vector."""
    bad, facts = [], {"idle_after_escape": 0, "retriable_checked": 0, "fatal_checked": 0, "idle_checked": 0, "lookup_retry_checked": 0}
    started = user_stop = escaped = internal_stop = False
    rn_est = True           # the member needs a (re)join: start, or a Kafka error passed rejoin_after_error since the last successful sync
    fatal_k = None
    for i, st in enumerate(steps):
        ev, out, obs = st["ev"], st["out"], st["obs"]
        c = ev[0]
        if c == E_START and (O_API, 0) in out and not started:
            started = True
        if c == E_STOP and started:
            user_stop = True
        live = started and not user_stop and not internal_stop
        scheds = [o for o in out if o[0] == O_SCHED and o[1] == 0]
        if scheds or any(o[0] == GL.O_LOOKUP for o in out):
            escaped = False     # as the model's ghost: a join_and_sync call armed / a generator started since the escape

        def expect_retry(k, what):
            nonlocal rn_est
            rn_est = True
            facts["retriable_checked"] += 1
            want = GL.doc_delay(k)
            if obs[2] < 1:
                bad.append((i, "C17_retriable_rejoins: %s failed with %s and no join_and_sync call is pending afterwards" % (what, GL.KIND_NAMES[k])))
            for o in scheds:
                if o[2] != want:
                    bad.append((i, "C17_retriable_rejoins: %s failed with %s: rejoin scheduled with delay kind %d, documented %d" % (what, GL.KIND_NAMES[k], o[2], want)))
            if st["timers_before"] == 0 and not scheds:
                bad.append((i, "C17_retriable_rejoins: %s failed with %s and nothing was scheduled" % (what, GL.KIND_NAMES[k])))
            if k in (K_CNA, K_NOTCOORD, GL.K_TIMEOUT) and not any(o[0] == GL.O_RESET for o in out):
                bad.append((i, "C17_coordinator_forgotten: %s failed with %s and the cached coordinator was not reset: the rejoin will go to the same broker" % (what, GL.KIND_NAMES[k])))

        def expect_fatal(k, what):
            facts["fatal_checked"] += 1
            ok_now = any(o[0] == O_STARTD and o[2] == 100 + k for o in out)
            if not ok_now and obs[5] < 1:
                bad.append((i, "C17_fatal_surfaces: %s failed with %s: start() Deferred did not fail and no LeaveGroup is in flight" % (what, GL.KIND_NAMES[k])))
            return None if ok_now else k

        if st["delivered"] and live:
            res = ev[2] if c in (E_LOOKUP, E_META, E_JOIN, E_PARTS, E_SYNC, E_HBREPLY) else None
            k = (res - 100) if (res is not None and res >= 100) else None
            if c in (E_JOIN, E_SYNC) and k is not None or (c == E_HBREPLY and k is not None and st["hb_before"]):
                what = GL.EV_NAMES[c]
                if k <= K_OTHERKAFKA:
                    expect_retry(k, what)
                else:
                    internal_stop, fatal_k = True, expect_fatal(k, what)
            elif c in (E_META, E_PARTS) and k is not None:
                if k <= K_OTHERKAFKA:
                    expect_retry(k, GL.EV_NAMES[c])
                else:
                    escaped = True
            elif c == E_SYNC and res == 2:
                expect_retry(K_OTHERKAFKA, "SyncReply (undecodable assignment, ProtocolError)")
            elif (c == E_SYNC and (res == 1 or 10 <= res < 100)) or (c == E_PARTS and res == 1) or (c == E_JOIN and res == 0 and ev[5] == 2):
                escaped = True
            elif c == E_LOOKUP and res != 0:
                if res == 1 or k <= K_OTHERKAFKA:
                    facts["lookup_retry_checked"] += 1
                    want = 0 if (res == 1 or k in (K_CNA, K_NOTCOORD)) else 2
                    if [o[2] for o in scheds] != [want]:
                        bad.append((i, "C17_lookup_failure_retried: lookup result %s: scheduled %r, documented delay kind %d" % (res, scheds, want)))
                else:
                    escaped = True
            elif c == E_CFAIL:
                k = ev[2]
                if k <= K_OTHERKAFKA:
                    expect_retry(k, "partition consumer")
                elif k == K_NONKAFKA:
                    internal_stop, fatal_k = True, expect_fatal(k, "partition consumer")
                # CancelledError of a consumer: fatal unless the group holds no consumer (not observable without the table): not checked
                elif k == K_CANCELLED and any(o[0] in (GL.O_LEAVE, O_STARTD) for o in out):
                    # (ignored when the group holds no consumer: then nothing is output) - otherwise fatal like any non-Kafka error
                    internal_stop, fatal_k = True, expect_fatal(k, "partition consumer")
        elif st["delivered"] and internal_stop and not user_stop and c == E_LEAVE and fatal_k is not None:
            if not any(o[0] == O_STARTD and o[2] == 100 + fatal_k for o in out):
                bad.append((i, "C17_fatal_surfaces_after_leave: LeaveGroup exchange ended, start() Deferred did not fail with %s" % GL.KIND_NAMES[fatal_k]))
            fatal_k = None
        # never idle (a member that stopped itself after a fatal error is not restartable: start() after stop() is inert,
        # C17_never_idle's hypothesis `stopping = false` excludes it)
        if st["delivered"] and c == E_SYNC and (ev[2] == 0 or 10 <= ev[2] < 100) and any(o[0] == O_SCHED and o[1] == 1 for o in out):
            rn_est = False      # successful sync: the heartbeat looper was (re)started
        if started and not user_stop and not internal_stop and obs[0] == 1:
            # a heartbeat looper that is armed counts only for a member that needs no rejoin (it skips its ticks otherwise)
            active = obs[1] > 0 or obs[2] > 0 or (obs[3] == 1 and not rn_est) or obs[5] > 0 or obs[7] > 0
            if escaped:
                facts["idle_after_escape"] += 0 if active else 1
            else:
                facts["idle_checked"] += 1
                if not active:
                    bad.append((i, "C17_never_idle: start() Deferred outstanding, stop() not called, nothing in flight, no heartbeat, nothing scheduled"))
    return bad, facts


# ------------------------------------------------------------------ the check
def run(ck):
    vlib.import_repo()
    ck.build([MODEL])
    ck.props()
    thorough = ck.tier == "thorough"
    run_case = GL.check_histories(ck, monitor, TIED)
    GL.run_sync_stream(ck, 4000 if ck.tier == "thorough" else 250)

    # ---- residual finding F-C17-2: replay the witness of C17_nonkafka_idle_refuted on the real code
    wk, wev, _ = GL.corpus_cases()[0]
    _, wtr, _, wsteps = run_case(wk, wev)
    o = wsteps[-1]["obs"]
    idle = o[0] == 1 and o[1] == 0 and o[2] == 0 and o[3] == 0 and o[5] == 0
    # second face (witness of C17_constructor_raises_refuted): a Consumer constructor raises inside on_join_complete - the member is
    # "joined" and heartbeating, consumes 1 of its 3 partitions, start() Deferred outstanding, nothing surfaces
    w2k, w2ev, _ = GL.corpus_cases()[-1]
    _, w2tr, _, w2steps = run_case(w2k, w2ev)
    o2 = w2steps[-1]["obs"]
    partial = o2[0] == 1 and o2[3] == 1 and o2[6] == 1 and o2[1] == 0 and o2[2] == 0
    ck.cov["F-C17-2_faces_observed"] = {"idle_after_metadata_ValueError": bool(idle), "joined_with_partial_consumers_after_constructor_TypeError": bool(partial)}
    ck.finding("F-C17-2", idle or partial, "non-Kafka exception escaping _join_and_sync is only logged: (a) metadata load raising ValueError - start() "
               "Deferred outstanding, nothing in flight, nothing scheduled, no heartbeat [%s]; (b) Consumer constructor raising inside on_join_complete - member joined "
               "and heartbeating with part of its assignment unconsumed, start() Deferred outstanding [%s]"
               % ("observed" if idle else "not observed", "observed" if partial else "not observed"), {"events": wev, "case_kind": wk,
               "impl_trace": GL.pretty_trace(wk, wev, wtr), "obs": o, "second_face_events": w2ev, "second_face_trace": GL.pretty_trace(w2k, w2ev, w2tr),
               "second_face_obs": o2, "replay_op": "history"})

    if thorough:
        ck.coqchk(["AV.Props.C17"])
    ck.assumptions += [
        "coq/Model/Group.v is a hand-written transcription of afkak/_group.py:50-538,673-901 (tie = this run's trace + observation correspondence, not a proof)",
        "the partition Consumer is represented by its contract (constructor may raise; start/shutdown/stop Deferreds) - stub in harness/props/group_lib.py; the KafkaClient by a scripted stand-in whose Deferreds the driver fires; already-fired Deferreds are outside the model (consumers failing before start() returns are run implementation-side only, in the closed loop)",
        "Twisted inlineCallbacks / LoopingCall / DeferredList semantics as summarised at the top of Model/Group.v (exercised, not verified)",
        "timer delays: the model carries WHICH documented delay; the driver checks the float passed to callLater bit for bit against attr/1000.0 on every history",
        "progress of a generator that waits for the client or for consumers to shut down rests on C11 (every request ends) and C13 (the shutdown Deferred fires)",
        "C17_never_idle requires that NO event of the history makes a non-Kafka exception escape _join_and_sync (benign evs; finding F-C17-2, two faces) and says nothing after stop() - also not about a member restarted after a completed stop(), which is inert; C17_retriable_rejoins / C17_fatal_surfaces are about the functions rejoin_after_error / fatal, the five *_is_rejoin_after_error theorems tie the failed replies to them",
        "bounded rejoin once faults cease is a MONITOR (honest-coordinator closed loop, 80 fair steps), not a theorem; the proved part is in event-order form (an armed call starts the join when the reactor fires it)",
        "the honest coordinator is a 60-line reading of the Kafka group protocol (member table, generation counter, UNKNOWN_MEMBER_ID / ILLEGAL_GENERATION / REBALANCE_IN_PROGRESS); client.py's partition-lookup retry loop is not executed: its outcome is an event",
    ]
    ck.cov["trusted_base"] += ["harness/props/C17.py (monitors)"]


def replay(rp):
    return GL.replay_history(rp, monitor)
