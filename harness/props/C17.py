# C17 - a started group member always progresses.  Drives the REAL afkak._group.Coordinator / ConsumerGroup
# (harness/props/group_lib.py: recording task.Clock, scripted stand-in client, stub partition Consumer) and the extracted
# Gallina model coq/Model/Group.v on the same event histories; compares output traces and per-step observation vectors;
# runs monitors restating the theorems of coq/Props/C17.v on the implementation's own behaviour.
import random

import vlib
from props import group_lib as GL
from props.group_lib import (E_CFAIL, E_FIRE, E_HBREPLY, E_JOIN, E_LEAVE, E_LOOKUP, E_META, E_PARTS, E_START, E_STOP, E_SYNC, K_CANCELLED,
                             K_CNA, K_NONKAFKA, K_NOTCOORD, K_OTHERKAFKA, O_API, O_SCHED, O_STARTD)

MODEL = "group"
MODULE = "Model.GroupObs"
TIED = ["C17_never_idle", "C17_stable_means_heartbeating", "C17_rejoin_timer_real", "C17_retriable_rejoins", "C17_timer_starts_join",
        "C17_lookup_failure_retried", "C17_fatal_surfaces", "C17_fatal_surfaces_after_leave"]


# ------------------------------------------------------------------ monitors (theorem statements over the implementation's own run)
def monitor(kind, steps):
    """returns (list of failures, facts).  Uses only: what the driver delivered, the recorded outputs, the observation vector."""
    bad, facts = [], {"idle_after_escape": 0, "retriable_checked": 0, "fatal_checked": 0, "idle_checked": 0, "lookup_retry_checked": 0}
    started = user_stop = escaped = internal_stop = False
    fatal_k = None
    for i, st in enumerate(steps):
        ev, out, obs = st["ev"], st["out"], st["obs"]
        c = ev[0]
        if c == E_START and (O_API, 0) in out and not started:
            started = True
        if c == E_STOP and started:
            user_stop = True
        live = started and not user_stop and not internal_stop
        scheds = [o for o in out if o[0] == O_SCHED and o[1] == 0]

        def expect_retry(k, what):
            facts["retriable_checked"] += 1
            want = GL.doc_delay(k)
            if obs[2] < 1:
                bad.append((i, "C17_retriable_rejoins: %s failed with %s and no join_and_sync call is pending afterwards" % (what, GL.KIND_NAMES[k])))
            for o in scheds:
                if o[2] != want:
                    bad.append((i, "C17_retriable_rejoins: %s failed with %s: rejoin scheduled with delay kind %d, documented %d" % (what, GL.KIND_NAMES[k], o[2], want)))
            if st["timers_before"] == 0 and not scheds:
                bad.append((i, "C17_retriable_rejoins: %s failed with %s and nothing was scheduled" % (what, GL.KIND_NAMES[k])))

        def expect_fatal(k, what):
            facts["fatal_checked"] += 1
            ok_now = any(o[0] == O_STARTD and o[2] == 100 + k for o in out)
            if not ok_now and obs[5] < 1:
                bad.append((i, "C17_fatal_surfaces: %s failed with %s: start() Deferred did not fail and no LeaveGroup is in flight" % (what, GL.KIND_NAMES[k])))
            return None if ok_now else k

        if st["delivered"] and live:
            res = ev[2] if c in (E_LOOKUP, E_META, E_JOIN, E_PARTS, E_SYNC, E_HBREPLY) else None
            k = (res - 100) if (res is not None and res >= 100) else None
            if c in (E_JOIN, E_SYNC) and k is not None or (c == E_HBREPLY and k is not None and st["hb_before"]):
                what = GL.EV_NAMES[c]
                if k <= K_OTHERKAFKA:
                    expect_retry(k, what)
                else:
                    internal_stop, fatal_k = True, expect_fatal(k, what)
            elif c in (E_META, E_PARTS) and k is not None:
                if k <= K_OTHERKAFKA:
                    expect_retry(k, GL.EV_NAMES[c])
                else:
                    escaped = True
            elif c == E_SYNC and res == 2:
                expect_retry(K_OTHERKAFKA, "SyncReply (undecodable assignment, ProtocolError)")
            elif (c == E_SYNC and res == 1) or (c == E_PARTS and res == 1) or (c == E_JOIN and res == 0 and ev[5] == 2):
                escaped = True
            elif c == E_LOOKUP and res != 0:
                if res == 1 or k <= K_OTHERKAFKA:
                    facts["lookup_retry_checked"] += 1
                    want = 0 if (res == 1 or k in (K_CNA, K_NOTCOORD)) else 2
                    if [o[2] for o in scheds] != [want]:
                        bad.append((i, "C17_lookup_failure_retried: lookup result %s: scheduled %r, documented delay kind %d" % (res, scheds, want)))
                else:
                    escaped = True
            elif c == E_CFAIL:
                k = ev[2]
                others = [x for x in steps[i - 1]["running"]] if i else []
                if k <= K_OTHERKAFKA:
                    expect_retry(k, "partition consumer")
                elif k == K_NONKAFKA:
                    internal_stop, fatal_k = True, expect_fatal(k, "partition consumer")
                # CancelledError of a consumer: fatal unless the group holds no consumer (not observable without the table): not checked
                elif k == K_CANCELLED:
                    internal_stop = True
        elif st["delivered"] and internal_stop and not user_stop and c == E_LEAVE and fatal_k is not None:
            if not any(o[0] == O_STARTD and o[2] == 100 + fatal_k for o in out):
                bad.append((i, "C17_fatal_surfaces_after_leave: LeaveGroup exchange ended, start() Deferred did not fail with %s" % GL.KIND_NAMES[fatal_k]))
            fatal_k = None
        # never idle (a member that stopped itself after a fatal error is not restartable: start() after stop() is inert,
        # C17_never_idle's hypothesis `stopping = false` excludes it)
        if started and not user_stop and not internal_stop and obs[0] == 1:
            active = obs[1] > 0 or obs[2] > 0 or obs[3] == 1 or obs[5] > 0 or obs[7] > 0
            if escaped:
                facts["idle_after_escape"] += 0 if active else 1
            else:
                facts["idle_checked"] += 1
                if not active:
                    bad.append((i, "C17_never_idle: start() Deferred outstanding, stop() not called, nothing in flight, no heartbeat, nothing scheduled"))
    return bad, facts


def run_case(kind, evs):
    line = GL.encode_case(kind, evs)
    tr, problems, steps = GL.run_impl_steps(line)
    return line, tr, problems, steps


def is_bad(kind, evs):
    _, _, problems, steps = run_case(kind, evs)
    return bool(monitor(kind, steps)[0])


# ------------------------------------------------------------------ the check
def run(ck):
    vlib.import_repo()
    ck.build([MODEL])
    ck.props()
    rnd = random.Random(ck.seed)
    thorough = ck.tier == "thorough"
    n_gen = 12000 if thorough else 700
    histories = [(k, evs, "corpus") for k, evs in GL.corpus_cases()]
    for _ in range(n_gen):
        kind, evs, _, _ = GL.gen_history(rnd)
        histories.append((kind, evs, "generated"))
    if thorough:
        for kind, depth in ((1, 8), (0, 8)):
            for evs in GL.enumerate_small_scope(kind, depth, limit=60000):
                histories.append((kind, evs, "exhaustive-depth-%d" % depth))

    cases, impl_tr, impl_obs, meta = [], [], [], []
    totals = {}
    nviol = 0
    for kind, evs, origin in histories:
        line, tr, problems, steps = run_case(kind, evs)
        cases.append(line)
        impl_tr.append(tr)
        impl_obs.append(GL.flatten_obs(steps))
        meta.append((kind, evs, origin))
        ck.hist("origin:" + origin)
        ck.hist("kind:" + ("ConsumerGroup" if kind == 1 else "Coordinator"))
        for ev in evs:
            ck.hist("ev:" + GL.EV_NAMES.get(ev[0], "?"))
            if ev[0] in (E_LOOKUP, E_META, E_JOIN, E_PARTS, E_SYNC, E_HBREPLY, E_LEAVE) and ev[2] >= 100:
                ck.hist("fail:" + GL.KIND_NAMES[ev[2] - 100])
        bad, facts = monitor(kind, steps)
        for k, v in facts.items():
            totals[k] = totals.get(k, 0) + v
        for p in problems:
            bad.append((-1, "outside the event/observable alphabet: " + p))
        if bad and nviol < 3:
            nviol += 1
            small = GL.shrink_events(kind, evs, is_bad)
            l2, t2, p2, s2 = run_case(kind, small)
            ck.violation({"kind": "monitor", "failures": monitor(kind, s2)[0] or bad, "case_kind": kind, "events": small,
                          "impl_trace": GL.pretty_trace(kind, small, t2), "case_line": l2, "origin": origin, "replay_op": "history"})
        elif bad:
            ck.violation({"kind": "monitor", "failures": bad[:3], "case_kind": kind, "events": evs, "case_line": line, "replay_op": "history"})

    describe = lambda c: {"kind": c[0], "events": GL.pretty_trace(*GL.parse_events(c), tr=[])[:400] if False else c[:60]}
    nontrivial = lambda c, o: sum(1 for x in o if x == -1) >= 4 and any(x in (8, 13) for x in o)
    diffs, mo = ck.correspond(MODEL, MODULE, cases, impl_tr, "output trace of the real Coordinator/ConsumerGroup vs Model.Group.run (every event of every history)",
                              nontrivial=nontrivial, describe=describe)
    obs_cases = [[2 + c[0]] + c[1:] for c in cases]
    mobs = ck.model(MODEL, obs_cases)
    odiffs = [i for i, (a, b) in enumerate(zip(impl_obs, mobs)) if list(a) != GL.observable_part(b)]
    st = ck.cov["correspondence"].setdefault("per-step observation vector (pending requests by kind, armed calls, heartbeat looper, live consumers, generation/member) vs Model.GroupObs.obs", {"cases": 0, "differences": 0, "in_coq_sample": 0})
    st["cases"] += len(cases)
    st["differences"] += len(odiffs)
    ck.cov["evaluations"] += len(cases)
    # the boolean form of the proved invariant, evaluated along the model runs (sanity of the statement, not of the code)
    chk = ck.model(MODEL, [[4 + c[0]] + c[1:] for c in cases])
    nfalse = sum(1 for v in chk for b in v if b != 1)
    ck.cov["invariant_bits_false_on_model_runs"] = nfalse
    if nfalse:
        raise vlib.CheckAbort("Model.GroupObs.chk is false on a model run: the boolean mirror of the proved invariant is wrong")

    for i in (diffs + odiffs)[:3]:
        if ck.violations:
            break
        kind, evs, origin = meta[i]
        # a difference alone is not a violation: look for a failing input around it (prefixes and one-event extensions)
        found = None
        for j in range(1, len(evs) + 1):
            if is_bad(kind, evs[:j]):
                found = evs[:j]
                break
        if found:
            l2, t2, p2, s2 = run_case(kind, found)
            ck.violation({"kind": "monitor (found from a correspondence difference)", "failures": monitor(kind, s2)[0], "case_kind": kind,
                          "events": found, "impl_trace": GL.pretty_trace(kind, found, t2), "replay_op": "history"})
        else:
            ck.violation({"kind": "correspondence broken", "correspondence": "corr:group:" + ("trace" if i in diffs else "observations"),
                          "theorems_no_longer_tied": TIED, "case_kind": kind, "events": evs,
                          "impl_trace": GL.pretty_trace(kind, evs, impl_tr[i]), "model_trace": GL.pretty_trace(kind, evs, mo[i]),
                          "impl_obs": impl_obs[i], "model_obs": GL.observable_part(mobs[i]), "replay_op": "history"}, no_input=True)

    # ---- residual finding F-C17-2: replay the witness of C17_nonkafka_idle_refuted on the real code
    wk, wev = GL.corpus_cases()[0]
    _, wtr, _, wsteps = run_case(wk, wev)
    o = wsteps[-1]["obs"]
    idle = o[0] == 1 and o[1] == 0 and o[2] == 0 and o[3] == 0 and o[5] == 0
    ck.finding("F-C17-2", idle, "non-Kafka exception escaping _join_and_sync (metadata load raising ValueError) is only logged: "
               "start() Deferred outstanding, nothing in flight, nothing scheduled, no heartbeat", {"events": wev, "case_kind": wk,
               "impl_trace": GL.pretty_trace(wk, wev, wtr), "obs": o, "replay_op": "history"})

    # ---- documented delays: the float handed to callLater, bit for bit, with non-default and default constructor arguments
    for delays, dflt in ((None, True), ({"initial_backoff_ms": 700, "retry_backoff_ms": 33, "fatal_backoff_ms": 12345.5, "heartbeat_interval_ms": 2500}, False)):
        for kind, evs in GL.corpus_cases()[:10]:
            tr2, probs = GL.run_impl(GL.encode_case(kind, evs), delays=delays, use_defaults=dflt)
            for p in probs:
                ck.violation({"kind": "delay", "what": p, "delays": delays or "defaults", "case_kind": kind, "events": evs, "replay_op": "history"})
    if thorough:
        ck.coqchk(["AV.Props.C17"])
    ck.cov["monitor_totals"] = totals
    ck.cov["rule"] = ("histories = hand-written corpus (one per theorem / repaired defect / residual finding) + state-aware seeded generator "
                      "(random.Random(VERIF_SEED): replies and failures of every class for every pending request, timers and heartbeat ticks in any order, "
                      "stop()/start() at random points, consumer failures and slow/failed shutdowns, 10% late/duplicate/foreign events)"
                      + (" + every maximal sequence of implementation-enabled events up to depth 8 over a reduced alphabet" if thorough else "")
                      + ". A history is non-trivial if it has >= 4 events and schedules a call or fires the start Deferred; distinct = distinct case lines.")
    ck.assumptions += [
        "coq/Model/Group.v is a hand-written transcription of afkak/_group.py:50-538,673-901 (tie = this run's trace + observation correspondence, not a proof)",
        "the partition Consumer is represented by its contract (start/shutdown/stop Deferreds) - stub in harness/props/group_lib.py; the KafkaClient by a scripted stand-in whose Deferreds the driver fires",
        "Twisted inlineCallbacks / LoopingCall / DeferredList semantics as summarised at the top of Model/Group.v (exercised, not verified)",
        "timer delays: the model carries WHICH documented delay; the driver checks the float passed to callLater bit for bit against attr/1000.0",
        "C17_never_idle excludes histories in which a non-Kafka exception escaped _join_and_sync (finding F-C17-2) and says nothing after stop(); liveness is in event-order form (the armed call starts the join when the reactor fires it)",
    ]
    ck.cov["trusted_base"] += ["correspondence harness harness/props/C17.py + group_lib.py + vlib.py", "extracted OCaml runner (ExtrOcamlBasic) cross-checked by vm_compute sample"]


def replay(rp):
    kind, evs = rp["case_kind"], [tuple(tuple(x) if isinstance(x, list) and x and isinstance(x[0], list) else x for x in e) for e in rp["events"]]
    evs = [tuple([list(map(tuple, x)) if isinstance(x, (list, tuple)) and x and isinstance(x[0], (list, tuple)) else x for x in e]) for e in evs]
    line, tr, problems, steps = run_case(kind, evs)
    print(GL.pretty_trace(kind, evs, tr))
    bad, facts = monitor(kind, steps)
    print("monitor:", bad or "no failure", "problems:", problems)
    return 1 if (bad or problems) else 0
