# group_wire_lib - C16 "commit identity" on the wire: the REAL afkak.consumer.Consumer under the REAL ConsumerGroup over a client
# that is the REAL afkak.client.KafkaClient for everything a Consumer calls (send_offset_fetch_request, send_fetch_request,
# send_offset_commit_request -> real encoders), with only the transport cut: `_send_broker_aware_request` encodes the request with the
# encoder the real method built, hands the BYTES to the driver and returns a Deferred the driver answers.  The group-coordinator
# calls (lookup, JoinGroup, ...) are scripted as in group_lib.  OffsetCommit frames are parsed here with `struct`, independently of
# afkak's codec: api key 8, version 1: group, generation (int32), member id, topics.
import logging
import random
import struct

from twisted.internet import defer
from twisted.python.failure import Failure

from props import group_lib as GL


def parse_commit_frame(raw):
    """OffsetCommit v1 request (without the 4-byte size prefix) -> dict; raises ValueError if it is not one"""
    key, ver, corr, n = struct.unpack(">hhih", raw[:10])
    if key != 8:
        raise ValueError("api key %d" % key)
    p = 10 + max(n, 0)

    def sstr(p):
        (ln,) = struct.unpack(">h", raw[p:p + 2])
        return raw[p + 2:p + 2 + max(ln, 0)].decode("ascii"), p + 2 + max(ln, 0)
    group, p = sstr(p)
    (gen,) = struct.unpack(">i", raw[p:p + 4])
    member, p = sstr(p + 4)
    (nt,) = struct.unpack(">i", raw[p:p + 4])
    p += 4
    offs = []
    for _ in range(nt):
        topic, p = sstr(p)
        (np_,) = struct.unpack(">i", raw[p:p + 4])
        p += 4
        for _ in range(np_):
            part, off, ts = struct.unpack(">iqq", raw[p:p + 20])
            p += 20
            (ml,) = struct.unpack(">h", raw[p:p + 2])
            p += 2 + max(ml, 0)
            offs.append((topic, part, off))
    return {"version": ver, "group": group, "generation": gen, "member": member, "offsets": offs}


class WireRun(object):
    """one scripted life of a ConsumerGroup with real Consumers; records every OffsetCommit frame with the JoinGroup reply current at
    the time its consumer was created"""

    def __init__(self):
        import afkak._group as G
        from afkak.client import KafkaClient
        from afkak.common import FailedPayloadsError
        run = self
        self.G = G
        self.impl = GL.Impl.__new__(GL.Impl)      # reuse the recording parts of group_lib.Impl without patching G.Consumer
        im = self.impl
        im.G, im.kind, im.trace, im.cur, im.reqs, im.consumers = G, 1, [], [], [], []
        im.join_timers, im.hb_calls, im.join_payloads, im.problems = [], [], [], []
        im.nstart = im.nstop = 0
        im.start_fired, im.delivered, im.salt = [], False, 0
        im.sync_start_failures, im.sync_failed = [], []
        im.allow_foreign_timers = True
        im.sync_policy, im.auto_events, im.ctor_raise_at, im.ctor_count = None, [], None, 0
        im.clock = GL.RecClock(im)
        im.group_id = "grp"
        self.data_reqs = []     # pending consumer requests: dict(kind, d, payloads, raw)
        self.commits = []       # parsed OffsetCommit frames, in order, with the time index
        self.events = []        # narrative of the run for the replay file
        stand_in = GL.StandInClient(im)

        class WireClient(KafkaClient):
            def _get_coordinator_for_group(self, group_id):
                return stand_in._get_coordinator_for_group(group_id)

            def load_metadata_for_topics(self, *topics):
                return stand_in.load_metadata_for_topics(*topics)

            def _load_topic_partitions(self, *topics):
                return stand_in._load_topic_partitions(*topics)

            def reset_consumer_group_metadata(self, *groups):
                return stand_in.reset_consumer_group_metadata(*groups)

            def _send_request_to_coordinator(self, group, payload, encoder_fn, decode_fn, **kw):
                return stand_in._send_request_to_coordinator(group, payload, encoder_fn, decode_fn, **kw)

            def _send_broker_aware_request(self, payloads, encoder_fn, decode_fn, consumer_group=None, api_version=None):
                raw = encoder_fn(client_id=b"verif", correlation_id=len(run.data_reqs) + 1, payloads=payloads)
                (key,) = struct.unpack(">h", raw[:2])
                rec = {"kind": {8: "commit", 9: "ofetch", 1: "fetch", 2: "offsets"}.get(key, "api%d" % key), "payloads": list(payloads), "raw": raw}
                # what the real client does when the caller cancels: the request fails with FailedPayloadsError (a KafkaError)
                rec["d"] = defer.Deferred(lambda d: d.errback(Failure(FailedPayloadsError([], [(p, defer.CancelledError()) for p in payloads]))))
                run.data_reqs.append(rec)
                if rec["kind"] == "commit":
                    try:
                        fr = parse_commit_frame(raw)
                    except Exception as e:         # not parseable as OffsetCommit v1: reported as a failure by the monitor
                        fr = {"error": repr(e)}
                    fr["t"] = len(run.events)
                    fr["join_sent_after"] = run.joins_sent
                    run.commits.append(fr)
                    run.events.append(("OffsetCommit", fr.get("generation"), fr.get("member"), fr.get("offsets")))
                return rec["d"]

        self.joins_sent = 0
        im.client = WireClient("localhost:9092", clientId="verif", reactor=im.clock, enable_protocol_version_discovery=False)
        im.obj = G.ConsumerGroup(im.client, "grp", list(GL.GROUP_TOPICS), processor=self._processor,
                                 consumer_kwargs={"auto_commit_every_n": 1, "auto_commit_every_ms": None}, **GL.DEFAULT_DELAYS)
        im.delay_hex = [float.hex(getattr(im.obj, a) / 1000.0) for a in GL.DELAY_ATTRS]
        self.processed = []

    def _processor(self, consumer, msgs):
        self.processed.append((consumer.topic, consumer.partition, [m.offset for m in msgs]))
        return None

    # ---- driver helpers
    def ev(self, *e):
        self.events.append(e)
        out = self.impl.apply(tuple(e))
        self.joins_sent += sum(1 for o in GL.split_trace(out)[0] if o[0] == GL.O_JOIN)
        return out

    def _window(self, f):
        """run a driver action outside Impl.apply with the recorder open"""
        im = self.impl
        im.cur = [-1]
        try:
            f()
        finally:
            out, im.cur = im.cur, None
            im.trace.extend(out)
            self.joins_sent += sum(1 for o in GL.split_trace(out)[0] if o[0] == GL.O_JOIN)

    def pending(self, kind):
        return [r for r in self.data_reqs if r["kind"] == kind and not r["d"].called]

    def answer_offset_fetches(self, committed):
        from afkak.common import OffsetFetchResponse
        for r in self.pending("ofetch"):
            self.events.append(("OffsetFetchReply", committed))
            self._window(lambda r=r: r["d"].callback([OffsetFetchResponse(p.topic, p.partition, committed, b"", 0) for p in r["payloads"]]))

    def answer_fetches(self, nmsgs):
        from afkak.common import FetchResponse, Message, OffsetAndMessage
        for r in self.pending("fetch"):
            resp = []
            for p in r["payloads"]:
                msgs = [OffsetAndMessage(p.offset + i, Message(0, 0, None, b"v%d" % (p.offset + i))) for i in range(nmsgs)]
                resp.append(FetchResponse(p.topic, p.partition, 0, p.offset + nmsgs, iter(msgs)))
            self.events.append(("FetchReply", nmsgs))
            self._window(lambda r=r, resp=resp: r["d"].callback(resp))

    def answer_commits(self, error=None):
        from afkak.common import OffsetCommitResponse
        for r in self.pending("commit"):
            self.events.append(("OffsetCommitReply", error))
            if error is None:
                self._window(lambda r=r: r["d"].callback([OffsetCommitResponse(p.topic, p.partition, 0) for p in r["payloads"]]))
            else:
                self._window(lambda r=r: r["d"].errback(Failure(GL.make_exc(error))))

    def run_timers(self):
        """fire every armed DelayedCall that is not a join_and_sync call nor the heartbeat looper (consumer retry / commit timers)"""
        for dc in list(self.impl.clock.calls):
            if getattr(dc, "v_class", 2) == 2 and dc.active():
                self.events.append(("FireConsumerTimer",))
                self._window(lambda dc=dc: self.impl.clock.fire(dc))


def scenario(rnd, commit_in_flight_at_eviction):
    """join generation g1, consume and commit, then lose the generation (rebalance or eviction), rejoin as g2, consume and commit.
    Returns (failures, narrative)."""
    logging.getLogger("afkak").setLevel(logging.CRITICAL + 1)
    w = WireRun()
    bad = []
    g1, m1 = rnd.randint(1, 50), rnd.randint(1, 9)
    part = rnd.randint(0, 2)
    committed = rnd.randint(0, 1000)
    w.ev(GL.E_START)
    w.ev(GL.E_LOOKUP, 0, 0)
    w.ev(GL.E_META, 1, 0)
    w.ev(GL.E_JOIN, 2, 0, g1, m1, 0)
    w.ev(GL.E_SYNC, 3, 0, [(0, part)])
    ids = {1: (g1, m1)}          # joins sent so far -> ids of the generation the consumers created then belong to
    w.answer_offset_fetches(committed)
    w.answer_fetches(rnd.randint(1, 3))
    if not w.commits:
        bad.append("the real Consumer under the group did not commit after processing (auto_commit_every_n=1)")
    if not commit_in_flight_at_eviction:
        w.answer_commits()
    # lose the generation
    w.ev(GL.E_TICK)
    hb = [r.rid for r in w.impl.reqs if r.kind == "hb" and not r.d.called]
    kind = rnd.choice([GL.K_ILLGEN, GL.K_UNKMEMBER]) if commit_in_flight_at_eviction else GL.K_REBALANCE
    if hb:
        w.ev(GL.E_HBREPLY, hb[0], 100 + kind)
    for t in w.impl.active_join_timers():
        w.ev(GL.E_FIRE, t)
    for r in [r for r in w.impl.reqs if r.kind == "lookup" and not r.d.called]:
        w.ev(GL.E_LOOKUP, r.rid, 0)
    for r in [r for r in w.impl.reqs if r.kind == "meta" and not r.d.called]:
        w.ev(GL.E_META, r.rid, 0)
    # graceful path: the consumer commits its progress while shutting down; answer it (or reject it)
    w.answer_commits(None if rnd.random() < 0.7 else GL.K_ILLGEN)
    w.run_timers()
    w.answer_commits()
    g2 = g1 + rnd.randint(1, 3)
    m2 = m1 if kind != GL.K_UNKMEMBER else m1 + 10
    joins = [r for r in w.impl.reqs if r.kind == "join" and not r.d.called]
    if not joins:
        bad.append("no JoinGroup after losing the generation: %r" % (w.events[-8:],))
        return bad, w.events
    sent_member = joins[0].info[1]
    w.ev(GL.E_JOIN, joins[0].rid, 0, g2, m2 if sent_member == 0 else sent_member, 0)
    m2 = m2 if sent_member == 0 else sent_member
    ids[w.joins_sent] = (g2, m2)
    for r in [r for r in w.impl.reqs if r.kind == "sync" and not r.d.called]:
        w.ev(GL.E_SYNC, r.rid, 0, [(0, part)])
    w.answer_offset_fetches(committed + 5)
    w.answer_fetches(2)
    w.run_timers()          # a commit retry armed by a consumer of the previous generation would fire here
    w.answer_commits()
    # ---- monitor: every OffsetCommit frame carries the generation / member id of the JoinGroup reply current when it was sent,
    #      and none for the old generation leaves after the next JoinGroup was sent
    if len([c for c in w.commits if c.get("generation") == g2]) == 0:
        bad.append("no OffsetCommit in the second generation")
    for c in w.commits:
        if "error" in c:
            bad.append("OffsetCommit frame not parseable as v1: %s" % c["error"])
            continue
        want = ids[1] if c["join_sent_after"] <= 1 else ids[max(ids)]
        if (c["generation"], GL.mem_int(c["member"])) != want:
            bad.append("C16_commit_identity (wire): OffsetCommit frame carries generation %r member %r; the member's JoinGroup reply then current gave generation %d member %d"
                       % (c["generation"], c["member"], want[0], want[1]))
        if c["group"] != "grp":
            bad.append("OffsetCommit for group %r" % c["group"])
    if w.impl.problems:
        bad += ["outside the alphabet: " + p for p in w.impl.problems]
    return bad, w.events


def run_wire_stream(ck, n):
    rnd = random.Random(ck.seed + 1616)
    nbad = 0
    frames = 0
    for i in range(n):
        inflight = (i % 3 == 2)
        try:
            bad, narrative = scenario(rnd, inflight)
        except Exception as e:       # fail closed
            import traceback
            bad, narrative = ["wire scenario crashed: %r %s" % (e, traceback.format_exc()[-600:])], []
        ck.hist("wire-scenario:" + ("commit-in-flight-at-eviction" if inflight else "rebalance"))
        frames += sum(1 for e in narrative if e and e[0] == "OffsetCommit")
        if bad:
            nbad += 1
            if nbad <= 2:
                ck.violation({"kind": "monitor (real Consumer + real client codec under the group)", "failures": [[0, b] for b in bad[:4]],
                              "narrative": [list(map(str, e)) for e in narrative], "scenario_index": i, "seed": ck.seed, "replay_op": "wire"})
    ck.cov["wire_stream"] = {"scenarios": n, "offset_commit_frames_parsed": frames, "failing": nbad}
    return nbad
