# Shared implementation-side driver for the consumer properties C02 C03 C13 C14.
#
# The REAL afkak.consumer.Consumer runs under twisted.internet.task.Clock with a scripted stand-in client
# whose send_* methods return Deferreds that the driver resolves.  Fetch replies are real FetchResponse
# objects whose .messages is the real KafkaCodec._decode_message_set_iter over bytes encoded HERE (an
# independent message-set encoder: struct + zlib.crc32 + gzip), so partial tails and compressed wrappers
# go through the real codec.
#
# A case is (cfg, events); both sides (this driver, Model/Consumer.v run_case) produce the same canonical
# flat integer trace.  Encoding: see the tables EV_* / OUT_* below and coq/Model/Consumer.v.
import gzip
import io
import struct
import zlib

# ---------------------------------------------------------------- integer vocabulary (shared with Consumer.v)
EV_START, EV_STOP, EV_SHUTDOWN, EV_COMMIT = 1, 2, 3, 4
EV_REQ_OK, EV_FETCH_OK, EV_REQ_FAIL = 5, 6, 7
EV_PLAN, EV_PROC_FIRE = 8, 9
EV_COMMIT_OK, EV_COMMIT_FAIL = 10, 11
EV_FIRE_RETRY, EV_FIRE_COMMIT_RETRY, EV_TICK = 12, 13, 14
EV_NAMES = {1: "start", 2: "stop", 3: "shutdown", 4: "commit", 5: "req_ok", 6: "fetch_ok", 7: "req_fail", 8: "plan",
            9: "proc_fire", 10: "commit_ok", 11: "commit_fail", 12: "fire_retry", 13: "fire_commit_retry", 14: "tick"}

# failure kinds (Deferred failure / raised exception classes mapped to small integers)
FK_KAFKA, FK_OOR, FK_OTHER, FK_CANCELLED, FK_GEN = 1, 2, 3, 4, 5          # what the environment may answer
FK_ALREADY_CALLED, FK_OIP, FK_BADGROUP, FK_TOOSMALL, FK_PROC = 6, 7, 8, 9, 10   # produced by the consumer / processor
X_RESTART, X_RESTOP, X_ALREADY_CANCELLED, X_ALREADY_CALLED_DC, X_ATTRIBUTE, X_ASSERT, X_FUEL = 11, 12, 13, 14, 15, 16, 17
X_UNKNOWN = 99

OUT_OFFREQ, OUT_OFFFETCH, OUT_FETCH, OUT_COMMIT, OUT_CALLPROC = 20, 21, 22, 23, 24
OUT_SCHED, OUT_CANCEL_TIMER, OUT_CANCEL_REQ, OUT_CANCEL_PROC = 25, 26, 27, 28
OUT_START_D, OUT_SHUTDOWN_D, OUT_COMMIT_D, OUT_OIP_D = 30, 31, 32, 33
OUT_RET, OUT_RAISED, OUT_IGNORED, OUT_END, OUT_FUEL = 34, 35, 36, 37, 38
NONE = -1000      # encoding of Python None in a value position

T_RETRY, T_COMMIT, T_LOOPER = 1, 2, 3
R_OFFREQ, R_OFFFETCH, R_FETCH, R_COMMIT = 1, 2, 3, 4

OFFSET_EARLIEST, OFFSET_LATEST, OFFSET_COMMITTED = -2, -1, -101


def v(x):
    return NONE if x is None else int(x)


# ---------------------------------------------------------------- independent message-set encoder
def enc_bytes(b):
    return struct.pack(">i", -1) if b is None else struct.pack(">i", len(b)) + b


def enc_message(magic, attrs, key, value, ts=0):
    body = struct.pack(">BB", magic, attrs)
    if magic == 1:
        body += struct.pack(">q", ts)
    body += enc_bytes(key) + enc_bytes(value)
    return struct.pack(">I", zlib.crc32(body) & 0xFFFFFFFF) + body


def enc_entry(offset, msg):
    return struct.pack(">qi", offset, len(msg)) + msg


def gz(data):
    buf = io.BytesIO()
    with gzip.GzipFile(fileobj=buf, mode="wb", mtime=0) as f:
        f.write(data)
    return buf.getvalue()


def enc_plain(offsets, magic=0, value=lambda o: b"v%d" % o, key=lambda o: None):
    return b"".join(enc_entry(o, enc_message(magic, 0, key(o), value(o), ts=1000 + o)) for o in offsets)


def enc_wrapper(offsets, magic, value=lambda o: b"v%d" % o):
    """one gzip wrapper message holding `offsets` (absolute).  magic 0: inner offsets absolute, wrapper offset = last.
    magic 1 (KIP-31): inner offsets relative 0..n-1, wrapper offset = absolute offset of the last inner message;
    gaps are expressed by the relative offsets (relative = absolute - first)."""
    if magic == 0:
        inner = b"".join(enc_entry(o, enc_message(0, 0, None, value(o))) for o in offsets)
    else:
        inner = b"".join(enc_entry(o - offsets[0], enc_message(1, 0, None, value(o), ts=1000 + o)) for o in offsets)
    return enc_entry(offsets[-1], enc_message(magic, 1, None, gz(inner), ts=1000 + offsets[-1]))


def decode_offsets(data):
    """what the real codec makes of `data`: (offsets yielded, raised ConsumerFetchSizeTooSmall?)"""
    from afkak.common import ConsumerFetchSizeTooSmall
    from afkak.kafkacodec import KafkaCodec
    offs = []
    try:
        for om in KafkaCodec._decode_message_set_iter(data):
            offs.append(om.offset)
    except ConsumerFetchSizeTooSmall:
        return offs, True
    return offs, False


# ---------------------------------------------------------------- failure mapping
def fk_of(exc):
    """exception instance -> small integer (classification the consumer code itself can make + provenance)"""
    import afkak.common as C
    from twisted.internet import defer, error
    t = type(exc)
    if isinstance(exc, ProcessorBoom):
        return FK_PROC
    if isinstance(exc, EnvOther):
        return FK_OTHER
    if t is defer.CancelledError:
        return FK_CANCELLED
    if t is defer.AlreadyCalledError:
        return FK_ALREADY_CALLED
    if t is error.AlreadyCancelled:
        return X_ALREADY_CANCELLED
    if t is error.AlreadyCalled:
        return X_ALREADY_CALLED_DC
    if t is AttributeError:
        return X_ATTRIBUTE
    if t is AssertionError:
        return X_ASSERT
    if t is C.RestartError:
        return X_RESTART
    if t is C.RestopError:
        return X_RESTOP
    if t is C.OperationInProgress:
        return FK_OIP
    if t is C.InvalidConsumerGroupError:
        return FK_BADGROUP
    if t is C.ConsumerFetchSizeTooSmall:
        return FK_TOOSMALL
    if t is C.OffsetOutOfRangeError:
        return FK_OOR
    if t in (C.IllegalGeneration, C.InvalidGroupId, C.UnknownMemberId):
        return FK_GEN
    if isinstance(exc, C.KafkaError):
        return FK_KAFKA
    return X_UNKNOWN


class ProcessorBoom(Exception):
    pass


class EnvOther(Exception):
    pass


def env_failure(kind, variant=0):
    import afkak.common as C
    from twisted.internet import defer
    from twisted.python.failure import Failure
    if kind == FK_KAFKA:
        cls = [C.RequestTimedOutError, C.KafkaUnavailableError, C.NotLeaderForPartitionError, C.FailedPayloadsError,
               C.LeaderNotAvailableError, C.CoordinatorNotAvailable][variant % 6]
        return Failure(cls("scripted"))
    if kind == FK_OOR:
        return Failure(C.OffsetOutOfRangeError("scripted"))
    if kind == FK_OTHER:
        return Failure(EnvOther("scripted"))
    if kind == FK_CANCELLED:
        return Failure(defer.CancelledError())
    if kind == FK_GEN:
        cls = [C.IllegalGeneration, C.UnknownMemberId, C.InvalidGroupId][variant % 3]
        return Failure(cls("scripted"))
    raise ValueError(kind)


# ---------------------------------------------------------------- stand-in client and clock
class Cfg(object):
    """configuration of one case.  acn: auto_commit_every_n (0 = off), acs: time-triggered auto commit on/off,
    reset: 0 None / 1 EARLIEST / 2 LATEST, maxatt: request_retry_max_attempts, buf/maxbuf: buffer sizes (maxbuf -1 = None)"""
    FIELDS = ("group", "acn", "acs", "reset", "maxatt", "buf", "maxbuf", "gen", "cap", "fuel")
    # delay profile key -> (init, max) of the delay sequence.  Keys 3/7/14 equal the index at which the sequence reaches its
    # maximum under the library's factor; 100: init == max; 101: init > max (accepted by the constructor: the first delay
    # exceeds the maximum); 102: non-dyadic pair.  No profile equals the module defaults 0.1 / 30.0 ON PURPOSE: a consumer
    # that used REQUEST_RETRY_MIN_DELAY / REQUEST_RETRY_MAX_DELAY instead of its own settings must differ.
    DELAYS = {3: (1.0, 1.5), 7: (0.5, 1.7), 14: (0.25, 3.0), 100: (1.5, 1.5), 101: (2.0, 1.0), 102: (0.3, 7.1)}

    def __init__(self, group=1, acn=0, acs=0, reset=0, maxatt=0, buf=4096, maxbuf=-1, gen=-1, cap=7, fuel=60):
        self.group, self.acn, self.acs, self.reset, self.maxatt, self.buf, self.maxbuf, self.gen, self.cap, self.fuel = \
            group, acn, acs, reset, maxatt, buf, maxbuf, gen, cap, fuel

    def cap_value(self):
        """the index at which the delay sequence of this profile reaches its maximum, computed from the implementation's
        own REQUEST_RETRY_FACTOR (the property does not fix the factor: it is a parameter of the model)"""
        import afkak.consumer as AC
        init, mx = self.DELAYS[self.cap]
        d, k = float(init), 0
        while d < float(mx) and k < 500:
            d = min(d * AC.REQUEST_RETRY_FACTOR, float(mx))
            k += 1
        return k

    def line(self):
        return [self.cap_value() if f == "cap" else getattr(self, f) for f in self.FIELDS]

    @classmethod
    def from_line(cls, l):
        c = cls(*l[:len(cls.FIELDS)])
        if c.cap not in cls.DELAYS or c.cap_value() != l[cls.FIELDS.index("cap")]:
            for key in cls.DELAYS:           # the line carries the computed cap: find the profile it came from
                c.cap = key
                if c.cap_value() == l[cls.FIELDS.index("cap")]:
                    break
            else:
                c.cap = 7
        return c

    def valid(self):
        if not self.group and (self.acn or self.acs):
            return False
        if self.maxbuf != -1 and self.buf > self.maxbuf:
            return False
        return self.acn >= 0 and self.maxatt >= 0 and self.buf >= 1


class Driver(object):
    """One Consumer instance driven event by event.  self.trace is the canonical integer trace."""
    TOPIC, PART = "t", 3
    ACS_MS = 700

    def __init__(self, cfg, magic_for_plain=0, float_check=True):
        from twisted.internet.task import Clock
        import afkak.consumer as AC
        self.AC = AC
        self.cfg = cfg
        self.INIT_DELAY, self.MAX_DELAY = cfg.DELAYS[cfg.cap]
        self.trace = []
        self.clock = Clock()
        self.delays = []             # (step, timer kind, float passed to callLater)
        self.float_bad = []          # float mismatches (index-vs-recurrence), checked bit for bit
        self.float_checks = 0
        self.plan = []
        self.req = None              # (kind, Deferred) of the outstanding offset/fetch request
        self.commit_req = None       # Deferred of the outstanding commit request
        self.procs = []              # pending Deferreds returned by the processor
        self.ncommit = 0
        self.delivered = []          # every offset handed to the processor, in order (monitors)
        self.calls = []              # per processor call: (offsets, overlap_with_pending)
        self.magic_for_plain = magic_for_plain
        self.step_no = 0
        self.fetch_bytes = {}        # step_no -> bytes served (for replay files)
        self.sent = []               # (step, what, args) every request sent (monitors)
        drv = self

        orig_callLater = self.clock.callLater

        def callLater(delay, f, *a, **kw):
            dc = orig_callLater(delay, f, *a, **kw)
            kind = drv.timer_kind(dc)
            drv.delays.append((drv.step_no, kind, delay))
            if kind == T_RETRY:
                idx = -1 if delay == 0 else drv.delay_index(delay)
            elif kind == T_COMMIT:
                idx = drv.delay_index(delay)
            else:
                idx = -1
                if not (0 < delay <= drv.ACS_MS / 1000.0 + 1e-9):
                    drv.float_bad.append(("looper", delay))
            drv.out(OUT_SCHED, kind, idx)
            orig_cancel = dc.cancel

            def cancel():
                orig_cancel()          # raises AlreadyCalled / AlreadyCancelled like the real thing
                drv.out(OUT_CANCEL_TIMER, kind)
            dc.cancel = cancel
            return dc
        self.clock.callLater = callLater

        class Client(object):
            reactor = self.clock

            def send_offset_request(self, payloads):
                [p] = payloads
                assert p.topic == drv.TOPIC and p.partition == drv.PART and p.max_offsets == 1
                drv.out(OUT_OFFREQ, p.time)
                drv.sent.append((drv.step_no, "offreq", p.time))
                return drv.new_req(R_OFFREQ)

            def send_offset_fetch_request(self, group, payloads):
                [p] = payloads
                assert p.topic == drv.TOPIC and p.partition == drv.PART
                drv.out(OUT_OFFFETCH)
                drv.sent.append((drv.step_no, "offfetch", group))
                return drv.new_req(R_OFFFETCH)

            def send_fetch_request(self, payloads, max_wait_time=None, min_bytes=None):
                [p] = payloads
                assert p.topic == drv.TOPIC and p.partition == drv.PART
                drv.out(OUT_FETCH, p.offset, p.max_bytes)
                drv.sent.append((drv.step_no, "fetch", (p.offset, p.max_bytes)))
                return drv.new_req(R_FETCH)

            def send_offset_commit_request(self, group, payloads, group_generation_id=None, consumer_id=None):
                [p] = payloads
                assert p.topic == drv.TOPIC and p.partition == drv.PART and group == "grp"
                if consumer_id != "member-7":
                    drv.float_bad.append(("member id not carried", consumer_id))
                drv.out(OUT_COMMIT, p.offset, group_generation_id)
                drv.sent.append((drv.step_no, "commit", (p.offset, group_generation_id)))
                from twisted.internet.defer import Deferred
                d = Deferred(lambda _d: drv.out(OUT_CANCEL_REQ, R_COMMIT))
                drv.commit_req = d
                return d

        reset = {0: None, 1: OFFSET_EARLIEST, 2: OFFSET_LATEST}[cfg.reset]
        self.client = Client()
        self.consumer = AC.Consumer(
            self.client, self.TOPIC, self.PART, self.processor,
            consumer_group="grp" if cfg.group else None,
            auto_commit_every_n=cfg.acn if cfg.group else None,
            auto_commit_every_ms=(self.ACS_MS if cfg.acs else 0) if cfg.group else None,
            buffer_size=cfg.buf, max_buffer_size=None if cfg.maxbuf == -1 else cfg.maxbuf,
            request_retry_init_delay=self.INIT_DELAY, request_retry_max_delay=self.MAX_DELAY,
            request_retry_max_attempts=cfg.maxatt, auto_offset_reset=reset,
            commit_consumer_id="member-7", commit_generation_id=cfg.gen)

    # ------------------------------------------------------------ helpers
    def out(self, *xs):
        self.trace.extend(int(x) for x in xs)

    def timer_kind(self, dc):
        from twisted.internet.task import LoopingCall
        if isinstance(dc.func, LoopingCall):
            return T_LOOPER
        if len(dc.args) == 2:
            return T_COMMIT
        return T_RETRY

    def delay_seq(self, k):
        """the k-th element of d0 = init, d(k+1) = min(d(k) * F, max), computed from the implementation's constants"""
        d = float(self.INIT_DELAY)
        for _ in range(k):
            d = min(d * self.AC.REQUEST_RETRY_FACTOR, float(self.MAX_DELAY))
        return d

    def delay_index(self, delay):
        """smallest index whose recurrence value equals `delay` bit for bit; -2 (and a float alarm) when none does"""
        self.float_checks += 1
        d = float(self.INIT_DELAY)
        for k in range(0, 200):
            if isinstance(delay, float) and d.hex() == delay.hex():
                return k if d < float(self.MAX_DELAY) else self.cap_index()
            nd = min(d * self.AC.REQUEST_RETRY_FACTOR, float(self.MAX_DELAY))
            if nd == d:
                break
            d = nd
        self.float_bad.append(("delay", delay))
        return -2

    def cap_index(self):
        """first index at which the recurrence has reached the maximum (all later indices give the same float)"""
        d, k = float(self.INIT_DELAY), 0
        while d < float(self.MAX_DELAY) and k < 500:
            d = min(d * self.AC.REQUEST_RETRY_FACTOR, float(self.MAX_DELAY))
            k += 1
        return k

    def new_req(self, kind):
        from twisted.internet.defer import Deferred
        d = Deferred(lambda _d: self.out(OUT_CANCEL_REQ, kind))
        self.req = (kind, d)
        return d

    def processor(self, consumer, msgs):
        from twisted.internet.defer import Deferred
        assert consumer is self.consumer
        offs = [m.offset for m in msgs]
        for m in msgs:
            assert m.topic == self.TOPIC and m.partition == self.PART
            self.values_seen.append((m.offset, m.message.key, m.message.value)) if hasattr(self, "values_seen") else None
        self.out(OUT_CALLPROC, len(offs), *offs)
        self.procs = [d for d in self.procs if not d.called]
        self.calls.append((self.step_no, offs, len(self.procs) > 0))
        self.delivered.extend(offs)
        inside, result = self.plan.pop(0) if self.plan else (0, 2)
        if inside == 1:
            self.api(lambda: consumer.stop(), stops=True)
        elif inside == 2:
            self.api_commit()
        elif inside == 3:
            self.api(self.go_shutdown)
        if result == 0:
            return None
        if result == 1:
            raise ProcessorBoom("scripted")
        d = Deferred(lambda _d: self.out(OUT_CANCEL_PROC))
        self.procs.append(d)
        # forget it once it has fired (fired by the driver or cancelled by the consumer)
        return d

    def api(self, f, stops=False):
        try:
            r = f()
        except Exception as e:
            self.out(OUT_RAISED, fk_of(e))
            return None
        if stops:
            self._running = False
        self.out(OUT_RET, v(r) if (r is None or isinstance(r, int)) else 0)
        return r

    def watch(self, d, tag, *ids):
        from twisted.python.failure import Failure

        def cb(r):
            # the shutdown Deferred's observer also reads the public last_committed_offset when it fires
            extra = [v(self.consumer.last_committed_offset)] if tag == OUT_SHUTDOWN_D else []
            if isinstance(r, Failure):
                self.out(tag, *ids, 0, fk_of(r.value), *extra)
                if fk_of(r.value) == FK_OIP and tag == OUT_COMMIT_D:
                    self.watch(r.value.deferred, OUT_OIP_D, *ids)
            else:
                self.out(tag, *ids, 1, v(r), *extra)
            return None
        d.addBoth(cb)

    def go_shutdown(self):
        d = self.consumer.shutdown()
        d.addBoth(lambda r: (setattr(self, "_running", False) if not (hasattr(r, "value") and fk_of(r.value) == X_RESTOP) else None, r)[1])
        self.watch(d, OUT_SHUTDOWN_D)
        return 0

    def api_commit(self):
        self.ncommit += 1
        n = self.ncommit
        try:
            d = self.consumer.commit()
        except Exception as e:
            self.out(OUT_RAISED, fk_of(e))
            return
        self.watch(d, OUT_COMMIT_D, n)
        self.out(OUT_RET, 0)

    def timers(self, kind):
        return [c for c in self.clock.getDelayedCalls() if self.timer_kind(c) == kind]

    def fire(self, dc):
        # what Clock.advance does for one due call, for the chosen call (events may fire timers in any order)
        self.clock.calls.remove(dc)
        if dc.getTime() > self.clock.rightNow:
            self.clock.rightNow = dc.getTime()
        dc.called = 1
        try:
            dc.func(*dc.args, **dc.kw)
        except Exception as e:
            self.out(OUT_RAISED, fk_of(e))

    # ------------------------------------------------------------ enabledness (driver-side bookkeeping only)
    def req_pending(self):
        return self.req is not None and not self.req[1].called

    def commit_pending(self):
        return self.commit_req is not None and not self.commit_req.called

    def enabled(self, ev):
        t = ev[0]
        self.procs = [d for d in self.procs if not d.called]
        if t in (EV_START, EV_STOP, EV_SHUTDOWN, EV_COMMIT, EV_PLAN):
            return True
        if t == EV_REQ_OK:
            return self.req_pending() and self.req[0] in (R_OFFREQ, R_OFFFETCH)
        if t == EV_FETCH_OK:
            return self.req_pending() and self.req[0] == R_FETCH
        if t == EV_REQ_FAIL:
            return self.req_pending()
        if t == EV_PROC_FIRE:
            return bool(self.procs)
        if t in (EV_COMMIT_OK, EV_COMMIT_FAIL):
            return self.commit_pending()
        if t == EV_FIRE_RETRY:
            return bool(self.timers(T_RETRY))
        if t == EV_FIRE_COMMIT_RETRY:
            return bool(self.timers(T_COMMIT))
        if t == EV_TICK:
            return bool(self.timers(T_LOOPER))
        return False

    # ------------------------------------------------------------ events
    def fetch_payload(self, offs, toosmall):
        """bytes for a generic fetch reply: plain messages at `offs`; a truncated next message as partial tail when
        the reply is to raise ConsumerFetchSizeTooSmall with nothing decoded.  Returns (messages iterable, served bytes)"""
        data = enc_plain(offs, magic=self.magic_for_plain)
        if toosmall and not offs:
            nxt = enc_plain([7])
            data += nxt[:len(nxt) - 3]
        if toosmall and offs:
            # the real codec never raises after yielding; the consumer's handler nevertheless has that path:
            # exercise it with an iterator that decodes the real bytes and then raises
            from afkak.common import ConsumerFetchSizeTooSmall
            from afkak.kafkacodec import KafkaCodec

            def it():
                for om in KafkaCodec._decode_message_set_iter(data):
                    yield om
                raise ConsumerFetchSizeTooSmall()
            return it(), data
        from afkak.kafkacodec import KafkaCodec
        return KafkaCodec._decode_message_set_iter(data), data

    def step(self, ev):
        """apply one event; appends its outputs and the end-of-step marker to the trace"""
        from afkak.common import FetchResponse, OffsetFetchResponse, OffsetResponse
        self.step_no += 1
        t = ev[0]
        c = self.consumer
        if not self.enabled(ev):
            self.out(OUT_IGNORED)
        elif t == EV_START:
            def go():
                d = c.start(ev[1])
                self._running = True
                self.watch(d, OUT_START_D)
                return 0
            self.api(go)
        elif t == EV_STOP:
            self.api(lambda: c.stop(), stops=True)
        elif t == EV_SHUTDOWN:
            self.api(self.go_shutdown)
        elif t == EV_COMMIT:
            self.api_commit()
        elif t == EV_PLAN:
            self.plan.append((ev[1], ev[2]))
        elif t == EV_REQ_OK:
            kind, d = self.req
            if kind == R_OFFREQ:
                d.callback([OffsetResponse(self.TOPIC, self.PART, 0, [ev[1]])])
            else:
                d.callback([OffsetFetchResponse(self.TOPIC, self.PART, ev[1], b"", 0)])
        elif t == EV_FETCH_OK:
            kind, d = self.req
            if len(ev) > 3 and ev[3] is not None:       # raw bytes supplied (honest-broker driver)
                from afkak.kafkacodec import KafkaCodec
                data = ev[3]
                msgs = KafkaCodec._decode_message_set_iter(data)
            else:
                msgs, data = self.fetch_payload(ev[1], ev[2])
            self.fetch_bytes[self.step_no] = data
            d.callback([FetchResponse(self.TOPIC, self.PART, 0, 0, msgs)])
        elif t == EV_REQ_FAIL:
            kind, d = self.req
            d.errback(env_failure(ev[1], self.step_no))
        elif t == EV_PROC_FIRE:
            d = self.procs[0]
            if ev[1]:
                d.callback(None)
            else:
                from twisted.python.failure import Failure
                d.errback(Failure(ProcessorBoom("scripted")))
        elif t == EV_COMMIT_OK:
            from afkak.common import OffsetCommitResponse
            self.commit_req.callback([OffsetCommitResponse(self.TOPIC, self.PART, 0)])
        elif t == EV_COMMIT_FAIL:
            self.commit_req.errback(env_failure(ev[1], self.step_no))
        elif t == EV_FIRE_RETRY:
            self.fire(self.timers(T_RETRY)[0])
        elif t == EV_FIRE_COMMIT_RETRY:
            self.fire(self.timers(T_COMMIT)[0])
        elif t == EV_TICK:
            self.fire(self.timers(T_LOOPER)[0])
        else:
            raise ValueError(ev)
        self.out(OUT_END, v(c.last_processed_offset), v(c.last_committed_offset))

    def stopped_flag(self):
        """harness-side: has the last start() been followed by a stop()/shutdown that fired the start Deferred or returned"""
        return not getattr(self, "_running", False)

    def observe(self):
        """what is left running, by public / harness-side observation only"""
        self.procs = [d for d in self.procs if not d.called]
        return {"timers": sorted(self.timer_kind(x) for x in self.clock.getDelayedCalls()),
                "req_pending": self.req_pending(), "commit_pending": self.commit_pending(),
                "procs_pending": len(self.procs)}


def ev_line(ev):
    """canonical integers of one event (what Model/Consumer.v decodes)"""
    t = ev[0]
    if t == EV_FETCH_OK:
        return [t, len(ev[1])] + list(ev[1]) + [1 if ev[2] else 0]
    if t in (EV_START, EV_REQ_OK, EV_REQ_FAIL, EV_PROC_FIRE, EV_COMMIT_FAIL):
        return [t, ev[1]]
    if t == EV_PLAN:
        return [t, ev[1], ev[2]]
    return [t]


def fuel_for(events):
    """interpreter fuel for a case: the model recurses once per processor block and per queued commit waiter where the
    code loops, so the fuel a case needs is linear in its input size"""
    n = 60 + len(events)
    for ev in events:
        if ev[0] == EV_FETCH_OK:
            n += 2 * len(ev[1])
    return n


def case_line(cfg, events, op=1):
    c = [op] + cfg.line()
    c[1 + Cfg.FIELDS.index("fuel")] = max(cfg.fuel, fuel_for(events))      # fuel derived from the input size
    for ev in events:
        c += ev_line(ev)
    return c


_quiet = []


def quiet():
    """afkak logs through logging; Twisted reports Failures nobody consumed ("Unhandled error in Deferred") through
    twisted.logger at garbage collection.  Neither is an observable of these checks."""
    if not _quiet:
        import logging
        logging.disable(logging.CRITICAL)
        from twisted.logger import globalLogBeginner
        globalLogBeginner.beginLoggingTo([lambda e: None], redirectStandardIO=False, discardBuffer=True)
        _quiet.append(1)


def run_impl(cfg, events, **kw):
    quiet()
    drv = Driver(cfg, **kw)
    for ev in events:
        drv.step(ev)
    return drv


def split_steps(trace):
    """trace -> list of per-step output lists (each without the END marker) + list of (lp, lc) per step"""
    steps, cur, ends = [], [], []
    i = 0
    n = len(trace)
    while i < n:
        tag = trace[i]
        if tag == OUT_END:
            steps.append(cur)
            ends.append((trace[i + 1], trace[i + 2]))
            cur = []
            i += 3
            continue
        ar = out_arity(trace, i)
        cur.append(tuple(trace[i:i + 1 + ar]))
        i += 1 + ar
    return steps, ends


def out_arity(trace, i):
    tag = trace[i]
    if tag == OUT_CALLPROC:
        return 1 + trace[i + 1]
    return {OUT_OFFREQ: 1, OUT_OFFFETCH: 0, OUT_FETCH: 2, OUT_COMMIT: 2, OUT_SCHED: 2, OUT_CANCEL_TIMER: 1,
            OUT_CANCEL_REQ: 1, OUT_CANCEL_PROC: 0, OUT_START_D: 2, OUT_SHUTDOWN_D: 3, OUT_COMMIT_D: 3, OUT_OIP_D: 3,
            OUT_RET: 1, OUT_RAISED: 1, OUT_IGNORED: 0, OUT_FUEL: 0}[tag]


# ---------------------------------------------------------------- seeded, state-aware generator
BUFS = [64, 4096, 65536, 1 << 20, (1 << 20) + 1, 1 << 21]


def gen_cfg(rnd, **fixed):
    group = 1 if rnd.random() < 0.7 else 0
    buf = rnd.choice(BUFS)
    maxbuf = rnd.choice([-1, -1, buf, buf * 2, buf * 16, buf * 17, buf * 300, 1 << 20, 1 << 24])
    if maxbuf != -1 and maxbuf < buf:
        maxbuf = buf
    c = Cfg(group=group, acn=rnd.choice([0, 0, 1, 2, 3]) if group else 0, acs=rnd.choice([0, 1]) if group else 0,
            reset=rnd.choice([0, 1, 2]), maxatt=rnd.choice([0, 0, 0, 1, 2, 3, 5]), buf=buf, maxbuf=maxbuf,
            gen=rnd.choice([-1, 0, 17]), cap=rnd.choice([3, 7, 7, 14, 100, 101, 102]), fuel=60)
    for k, val in fixed.items():
        setattr(c, k, val)
    return c


def gen_event(rnd, drv, weights=None):
    """one event, mostly an enabled one (state-aware through the driver's own bookkeeping), ~10 % arbitrary"""
    cands = []
    w = {EV_START: 2, EV_STOP: 3, EV_SHUTDOWN: 2, EV_COMMIT: 3, EV_REQ_OK: 8, EV_FETCH_OK: 10, EV_REQ_FAIL: 5,
         EV_PLAN: 5, EV_PROC_FIRE: 8, EV_COMMIT_OK: 6, EV_COMMIT_FAIL: 4, EV_FIRE_RETRY: 10, EV_FIRE_COMMIT_RETRY: 6,
         EV_TICK: 3}
    if weights:
        w.update(weights)
    odd = rnd.random() < 0.1
    running = not drv.stopped_flag()
    for t, wt in w.items():
        if wt <= 0:
            continue
        if odd or drv.enabled((t,)):
            if not odd:
                if t == EV_START and running:
                    wt = 0.3
                if t in (EV_STOP, EV_SHUTDOWN) and not running:
                    wt = 0.3
                if t == EV_START and not running:
                    wt = 12
            cands.append((t, wt))
    tot = sum(x for _, x in cands)
    r = rnd.random() * tot
    for t, wt in cands:
        r -= wt
        if r <= 0:
            break
    return fill_event(rnd, drv, t)


def fill_event(rnd, drv, t):
    if t == EV_START:
        nxt = (drv.delivered[-1] + 1) if drv.delivered else 0
        return (t, rnd.choice([0, 0, 3, nxt, nxt, 40, OFFSET_EARLIEST, OFFSET_LATEST, OFFSET_COMMITTED, OFFSET_COMMITTED]))
    if t == EV_REQ_OK:
        return (t, rnd.choice([-1, -1, 0, 4, 9, 30]))
    if t == EV_REQ_FAIL:
        return (t, rnd.choice([FK_KAFKA, FK_KAFKA, FK_KAFKA, FK_OOR, FK_OOR, FK_OTHER, FK_CANCELLED]))
    if t == EV_COMMIT_FAIL:
        return (t, rnd.choice([FK_KAFKA, FK_KAFKA, FK_OOR, FK_OTHER, FK_CANCELLED, FK_GEN]))
    if t == EV_PLAN:
        return (t, rnd.choice([0] * 12 + [1, 2, 2, 3]), rnd.choice([0, 0, 0, 0, 1, 2, 2, 2]))
    if t == EV_PROC_FIRE:
        return (t, rnd.choice([1, 1, 1, 0]))
    if t == EV_FETCH_OK:
        last = [a for (_, what, a) in drv.sent if what == "fetch"]
        base = last[-1][0] if last else 0
        r = rnd.random()
        if r < 0.12:
            return (t, [], 1)                       # first message does not fit: ConsumerFetchSizeTooSmall
        if r < 0.2:
            return (t, [], 0)
        n = rnd.choice([1, 1, 2, 3, 4, 6])
        o = base - rnd.choice([0, 0, 0, 0, 1, 2]) if base > 2 else base
        offs = []
        for _ in range(n):
            offs.append(o)
            o += rnd.choice([1, 1, 1, 1, 2, 5])
        if rnd.random() < 0.04:
            rnd.shuffle(offs)                       # a dishonest broker: the model follows the code here too
        return (t, offs, 1 if rnd.random() < 0.05 else 0)
    return (t,)


def gen_case(rnd, length, cfg=None, weights=None, **kw):
    quiet()
    cfg = cfg or gen_cfg(rnd)
    drv = Driver(cfg, **kw)
    events = []
    for _ in range(length):
        ev = gen_event(rnd, drv, weights)
        events.append(ev)
        drv.step(ev)
    return cfg, events, drv


# ---------------------------------------------------------------- exhaustive small-scope enumeration
def small_alphabet(drv):
    """reduced alphabet, state-aware: only events enabled now (plus the API calls, always allowed)"""
    last = [a for (_, what, a) in drv.sent if what == "fetch"]
    base = last[-1][0] if last else 0
    al = [(EV_START, 0), (EV_STOP,), (EV_SHUTDOWN,), (EV_COMMIT,),
          (EV_REQ_FAIL, FK_KAFKA), (EV_FETCH_OK, [base, base + 1], 0), (EV_FETCH_OK, [], 1),
          (EV_PLAN, 0, 0), (EV_PLAN, 1, 0), (EV_PLAN, 3, 0), (EV_PROC_FIRE, 1), (EV_PROC_FIRE, 0),
          (EV_COMMIT_OK,), (EV_COMMIT_FAIL, FK_KAFKA), (EV_FIRE_RETRY,), (EV_FIRE_COMMIT_RETRY,), (EV_TICK,)]
    return [e for e in al if drv.enabled(e)]


def enumerate_cases(cfg, depth, preamble=(), alphabet=small_alphabet, limit=None):
    """all event sequences preamble ++ w, |w| = depth, every event of w enabled when it is applied.
    Yields (events, driver after the run).  The prefix is re-run for every node (the implementation cannot be cloned)."""
    quiet()
    count = [0]

    def rec(prefix, d):
        drv = Driver(cfg)
        for ev in prefix:
            drv.step(ev)
        if d == 0:
            count[0] += 1
            yield list(prefix), drv
            return
        for ev in alphabet(drv):
            if limit is not None and count[0] >= limit:
                return
            yield from rec(prefix + [ev], d - 1)
    yield from rec(list(preamble), depth)


# ---------------------------------------------------------------- helpers shared by the property drivers
def shrink(cfg, events, pred):
    """drop events (from the end first) while pred(cfg, events) stays true"""
    events = list(events)
    changed = True
    while changed:
        changed = False
        for i in range(len(events) - 1, -1, -1):
            cand = events[:i] + events[i + 1:]
            try:
                if pred(cfg, cand):
                    events, changed = cand, True
            except Exception:
                pass
    return events


def first_difference(impl_trace, model_trace):
    """(step index, impl step outputs, model step outputs) of the first differing step"""
    sa, _ = split_steps(impl_trace)
    sb, _ = split_steps(model_trace) if model_trace and model_trace != [-99] else ([], [])
    k = next((k for k, (x, y) in enumerate(zip(sa, sb)) if x != y), min(len(sa), len(sb)))
    return k, (sa[k] if k < len(sa) else None), (sb[k] if k < len(sb) else None)


ACTIVITY = (OUT_CALLPROC, OUT_FETCH, OUT_OFFREQ, OUT_OFFFETCH, OUT_COMMIT, OUT_SCHED)


def run_observed(cfg, events, **kw):
    """run a case, recording after every step what is left running (Driver.observe)"""
    quiet()
    drv = Driver(cfg, **kw)
    obs = []
    for ev in events:
        drv.step(ev)
        obs.append(drv.observe())
    return drv, obs


def print_case(cfg, events, trace):
    steps, ends = split_steps(trace)
    print("cfg", dict(zip(Cfg.FIELDS, cfg.line())))
    for ev, st, en in zip(events, steps, ends):
        print("%-18s %-22s -> %s   lp/lc=%s" % (EV_NAMES[ev[0]], list(ev[1:]), st, en))


def canon_trace(trace):
    """comparison form of a trace: DelayedCall.cancel() has no callbacks, so WHERE inside a step a timer is cancelled is
    not observable; the cancellations of a step are moved to its end, sorted (reordering the independent blocks of stop()
    is then not a difference).  Everything else keeps its order."""
    if trace == [-99]:
        return trace
    steps, ends = split_steps(trace)
    out = []
    for st, en in zip(steps, ends):
        keep = [o for o in st if o[0] != OUT_CANCEL_TIMER]
        canc = sorted(o for o in st if o[0] == OUT_CANCEL_TIMER)
        for o in keep + canc:
            out.extend(o)
        out.extend((OUT_END,) + tuple(en))
    return out


def correspond(ck, model, module, cases, impl_traces, label, nontrivial=None, describe=None):
    """vlib.Check.correspond with traces compared in canonical form (canon_trace); same evidence bookkeeping"""
    import hashlib
    mo = ck.model(model, cases)
    diffs = [i for i, (a, b) in enumerate(zip(impl_traces, mo)) if canon_trace(list(a)) != canon_trace(list(b))]
    n, bad = ck.coq_sample(model, module, [(c, o) for c, o in zip(cases, mo)])
    if bad:
        raise vlib_abort()("extracted model and vm_compute disagree on %d of %d sampled cases (%s)" % (bad, n, label))
    st = ck.cov["correspondence"].setdefault(label, {"cases": 0, "differences": 0, "in_coq_sample": 0})
    st["cases"] += len(cases)
    st["differences"] += len(diffs)
    st["in_coq_sample"] += n
    ck.cov["evaluations"] += len(cases)
    for i, c in enumerate(cases):
        if nontrivial is None or nontrivial(c, impl_traces[i]):
            ck._distinct.add(hashlib.sha1(" ".join(str(int(x)) for x in c).encode()).digest()[:8])
    if cases and len(ck.cov["samples"]) < 6:
        k = min(len(cases) - 1, 3)
        ck.cov["samples"].append({"correspondence": label, "case": (describe(cases[k]) if describe else cases[k][:60]),
                                  "impl": list(impl_traces[k])[:40], "model": mo[k][:40]})
    return diffs, mo


def vlib_abort():
    import vlib
    return vlib.CheckAbort


# ------------------------------------------------------------------ implementation-side only: the application restarts the
# consumer from a CALLBACK of the start Deferred (no model counterpart: application callbacks that re-enter the consumer
# are outside Model/Consumer.v).  stop() - the application's, the one made inside the processor, the one at the end of a
# shutdown - fires the start Deferred with last_processed_offset; a callback (addCallback / addBoth) registered by the
# application calls consumer.start(next_offset) at that very moment, i.e. while stop() is still on the stack.
class RestartCbDriver(Driver):
    RESTART_OFF = 500

    def __init__(self, cfg, mode="cb", fail_first=False, budget=1, **kw):
        self.mode = mode                  # "cb": addCallback, "both": addBoth
        self.fail_first = fail_first      # the nested start's first request is answered by an already-failed Deferred
        self.budget = budget
        self.fail_next_req = False
        self.restart_log = []             # (step_no, "succ"/"fail" trigger, "ret"/"raised", code, offset, new start Deferred)
        Driver.__init__(self, cfg, **kw)

    def new_req(self, kind):
        d = Driver.new_req(self, kind)
        if self.fail_next_req:
            self.fail_next_req = False
            d.errback(env_failure(FK_KAFKA, self.step_no))     # the client returned a Deferred that has already failed
        return d

    def watch(self, d, tag, *ids):
        if tag == OUT_START_D:
            from twisted.python.failure import Failure

            def restart(r):
                if self.budget <= 0:
                    return r
                self.budget -= 1
                trig = "fail" if isinstance(r, Failure) else "succ"
                off = self.RESTART_OFF + len(self.restart_log)
                self.fail_next_req = bool(self.fail_first)
                try:
                    d2 = self.consumer.start(off)
                except Exception as e:
                    self.fail_next_req = False
                    self.restart_log.append((self.step_no, trig, "raised", fk_of(e), off, None))
                    return r
                self.fail_next_req = False
                self.restarted_in_step = self.step_no
                self.restart_log.append((self.step_no, trig, "ret", 0, off, d2))
                self.watch(d2, OUT_START_D)
                return r
            if self.mode == "cb":
                d.addCallback(restart)
            else:
                d.addBoth(restart)
        Driver.watch(self, d, tag, *ids)

    def step(self, ev):
        Driver.step(self, ev)
        if getattr(self, "restarted_in_step", None) == self.step_no:
            self._running = True


def run_restart_cb(cfg, events, mode, fail_first, drain=8):
    """drive `events`, then let the new life run: fire the retry timer / answer the offset request / answer the fetch with
    one message at the offset asked for.  -> (driver, observations after each step, the events actually applied)"""
    quiet()
    drv = RestartCbDriver(cfg, mode=mode, fail_first=fail_first)
    obs, applied = [], []
    for ev in events:
        drv.step(ev)
        applied.append(ev)
        obs.append(drv.observe())
    if any(how == "ret" for (_, _, how, _, _, _) in drv.restart_log):
        for _ in range(drain):
            if drv.timers(T_RETRY):
                ev = (EV_FIRE_RETRY,)
            elif drv.req_pending() and drv.req[0] in (R_OFFREQ, R_OFFFETCH):
                ev = (EV_REQ_OK, 7)
            elif drv.req_pending():
                last = [a for (_, what, a) in drv.sent if what == "fetch"]
                ev = (EV_FETCH_OK, [last[-1][0]], 0)
            else:
                break
            drv.step(ev)
            applied.append(ev)
            obs.append(drv.observe())
            if drv.delivered and drv.delivered[-1] >= RestartCbDriver.RESTART_OFF:
                break
    return drv, obs, applied


def monitor_restart_cb(drv, obs, events):
    """events: the scripted events (what follows them in obs is the drain phase)"""
    bad = []
    for (step, trig, how, code, off, d2) in drv.restart_log:
        i = step - 1
        if trig != "succ":
            continue                       # the start Deferred FAILED: the consumer is still started, RestartError is right
        if how == "raised":
            bad.append(("C13_restartable", i, "start(%d) called from a callback of the start Deferred at the moment stop() "
                        "reported the consumer stopped raised %d (%s)" % (off, code, "RestartError" if code == X_RESTART else "other")))
            continue
        ob = obs[i]
        if not d2.called and not ob["req_pending"] and T_RETRY not in ob["timers"]:
            bad.append(("C14_retry_fires", i, "the consumer restarted from the start Deferred's callback (start(%d) accepted, its "
                        "start Deferred pending) has no request outstanding and no retry timer: it never retries and never fails: %r" % (off, ob)))
        later_stop = any(s > step for (s, _, _, _, _, _) in drv.restart_log) or \
            any(e[0] in (EV_STOP, EV_SHUTDOWN) or (e[0] == EV_PLAN and e[1] in (1, 3)) for e in events[step:]) or bool(drv.plan)
        if not d2.called and not later_stop and (ob["req_pending"] or T_RETRY in ob["timers"]) and off not in drv.delivered:
            bad.append(("C13_restartable", len(obs) - 1, "the consumer restarted from the start Deferred's callback at %d did not deliver "
                        "the message at %d (delivered %r, left running %r)" % (off, off, drv.delivered[-3:], obs[-1])))
    return bad


RESTART_PRES = [
    ("fetching", dict(group=0), [(EV_START, 0)]),
    ("processing", dict(group=1, acn=2), [(EV_START, 0), (EV_FETCH_OK, [0, 1, 2], 0)]),
    ("waiting-to-retry", dict(group=0), [(EV_START, 0), (EV_REQ_FAIL, FK_KAFKA)]),
    ("auto-commit-in-flight", dict(group=1, acn=1), [(EV_START, 0), (EV_PLAN, 0, 0), (EV_FETCH_OK, [0, 1], 0)]),
    ("reply-parked", dict(group=1, acn=1), [(EV_START, 0), (EV_FETCH_OK, [0, 1], 0), (EV_FIRE_RETRY,), (EV_FETCH_OK, [2, 3], 0)]),
]
RESTART_STOPPERS = [[(EV_STOP,)], [(EV_PLAN, 1, 0), (EV_FETCH_OK, "next", 0)], [(EV_SHUTDOWN,), (EV_PROC_FIRE, 1), (EV_COMMIT_OK,), (EV_COMMIT_OK,)]]


def restart_cb_family(ck, rnd, pres, reps, replay_tag="restartcb"):
    """every state class, then something that makes stop() fire the start Deferred, with the restarting callback attached;
    -> (runs, restarts made, failing)"""
    runs = restarts = failing = 0
    for _ in range(reps):
        for name, kw, pre in pres:
            for stopper in RESTART_STOPPERS:
                for mode in ("cb", "both"):
                    for fail_first in (False, True):
                        cfg = Cfg(**dict(dict(maxatt=rnd.choice([0, 3]), buf=4096, maxbuf=4096), **{k: v for k, v in kw.items() if k != "maxatt"}))
                        quiet()
                        d0 = Driver(cfg)
                        evs = []
                        for ev in list(pre) + list(stopper):
                            if ev[0] == EV_FETCH_OK and ev[1] == "next":
                                if not d0.enabled((EV_FETCH_OK, [0], 0)):
                                    continue
                                last = [a for (_, what, a) in d0.sent if what == "fetch"]
                                ev = (EV_FETCH_OK, [last[-1][0]], ev[2])
                            if not d0.enabled(ev):
                                continue
                            evs.append(ev)
                            d0.step(ev)
                        drv, obs, applied = run_restart_cb(cfg, evs, mode, fail_first)
                        runs += 1
                        restarts += len(drv.restart_log)
                        ck.hist("restart_from_start_callback:%s:%s" % (mode, "failed-first-request" if fail_first else "plain"), len(drv.restart_log))
                        bad = monitor_restart_cb(drv, obs, evs)
                        if bad:
                            failing += 1
                            if failing <= 2:
                                ck.violation({"kind": "monitor failed on the implementation's trace (start() from a callback of the start Deferred fired by stop())",
                                              "theorem": bad[0][0], "step": bad[0][1], "what": bad[0][2], "all": [list(b) for b in bad[:4]],
                                              "state_class": name, "mode": mode, "fail_first": fail_first, "cfg": cfg.line(),
                                              "events": [list(e) for e in evs], "impl_trace": drv.trace, "replay_op": replay_tag})
    return runs, restarts, failing


def replay_restart_cb(rp):
    cfg = Cfg.from_line(rp["cfg"])
    events = [tuple(e) for e in rp["events"]]
    drv, obs, applied = run_restart_cb(cfg, events, rp["mode"], rp["fail_first"])
    print_case(cfg, applied, drv.trace)
    print("restart log:", [(s, t, h, c, o) for (s, t, h, c, o, _) in drv.restart_log])
    print("left running after each step:", obs)
    bad = monitor_restart_cb(drv, obs, events)
    print("monitor verdict:", bad if bad else "passes")
    return 1 if bad else 0


def probe_F_C13_7():
    """F-C13-7 (repaired in /repo 7d0d3e7): the stop() at the end of shutdown() fired the start Deferred while _shuttingdown was
    still set; a callback there that called start() and whose first request failed at once lost its retry (dropped by the
    _shuttingdown guard of _retry_fetch): started, start Deferred pending, no request, no timer.
    -> (observed, cfg, events, driver, observations)"""
    cfg = Cfg(group=0, maxatt=3, buf=4096, maxbuf=4096)
    events = [(EV_START, 0), (EV_SHUTDOWN,)]
    drv, obs, applied = run_restart_cb(cfg, events, "cb", True, drain=0)
    made = [x for x in drv.restart_log if x[1] == "succ" and x[2] == "ret"]
    observed = bool(made) and not made[0][5].called and not obs[1]["req_pending"] and T_RETRY not in obs[1]["timers"]
    return observed, cfg, events, drv, obs
