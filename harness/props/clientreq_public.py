# Shared by C11 and C20: the REAL public entry points of KafkaClient (send_produce_request, send_fetch_request,
# send_offset_request, send_offset_fetch_request, send_offset_commit_request, load_metadata_for_topics,
# load_coordinator_for_group, _load_topic_partitions) and the group code's coordinator requests (the real
# afkak._group.Coordinator.send_join_group_request with its 35 s minimum, send_heartbeat_request) driven over
# harness/simnet.py against a scripted honest broker, with MONITORS ONLY (no model correspondence: the model's alphabet
# is the _make_request_to_broker layer, see Model/ClientReq.v).  The monitors restate, per wire request:
#   C11  - one DelayedCall of max(client timeout, declared minimum) is armed in the reactor turn that issues the request;
#        - reply first: that DelayedCall is cancelled in the turn of the reply, the caller's Deferred succeeds;
#        - timeout first: in the turn that DelayedCall fires the request is given up (RequestTimedOutError, wrapped in
#          FailedPayloadsError / KafkaUnavailableError / CoordinatorNotAvailable as that entry point documents);
#        - no DelayedCall of a resolved call stays armed.
#   C20  - close() with such calls pending: every one of them is resolved inside close() and none succeeds; new calls fail
#          without any network activity; all four caches (topic_errors, topics_to_brokers, topic_partitions, coordinator
#          cache - all NON-EMPTY before close) are empty afterwards; once every broker connection is gone no DelayedCall is
#          left and the close Deferred has fired exactly once.
# A scenario is pure data (seed + configuration), so a violation is replayable: {"public": True, "seed": s, "cfg": {...}}.
import random
import struct

import simnet
from props import clientreq_lib as L

_s16 = L._s16


def s32(x):
    return struct.pack(">i", L.s32(x))


# ------------------------------------------------------------------ independent response encoders (Kafka protocol guide, v0)
def enc_produce_resp(corr, tps):
    b = s32(corr) + struct.pack(">i", len(tps))
    for t, p in tps:
        b += _s16(t) + struct.pack(">i", 1) + struct.pack(">ihq", p, 0, 7)
    return b


def enc_fetch_resp(corr, tps):
    b = s32(corr) + struct.pack(">i", len(tps))
    for t, p in tps:
        b += _s16(t) + struct.pack(">i", 1) + struct.pack(">ihq", p, 0, 0) + struct.pack(">i", 0)
    return b


def enc_offset_resp(corr, tps):
    b = s32(corr) + struct.pack(">i", len(tps))
    for t, p in tps:
        b += _s16(t) + struct.pack(">i", 1) + struct.pack(">ih", p, 0) + struct.pack(">i", 1) + struct.pack(">q", 5)
    return b


def enc_offset_fetch_resp(corr, tps):
    b = s32(corr) + struct.pack(">i", len(tps))
    for t, p in tps:
        b += _s16(t) + struct.pack(">i", 1) + struct.pack(">iq", p, 3) + _s16(b"") + struct.pack(">h", 0)
    return b


def enc_offset_commit_resp(corr, tps):
    b = s32(corr) + struct.pack(">i", len(tps))
    for t, p in tps:
        b += _s16(t) + struct.pack(">i", 1) + struct.pack(">ih", p, 0)
    return b


def enc_coordinator_resp(corr, node, addr):
    return s32(corr) + struct.pack(">hi", 0, node) + _s16(L.host_of(addr)) + struct.pack(">i", L.port_of(addr))


def enc_join_resp(corr):
    return s32(corr) + struct.pack(">hi", 0, 1) + _s16("consumer") + _s16("m1") + _s16("m1") + struct.pack(">i", 0)


def enc_heartbeat_resp(corr):
    return s32(corr) + struct.pack(">h", 0)


def enc_metadata_resp(corr, brokers, topics, bad=()):
    """brokers [(node, addr)], topics [(name, [(partition, leader)])]; names in `bad` get error 5 and no partitions"""
    b = s32(corr) + struct.pack(">i", len(brokers))
    for n, a in brokers:
        b += struct.pack(">i", n) + _s16(L.host_of(a)) + struct.pack(">i", L.port_of(a))
    b += struct.pack(">i", len(topics) + len(bad))
    for name, parts in topics:
        b += struct.pack(">h", 0) + _s16(name) + struct.pack(">i", len(parts))
        for p, leader in parts:
            b += struct.pack(">hiii", 0, p, leader, 1) + struct.pack(">i", leader) + struct.pack(">i", 1) + struct.pack(">i", leader)
    for name in bad:
        b += struct.pack(">h", 5) + _s16(name) + struct.pack(">i", 0)
    return b


API_NAMES = {0: "produce", 1: "fetch", 2: "offsets", 3: "metadata", 8: "offset_commit", 9: "offset_fetch", 10: "coordinator",
             11: "join", 12: "heartbeat"}

BROKERS = [(1, 5), (2, 6)]
TOPICS = [("t0", [(0, 1), (1, 2)]), ("t1", [(0, 2)])]
LEADER = {("t0", 0): 1, ("t0", 1): 2, ("t1", 0): 2}
GROUP = "g0"
COORD = (1, 5)


class Call(object):
    def __init__(self, name, d, nreq, delay, wrapped):
        self.name, self.d, self.nreq, self.delay, self.wrapped = name, d, nreq, delay, wrapped
        self.result = []
        self.timers = []
        self.helper = False       # the call needed a metadata / coordinator lookup or a bootstrap connection first
        d.addBoth(self.result.append)

    def outcome(self):
        """'pending' | 'ok' | 'timeout' | 'fail:<type>'"""
        from twisted.python.failure import Failure
        from afkak import common as C
        if not self.result:
            return "pending"
        r = self.result[0]
        if not isinstance(r, Failure):
            return "ok"
        e = r.value
        seen = [e]
        if isinstance(e, C.FailedPayloadsError):
            seen += [f.value for _p, f in e.failed_payloads]
        c = e
        while getattr(c, "__cause__", None) is not None:
            c = c.__cause__
            seen.append(c)
        if any(isinstance(x, C.RequestTimedOutError) for x in seen):
            return "timeout"
        return "fail:" + type(e).__name__


class PublicSim(object):
    def __init__(self, cfg, seed):
        from afkak.client import KafkaClient
        self.cfg, self.rnd = cfg, random.Random(seed)
        self.log = []
        self.clock = L.MarkClock(self.log)
        self.net = (L.RealisticNet if cfg.get("cancel") == "connecting" else simnet.SimNet)(self.log)
        self.policy = L.Policy()
        self.client = KafkaClient([(L.host_of(9), L.port_of(9))], reactor=self.clock, endpoint_factory=self.net,
                                  retry_policy=self.policy, timeout=cfg["timeout"], disconnect_on_timeout=cfg["dot"],
                                  enable_protocol_version_discovery=False)
        self.bad = []             # (theorem, message)
        self.armed = {}           # DelayedCall id -> ("call", Call) | ("other",)
        self.calls = []
        self.history = []         # readable account of what was done
        self.frames = {}          # conn id -> undelivered bytes buffer
        self.requests = []        # (conn, api, corr, answered?) in write order
        self.closed = False
        self.closefired = 0
        self.coord = None
        self.acc_scheds = []      # (id, delay) since the last accounting point
        self.acc_reqs = []        # (conn, api, corr, is_broker_conn) written since the last accounting point
        self.seen_corr = set()    # correlation ids already written on a broker connection (re-sends are not new requests)
        self.api_tps = {}         # api key -> (topic, partition) list of the latest call of that api

    def B(self, thm, msg):
        self.bad.append((thm, msg))

    # ---- reactor turn bookkeeping: drain the shared log
    def drain(self, expect_call=None):
        """-> dict(scheds=[(id, delay)], cancels=[id], fired=[id], writes=[(conn, api, corr)], connects=n, loses=n)"""
        out = {"scheds": [], "cancels": [], "fired": [], "writes": [], "connects": 0, "loses": 0, "bootconnects": 0}
        for e in self.log:
            k = e[0]
            if k == "sched":
                out["scheds"].append((e[1], e[2]))
                self.acc_scheds.append((e[1], e[2]))
                self.armed[e[1]] = ("other",)
            elif k == "cancel_timer":
                out["cancels"].append(e[1])
                if e[1] not in self.armed:
                    self.B("C11_timer_released", "DelayedCall %d cancelled but not armed" % e[1])
                self.armed.pop(e[1], None)
            elif k == "fired":
                out["fired"].append(e[1])
                self.armed.pop(e[1], None)
            elif k == "write":
                buf = self.frames.get(e[1], b"") + e[2]
                while len(buf) >= 4:
                    n = struct.unpack(">I", buf[:4])[0]
                    if len(buf) < 4 + n:
                        break
                    api, _ver, corr = struct.unpack(">hhi", buf[4:12])
                    out["writes"].append((e[1], api, corr))
                    self.requests.append([e[1], api, corr, False, buf[4:4 + n]])
                    self.acc_reqs.append((e[1], api, corr, self.node_of_conn(e[1]) is not None))
                    buf = buf[4 + n:]
                self.frames[e[1]] = buf
            elif k == "connect":
                out["connects"] += 1
            elif k == "lose":
                out["loses"] += 1
            elif k == "reset_timer":
                self.B("C11_timer_never_rearmed", "DelayedCall %d was reset / delayed: a request's deadline must not move" % e[1])
        del self.log[:]
        if len(self.clock.getDelayedCalls()) != len(self.armed):
            self.B("C11_timer_released", "reactor holds %d DelayedCalls, the trace accounts for %d" % (len(self.clock.getDelayedCalls()), len(self.armed)))
        if self.closed and (out["writes"] or out["connects"] or out["scheds"]):
            self.B("C20_no_connect_no_write_after_close", "after close(): %r" % ({k: v for k, v in out.items() if v},))
        return out

    def transports(self):
        return [t for t in self.net.transports if t.live]

    def accept_all(self):
        n = 0
        while self.net.pending() and n < 20:
            n += 1
            self.net.pending()[0].accept()
        return self.drain()

    def reply_to(self, req):
        conn, api, corr, _a, body = req
        tr = next((t for t in self.net.transports if t.conn_id == conn and t.live), None)
        if tr is None:
            return None
        req[3] = True
        node = self.node_of_conn(conn)
        tps = self.api_tps.get(api) or []
        if api in (0, 1, 2):
            tps = [tp for tp in tps if LEADER[tp] == node] or tps
        if api == 3:
            names = parse_metadata_topics(body)
            resp = enc_metadata_resp(corr, BROKERS, [t for t in TOPICS if not names or t[0] in names], bad=[n for n in names if n in self.bad_topics])
        elif api == 10:
            resp = enc_coordinator_resp(corr, *COORD)
        elif api == 0:
            resp = enc_produce_resp(corr, tps)
        elif api == 1:
            resp = enc_fetch_resp(corr, tps)
        elif api == 2:
            resp = enc_offset_resp(corr, tps)
        elif api == 9:
            resp = enc_offset_fetch_resp(corr, tps)
        elif api == 8:
            resp = enc_offset_commit_resp(corr, tps)
        elif api == 11:
            resp = enc_join_resp(corr)
        elif api == 12:
            resp = enc_heartbeat_resp(corr)
        else:
            return None
        try:
            tr.deliver(simnet.frame(resp))
        except Exception as e:
            self.B("C11_late_reply_inert", "the implementation raised on a reply to api %d: %s: %s" % (api, type(e).__name__, str(e)[:100]))
        return self.drain()

    # ---- public calls
    asked = {}
    bad_topics = ()

    def expected_delay(self, min_s=None):
        t = float(self.cfg["timeout"]) / 1000.0
        return t if min_s is None else max(t, min_s)

    def issue(self, kind):
        """make one public call; returns the Call (or None if it raised synchronously)"""
        from afkak import common as C
        c, rnd = self.client, self.rnd
        tps = None
        min_s = None
        nreq = 1
        req0 = len(self.requests)
        try:
            if kind == "produce":
                tps = rnd.choice([[("t0", 0)], [("t1", 0)], [("t0", 0), ("t0", 1)]])
                acks = rnd.choice([1, 1, 0])
                d = c.send_produce_request([C.ProduceRequest(t, p, []) for t, p in tps], acks=acks)
                kind = "produce(acks=%d)" % acks
            elif kind == "fetch":
                tps = rnd.choice([[("t0", 1)], [("t0", 0), ("t1", 0)]])
                d = c.send_fetch_request([C.FetchRequest(t, p, 0, 1024) for t, p in tps])
            elif kind == "offsets":
                tps = [("t1", 0)]
                d = c.send_offset_request([C.OffsetRequest(t, p, -1, 1) for t, p in tps])
            elif kind == "offset_fetch":
                tps = [("t0", 0)]
                d = c.send_offset_fetch_request(GROUP, [C.OffsetFetchRequest(t, p) for t, p in tps])
            elif kind == "offset_commit":
                tps = [("t0", 1)]
                d = c.send_offset_commit_request(GROUP, [C.OffsetCommitRequest(t, p, 3, 0, b"") for t, p in tps])
            elif kind == "join":
                d = self.coordinator().send_join_group_request()
                min_s = 35.0
            elif kind == "heartbeat":
                co = self.coordinator()
                co.generation_id, co.member_id = 1, "m1"
                d = co.send_heartbeat_request()
            elif kind == "metadata":
                d = c.load_metadata_for_topics("t0")
            elif kind == "coordinator":
                d = c.load_coordinator_for_group(GROUP)
            elif kind == "topic_partitions":
                d = c._load_topic_partitions("t0")
            else:
                raise ValueError(kind)
        except Exception as e:
            self.history.append((kind, "raised %s" % type(e).__name__))
            if not self.closed:
                self.B("C11_bound", "public call %s raised %s: %s" % (kind, type(e).__name__, str(e)[:100]))
            self.drain()
            return None
        if tps is not None and not kind.startswith("offset_"):
            nreq = len({LEADER[tp] for tp in tps})
        call = Call(kind, d, nreq, self.expected_delay(min_s), tps)
        call.req0 = req0
        self.calls.append(call)
        self.history.append((kind, tps))
        if tps is not None:
            api = {"produce": 0, "fetch": 1, "offsets": 2, "offset_fetch": 9, "offset_commit": 8}[kind.split("(")[0]]
            self.api_tps[api] = tps
        turn = self.drain()
        return call, turn

    def account(self, call=None):
        """C11_timer_at_issue on the wire: since the last accounting point, every NEW request written (a correlation id not
        written before on a broker connection; every write on a bootstrap connection) has exactly one DelayedCall armed for
        it, with delay max(client timeout, the minimum its entry point declares) - JoinGroup: 35 s."""
        want = []
        for conn, api, corr, is_bc in self.acc_reqs:
            if is_bc:
                key = (self.bc_of_conn(conn), corr)       # the same id on the same broker client again = a re-send
                if key in self.seen_corr:
                    continue
                self.seen_corr.add(key)
                if call is not None and api in (3, 10) and not call.name.startswith(("metadata", "coordinator", "topic_partitions")):
                    call.helper = True
            elif call is not None:
                call.helper = True
            want.append(self.expected_delay(35.0 if api == 11 else None))
        pol = set()
        for k in self.policy.calls:
            pol.add(L.Policy.value(k).hex())
        got = [dl for _i, dl in self.acc_scheds if not (isinstance(dl, float) and dl.hex() in pol)]
        if sorted(x.hex() for x in want) != sorted(float(x).hex() for x in got):
            self.B("C11_timer_at_issue", "%s: new requests on the wire %r need DelayedCalls of %r s, armed: %r"
                   % (call.name if call else "?", [(API_NAMES.get(a, a), c) for _x, a, c, _b in self.acc_reqs], sorted(want), sorted(got)))
        if call is not None:
            for i, dl in self.acc_scheds:
                if i in self.armed and isinstance(dl, float) and dl.hex() not in pol:
                    call.timers.append(i)
                    self.armed[i] = ("call", call)
        self.acc_scheds, self.acc_reqs = [], []

    def coordinator(self):
        if self.coord is None:
            from afkak._group import Coordinator
            self.coord = Coordinator(self.client, GROUP, ["t0"])
            self.coord.rejoin_after_error = lambda f, label=None: f       # the group's reaction is not under test here
        return self.coord

    def bc_of_conn(self, conn):
        for a in self.net.attempts:
            if a.transport is not None and a.transport.conn_id == conn:
                return id(a.factory)
        return None

    def node_of_conn(self, conn):
        for a in self.net.attempts:
            if a.transport is not None and a.transport.conn_id == conn:
                return getattr(a.factory, "node_id", None)
        return None


def parse_metadata_topics(body):
    r = 8
    n = struct.unpack(">h", body[r:r + 2])[0]
    r += 2 + max(n, 0)
    cnt = struct.unpack(">i", body[r:r + 4])[0]
    r += 4
    out = []
    for _ in range(cnt):
        n = struct.unpack(">h", body[r:r + 2])[0]
        out.append(body[r + 2:r + 2 + n].decode())
        r += 2 + n
    return out


KINDS_KNOWN = ["produce", "fetch", "offsets", "offset_fetch", "offset_commit", "join", "heartbeat", "metadata"]


def scenario(seed, cfg):
    """one history on the real client; returns (violations, stats, history)"""
    sim = PublicSim(cfg, seed)
    rnd = sim.rnd
    c = sim.client
    stats = {}

    def st(k):
        stats[k] = stats.get(k, 0) + 1

    def check_issue(call, turn, bootstrap=False):
        """bring every connection up (queued requests get written), then account for the new wire requests"""
        sim.accept_all()
        sim.account(call)

    def settle_replies(call):
        """answer every unanswered request on the wire that belongs to this call's api; reply-first"""
        n = 0
        for idx, req in enumerate(list(sim.requests)):
            if req[3] or call.outcome() != "pending":
                continue
            before = set(sim.armed)
            turn = sim.reply_to(req)
            if turn is None:
                continue
            if idx < call.req0:
                # a reply to a request of an earlier call that was given up: must change nothing
                if turn["writes"] or turn["scheds"] or turn["cancels"]:
                    sim.B("C11_late_reply_inert", "late reply to id %d produced %r" % (req[2], {k: v for k, v in turn.items() if v}))
                continue
            n += 1
            sim.accept_all()
            sim.account(call)     # a reply may make the operation issue its next request
            gone = [t for t in call.timers if t in before and t not in sim.armed]
            if call.timers and not gone and not turn["scheds"] and call.outcome() == "pending" and req[1] not in (3, 10):
                sim.B("C11_timer_released", "%s: reply to request id %d did not release any of its DelayedCalls %r" % (call.name, req[2], call.timers))
        return n

    def finish_check(call):
        o = call.outcome()
        left = [t for t in call.timers if t in sim.armed]
        if o != "pending" and left:
            sim.B("C11_timer_released", "%s resolved (%s) and its DelayedCalls %r are still armed" % (call.name, o, left))
        st("call_%s" % o.split(":")[0])

    # ---- phase A: bootstrap metadata, coordinator lookup (their own requests are bounded too)
    r = sim.issue("metadata")
    if r:
        call, turn = r
        check_issue(call, turn)
        settle_replies(call)
        if call.outcome() != "ok":
            sim.B("C11_bound", "initial load_metadata_for_topics over a bootstrap host: %s" % call.outcome())
    r = sim.issue("coordinator")
    if r:
        call, turn = r
        check_issue(call, turn)
        sim.accept_all()
        settle_replies(call)
        finish_check(call)
    # full metadata for every topic (so that produce/fetch find their leaders)
    d = c.load_metadata_for_topics()
    d.addErrback(lambda f: None)
    sim.drain()
    sim.accept_all()
    sim.account()
    for req in list(sim.requests):
        if not req[3]:
            sim.reply_to(req)
    sim.account()
    caches = lambda: (len(c.topic_errors), len(c.topics_to_brokers), len(c.topic_partitions), len(c.consumer_group_to_brokers))
    if min(caches()) == 0:
        sim.B("C20_metadata_cleared", "set-up failed to fill all four caches: %r" % (caches(),))

    # ---- phase B: public calls, each with a fate
    ncalls = rnd.randint(3, 8)
    pending = []
    nleave = rnd.choice([0, 1, 1, 2])      # only the last calls may be left pending: no overlap with the checks of earlier ones
    for ci in range(ncalls):
        kind = rnd.choice(KINDS_KNOWN)
        r = sim.issue(kind)
        if not r:
            continue
        call, turn = r
        st("issued_" + kind)
        check_issue(call, turn)
        t2 = sim.accept_all()
        fate = "leave" if ci >= ncalls - nleave else rnd.choice(["reply", "reply", "timeout", "late"])
        if call.outcome() != "pending":
            finish_check(call)
            continue
        if fate == "reply":
            rounds = 0
            while call.outcome() == "pending" and rounds < 8:      # an operation may issue follow-up requests
                rounds += 1
                sim.accept_all()
                if not settle_replies(call):
                    break
            if call.outcome() != "ok":
                sim.B("C11_timer_released", "%s answered honestly: outcome %s" % (call.name, call.outcome()))
            finish_check(call)
        elif fate in ("timeout", "late"):
            guard = 0
            while call.outcome() == "pending" and sim.clock.pending() and guard < 12:
                guard += 1
                nxt = sim.clock.pending()[0]
                mine = (nxt.sim_id in call.timers)
                sim.clock.fire_next()
                turn = sim.drain()
                sim.accept_all()
                sim.account(call)
                if mine and call.nreq == 1 and not call.helper and call.outcome() == "pending" and not call.name.startswith(("metadata", "coordinator", "topic_partitions")):
                    sim.B("C11_bound", "%s: its DelayedCall %d fired and the call is still pending" % (call.name, nxt.sim_id))
                if mine and sim.cfg["dot"] and not turn["loses"] and sim.transports():
                    pass    # the drop is requested only if that broker client was connected; covered by the model-level check
            if call.timers and call.outcome() == "ok":
                sim.B("C11_bound", "%s never answered: outcome ok" % call.name)
            ok_fail = ("timeout", "pending") + (("fail:KafkaUnavailableError", "fail:CoordinatorNotAvailable", "fail:FailedPayloadsError")
                                                if call.helper or call.name.startswith(("metadata", "coordinator")) else ())
            if call.outcome() not in ok_fail and call.timers:
                sim.B("C11_bound", "%s timed out: outcome %s (expected a RequestTimedOutError)" % (call.name, call.outcome()))
            finish_check(call)
            if fate == "late":
                for req in list(sim.requests):
                    if not req[3]:
                        before = dict(sim.armed)
                        turn = sim.reply_to(req)
                        if turn and (turn["writes"] or turn["scheds"] or turn["cancels"]):
                            sim.B("C11_late_reply_inert", "late reply to id %d produced %r" % (req[2], {k: v for k, v in turn.items() if v}))
        else:
            pending.append(call)
            for req in sim.requests:
                req[3] = True      # never answered
        # connections dropped on timeout come back when needed
        for t in sim.transports():
            if t.disconnecting:
                t.report_lost()
        sim.drain()
        sim.accept_all()
        sim.account()
        for req in sim.requests:
            if not req[3] and fate != "leave":
                req[3] = True      # re-sent copies are tracked as new requests

    # ---- phase C: close() with calls pending
    extra = rnd.choice([None, "produce", "join", "topic_partitions_backoff", "metadata"])
    if extra == "topic_partitions_backoff":
        sim.bad_topics = ("t0",)
        c.reset_topic_metadata("t0")
        r = sim.issue("topic_partitions")
        if r:
            call, turn = r
            check_issue(call, turn)
            settle_replies(call)       # answered "t0: error 5, no partitions" -> the operation waits in its retry back-off
            pending.append(call)
            st("close_during_retry_backoff")
    elif extra:
        r = sim.issue(extra)
        if r:
            call, turn = r
            if rnd.random() < 0.5:
                check_issue(call, turn)
            pending.append(call)
    before = caches()
    pend = [x for x in pending if x.outcome() == "pending"]
    try:
        dclose = c.close()
    except Exception as e:
        sim.B("C20_pending_end", "close() raised %s" % type(e).__name__)
        return sim.bad, stats, sim.history
    sim.closed = True
    dclose.addCallback(lambda _: setattr(sim, "closefired", sim.closefired + 1))
    turn = sim.drain()
    sim.history.append(("close", [x.name for x in pend]))
    st("closed_with_%d_pending" % min(len(pend), 3))
    for x in pend:
        o = x.outcome()
        if o == "pending":
            sim.B("C20_pending_end", "%s pending at close() is still unresolved after close() returned (caches before %r)" % (x.name, before))
        elif o == "ok" and not x.name.startswith("metadata"):
            sim.B("C20_pending_fail", "%s pending at close() succeeded" % x.name)
    if caches() != (0, 0, 0, 0):
        sim.B("C20_metadata_cleared", "caches after close(): %r (before: %r)" % (caches(), before))
    if sim.closefired and [t for t in sim.transports() if getattr(t.protocol, "factory", None) is not None and hasattr(t.protocol.factory, "makeRequest")]:
        sim.B("C20_close_fires_last", "the close Deferred fired while broker connections are still up")
    # new public calls are refused without touching the network
    for kind in rnd.sample(KINDS_KNOWN, 3):
        r = sim.issue(kind)
        if r:
            call, t3 = r
            if call.outcome() in ("pending", "ok"):
                sim.B("C20_new_ops_fail", "%s after close(): %s" % (kind, call.outcome()))
    # the connections go away: the close Deferred fires, exactly once, nothing is left armed
    for t in sim.transports():
        t.report_lost()
        sim.drain()
    if sim.closefired != 1:
        sim.B("C20_close_fires_last", "every connection is gone and the close Deferred fired %d times" % sim.closefired)
    if sim.clock.getDelayedCalls():
        sim.B("C20_pending_end", "DelayedCalls left armed after close() and the loss of every connection: %d" % len(sim.clock.getDelayedCalls()))
    for x in sim.calls:
        if x.outcome() == "pending":
            sim.B("C20_pending_end", "%s never resolved" % x.name)
    if caches() != (0, 0, 0, 0):
        sim.B("C20_metadata_cleared", "caches refilled after close(): %r" % (caches(),))
    return sim.bad, stats, sim.history


def reentrant_close_scenario(seed, cfg):
    """Directed family (implementation side only; user callbacks that re-enter the client are outside Model/ClientReq.v):
    several public requests are queued on ONE broker while its connection is not up yet; one of them is a no-reply produce
    (acks=0) whose callback calls client.close().  When the connection comes up the broker client flushes its queue, the
    no-reply request completes inside that flush and close() runs there.  Monitor (C20_no_connect_no_write_after_close on
    the real code): NOTHING is written, no connection is attempted and no DelayedCall is armed after close() was called -
    in particular not the requests that were queued behind the no-reply one; every other call ends and none succeeds; the
    caches are empty; once the connection is gone the close Deferred has fired exactly once and no DelayedCall is left."""
    from afkak import common as C
    sim = PublicSim(cfg, seed)
    rnd, c = sim.rnd, sim.client
    stats = {}
    # metadata over the bootstrap host: the cluster is known, no broker client is connected yet
    d = c.load_metadata_for_topics()
    d.addErrback(lambda f: None)
    sim.drain()
    sim.accept_all()
    for req in list(sim.requests):
        if not req[3]:
            sim.reply_to(req)
    for t in sim.transports():          # the ephemeral bootstrap connection goes away
        t.report_lost()
    sim.drain()
    if sim.net.pending() or not c.topics_to_brokers:
        sim.B("C20_no_connect_no_write_after_close", "set-up: metadata not loaded over the bootstrap host")
        return sim.bad, stats, sim.history
    # all of them on broker 1 (leader of t0/0; coordinator of g0 is looked up first, so group calls are not used here)
    plan = ["noreply"]
    others = rnd.randint(1, 3)
    for _ in range(others):
        plan.insert(rnd.choice([len(plan), len(plan), 0]), rnd.choice(["produce", "fetch", "offsets0", "noreply_plain"]))
    closer = []

    def do_close(_r):
        sim.log.append(("close_called",))
        closer.append(c.close())
        closer[0].addCallback(lambda _: setattr(sim, "closefired", sim.closefired + 1))
        return _r
    calls = []
    for what in plan:
        if what == "noreply":
            d = c.send_produce_request([C.ProduceRequest("t0", 0, [])], acks=0)
            d.addCallback(do_close)
        elif what == "noreply_plain":
            d = c.send_produce_request([C.ProduceRequest("t0", 0, [])], acks=0)
        elif what == "produce":
            d = c.send_produce_request([C.ProduceRequest("t0", 0, [])], acks=1)
        elif what == "fetch":
            d = c.send_fetch_request([C.FetchRequest("t0", 0, 0, 1024)])
        else:
            d = c.send_offset_request([C.OffsetRequest("t0", 0, -1, 1)])
        call = Call(what, d, 1, sim.expected_delay(), [("t0", 0)])
        calls.append(call)
        sim.history.append((what, "queued"))
    turn = sim.drain()
    if turn["writes"] or closer:
        sim.B("C20_no_connect_no_write_after_close", "set-up: requests were written before the connection was up")
        return sim.bad, stats, sim.history
    if len(sim.net.pending()) != 1:
        sim.B("C20_no_connect_no_write_after_close", "set-up: %d connection attempts for one broker" % len(sim.net.pending()))
        return sim.bad, stats, sim.history
    # the connection comes up: the flush, and close() inside it
    try:
        sim.net.pending()[0].accept()
    except Exception as e:
        sim.B("C20_pending_end", "the flush raised %s: %s" % (type(e).__name__, str(e)[:100]))
    log = list(sim.log)
    sim.history.append(("connection up", [e[0] for e in log]))
    if not closer:
        sim.B("C20_no_connect_no_write_after_close", "set-up: the no-reply request did not complete in the flush")
        return sim.bad, stats, sim.history
    at = [i for i, e in enumerate(log) if e[0] == "close_called"][0]
    after = [e for e in log[at + 1:] if e[0] in ("write", "connect", "sched")]
    npos = plan.index("noreply")
    stats["reentrant_close_with_%d_queued_behind" % (len(plan) - 1 - npos)] = 1
    if after:
        sim.B("C20_no_connect_no_write_after_close",
              "close() called from the callback of a no-reply request during the flush; afterwards: %r (queue %r)"
              % ([(e[0],) + tuple(x if not isinstance(x, bytes) else len(x) for x in e[1:]) for e in after], plan))
    sim.drain()
    sim.closed = True
    for i, x in enumerate(calls):
        o = x.outcome()
        if o == "pending":
            sim.B("C20_pending_end", "%s (position %d of %r) is unresolved after close() inside the flush" % (x.name, i, plan))
        elif o == "ok" and i > npos and not x.name.startswith("noreply"):
            sim.B("C20_pending_fail", "%s queued behind the closing request succeeded" % x.name)
    if (len(c.topic_errors), len(c.topics_to_brokers), len(c.topic_partitions), len(c.consumer_group_to_brokers)) != (0, 0, 0, 0):
        sim.B("C20_metadata_cleared", "caches after close() inside the flush are not empty")
    for t in sim.transports():
        t.report_lost()
        sim.drain()
    if sim.closefired != 1:
        sim.B("C20_close_fires_last", "every connection is gone and the close Deferred fired %d times" % sim.closefired)
    if sim.clock.getDelayedCalls():
        sim.B("C20_pending_end", "DelayedCalls left armed after close() inside the flush: %d" % len(sim.clock.getDelayedCalls()))
    return sim.bad, stats, sim.history


def run_public(ck, which, n):
    """run n seeded scenarios; report violations of the theorems whose names start with one of `which`"""
    if "C20" in which:
        rnd = random.Random(ck.seed + 211)
        nre, nbad = max(12, n // 4), 0
        tot = {}
        for k in range(nre):
            cfg = {"timeout": rnd.choice([5000, 1000, 40000]), "dot": rnd.random() < 0.5, "cancel": rnd.choice(["plain", "connecting"])}
            seed = rnd.randrange(1 << 30)
            try:
                bad, stats, hist = reentrant_close_scenario(seed, cfg)
            except Exception as e:
                import traceback
                ck.violation({"kind": "check-machinery-failure", "where": "re-entrant close scenario", "seed": seed, "cfg": cfg,
                              "error": repr(e), "traceback": traceback.format_exc()[-2000:]}, no_input=True)
                break
            for key, v in stats.items():
                tot[key] = tot.get(key, 0) + v
            sel = [b for b in bad if b[0][:3] in which]
            if sel and nbad < 2:
                nbad += 1
                ck.violation({"kind": "monitor (public entry points, close() from a user callback)", "theorem": sel[0][0],
                              "what": [b[1] for b in sel][:4], "public": True, "family": "reentrant_close", "seed": seed, "cfg": cfg,
                              "history": [list(map(str, h)) for h in hist], "replay_op": "public"})
        for key, v in sorted(tot.items()):
            ck.hist("public_" + key, v)
        ck.cov["evaluations"] += nre
    rnd = random.Random(ck.seed + 101)
    total = {}
    nbad = 0
    for k in range(n):
        cfg = {"timeout": rnd.choice([5000, 1000, 10000, 40000]), "dot": rnd.random() < 0.5,
               "cancel": rnd.choice(["plain", "connecting"])}
        seed = rnd.randrange(1 << 30)
        try:
            bad, stats, hist = scenario(seed, cfg)
        except Exception as e:       # a harness problem must not hide: report it as machinery failure
            import traceback
            ck.violation({"kind": "check-machinery-failure", "where": "public-path scenario", "seed": seed, "cfg": cfg,
                          "error": repr(e), "traceback": traceback.format_exc()[-2000:]}, no_input=True)
            return total
        for key, v in stats.items():
            total[key] = total.get(key, 0) + v
        sel = [b for b in bad if b[0][:3] in which]
        if sel and nbad < 3:
            nbad += 1
            ck.violation({"kind": "monitor (public entry points)", "theorem": sel[0][0], "what": [b[1] for b in sel][:4],
                          "public": True, "seed": seed, "cfg": cfg, "history": [list(map(str, h)) for h in hist], "replay_op": "public"})
    for key, v in sorted(total.items()):
        ck.hist("public_" + key, v)
    ck.cov["evaluations"] += n
    return total


def replay_public(rp, which):
    fn = reentrant_close_scenario if rp.get("family") == "reentrant_close" else scenario
    bad, stats, hist = fn(rp["seed"], rp["cfg"])
    for h in hist:
        print(h)
    sel = [b for b in bad if b[0][:3] in which]
    print("monitor:", sel)
    return 1 if sel else 0
