# C07 - requests reach the responsible broker; results return in payload order; failed/answered accounting;
# fallback order of broker-agnostic requests; host normalisation.
# Drives the REAL afkak KafkaClient (task.Clock, puppet endpoints, an independent little Kafka request parser /
# response encoder on the network side: harness/props/client_lib.py) through seeded histories; what each simulated
# broker connection received (which payloads, at which address) and what the caller got back are compared with the
# extracted model coq/Model/ClientRun.v (ClientRoute.v over ClientMeta.v) run on the same history with the shuffle
# orders read back from the implementation; monitors restate the theorems of coq/Props/C07.v on the implementation's
# own observations.
import itertools
import random

import vlib
from props import client_gen as G
from props import client_lib as CL
from props import client_overlap as O

MODEL = "clientrun"
MODULE = "Model.ClientRun"
PID = "C07"
THEOREMS = ["C07_routing", "C07_request_address", "C07_all_or_nothing", "C07_coordinator_request", "C07_order", "C07_order_acks0",
            "C07_accounting", "C07_fallback_order", "C07_no_keyerror", "C07_no_keyerror_agnostic"]
HOST_THEOREMS = ["C07_normalize_hosts_sorted", "C07_normalize_hosts_dedup", "C07_normalize_hosts_members",
                 "C07_normalize_hosts_idempotent", "C07_normalize_hosts_order_irrelevant"]


def _meta(brokers, topics):
    return {"brokers": brokers, "topics": topics}


M3 = _meta([[1, 101, 9092], [2, 102, 9092], [3, 103, 9092]],
           [[0, 0, [[0, 0, 1], [0, 1, 2], [0, 2, 1], [0, 3, -1]]], [0, 1, [[0, 0, 3], [0, 1, 2]]]])


def _send(keys, api="offset", group=None, **plan):
    return {"op": "send", "api": api, "group": group, "fail": False, "expect": True, "payloads": [list(k) for k in keys],
            "plan": dict(plan)}


def corpus():
    base = {"hosts": [[101, 9092], [9, 9092]], "form": "tuples", "universe": G.UNIVERSE, "seed": 3}
    m1 = _meta([[1, 101, 9092], [2, 102, 9092]], [[0, 0, [[0, 0, 2]]], [0, 1, [[0, 0, 2]]]])
    m2 = _meta([[2, 202, 9093]], [[0, 1, [[0, 0, 2]]]])

    def H(ops):
        h = dict(base)
        h["ops"] = ops
        return h
    return [
        # F-C07-1: the same broker cached under two addresses must still get ONE request
        H([{"op": "meta", "topics": [], "plan": {"metas": [m1]}}, {"op": "meta", "topics": [1], "plan": {"metas": [m2]}},
           _send([[0, 0], [1, 0]], api="direct"), _send([[1, 0], [0, 0]], api="produce")]),
        # any payload order over three brokers; one broker silent; a leaderless partition
        H([{"op": "meta", "topics": [], "plan": {"metas": [M3]}},
           _send([[1, 1], [0, 2], [1, 0], [0, 0], [0, 1]]),
           _send([[1, 1], [0, 2], [1, 0], [0, 0], [0, 1]], meta_default=M3, bad={"2": "silent"}),
           _send([[0, 0], [0, 3]], meta_default=M3)]),
        # coordinator routing, lookup on demand, NotCoordinator
        H([{"op": "meta", "topics": [], "plan": {"metas": [M3]}},
           _send([[0, 0], [1, 0]], api="offset_commit", group=1, coord_default=[0, 3, 103, 9092]),
           _send([[0, 0], [1, 0]], api="offset_fetch", group=1, coord_default=[0, 3, 103, 9092], errs={"0:0": 16}),
           {"op": "sendcoord", "group": 2, "tag": 7, "plan": {"coord_default": [0, 2, 102, 9092]}}]),
        # a broker that already has a client is re-addressed (port only / host only), its connection is lost, request:
        # the new connection must go to the address the latest response gave
        H([{"op": "meta", "topics": [], "plan": {"metas": [m1]}}, _send([[0, 0], [1, 0]], api="direct"),
           {"op": "meta", "topics": [1], "plan": {"metas": [_meta([[2, 102, 9093]], [[0, 1, [[0, 0, 2]]]])]}},
           {"op": "drop", "node": 2}, _send([[0, 0], [1, 0]], api="fetch", live_addrs=[[101, 9092], [102, 9093]])]),
        H([{"op": "meta", "topics": [], "plan": {"metas": [m1]}}, _send([[0, 0], [1, 0]], api="direct"),
           {"op": "meta", "topics": [], "plan": {"metas": [_meta([[1, 101, 9092], [2, 112, 9092]], [[0, 1, [[0, 0, 2]]], [0, 0, [[0, 0, 2]]]])]}},
           {"op": "drop", "node": 2}, _send([[0, 0], [1, 0]], api="offset", live_addrs=[[101, 9092], [112, 9092]])]),
        # a FindCoordinator answer (served by broker 1) re-addresses the KNOWN node 2 (port only / host only): the group
        # request must be dialled at the address the coordinator lookup named
        H([{"op": "meta", "topics": [], "plan": {"metas": [m1]}},
           _send([[0, 0], [1, 0]], api="offset_commit", group=1, coord_default=[0, 2, 102, 9093], bad={"2": "silent"},
                 live_addrs=[[101, 9092], [102, 9093]])]),
        H([{"op": "meta", "topics": [], "plan": {"metas": [m1]}}, _send([[0, 0]], api="direct"), {"op": "drop", "node": 2},
           {"op": "coord", "group": 2, "plan": {"coord_default": [0, 2, 112, 9092], "live_addrs": [[101, 9092], [112, 9092]]}},
           {"op": "sendcoord", "group": 2, "tag": 9, "plan": {"coord_default": [0, 2, 112, 9092], "live_addrs": [[101, 9092], [112, 9092]]}}]),
        # a KNOWN topic is reported with an error and no partitions: nothing may be sent to its old leader any more
        H([{"op": "meta", "topics": [], "plan": {"metas": [m1]}}, _send([[0, 0], [1, 0]], api="direct"),
           {"op": "meta", "topics": [0], "plan": {"metas": [_meta([[1, 101, 9092], [2, 102, 9092]], [[5, 0, []]])]}},
           _send([[1, 0], [0, 0]], api="fetch", meta_default=_meta([[1, 101, 9092], [2, 102, 9092]], [[5, 0, []]]))]),
        H([{"op": "meta", "topics": [], "plan": {"metas": [M3]}}, _send([[0, 1], [1, 0]], api="direct"),
           {"op": "meta", "topics": [1], "plan": {"metas": [_meta([[1, 101, 9092], [2, 102, 9092], [3, 103, 9092]], [[3, 1, []]])]}},
           _send([[0, 1], [1, 0]], api="produce", meta_default=_meta([[1, 101, 9092]], [[3, 1, []]]))]),
        # every known broker silent, bootstrap refused then answered / all refused
        H([{"op": "meta", "topics": [], "plan": {"metas": [M3]}}, _send([[0, 0], [0, 1]], api="direct"),
           {"op": "meta", "topics": [0], "plan": {"metas": [M3], "bad": {"1": "silent", "2": "silent", "3": "silent"}, "boot": [0, 1]}},
           {"op": "meta", "topics": [0], "plan": {"metas": [M3], "bad": {"1": "silent", "2": "silent", "3": "silent"}, "boot": [0, 2], "boot_default": 0}}]),
    ]


# ------------------------------------------------------------------ exhaustive small scope (thorough tier)
def enum_small():
    """three brokers: every order of four payloads x every failing subset x two ways of failing;
    fallback: every connected subset x every answering pattern of the known brokers x bootstrap outcomes"""
    keys = [[0, 0], [0, 1], [1, 0], [0, 2]]
    base = {"hosts": [[101, 9092], [9, 9092]], "form": "tuples", "universe": G.UNIVERSE, "seed": 5}
    for perm in itertools.permutations(keys):
        for sub in itertools.chain.from_iterable(itertools.combinations([1, 2, 3], k) for k in range(4)):
            for how in ("bad", "blackhole"):
                plan = {"bad": {str(n): "silent" for n in sub}} if how == "bad" else {"blackhole": list(sub)}
                h = dict(base)
                h["ops"] = [{"op": "meta", "topics": [], "plan": {"metas": [M3]}}, _send(list(perm), api="direct", **plan)]
                yield h
    for conn in itertools.chain.from_iterable(itertools.combinations([[0, 0], [0, 1], [1, 0]], k) for k in range(4)):
        for sub in itertools.chain.from_iterable(itertools.combinations([1, 2, 3], k) for k in range(4)):
            for boot in ([1], [0, 1], [0, 0], [2, 2], [0, 5]):
                h = dict(base)
                ops = [{"op": "meta", "topics": [], "plan": {"metas": [M3]}}]
                if conn:
                    ops.append(_send(list(conn), api="direct"))
                ops.append({"op": "meta", "topics": [1], "plan": {"metas": [M3], "bad": {str(n): "silent" for n in sub},
                                                                   "boot": list(boot), "boot_default": boot[-1]}})
                h["ops"] = ops
                for seed in (1, 2):
                    hh = dict(h)
                    hh["seed"] = seed
                    yield hh


# ------------------------------------------------------------------ _normalize_hosts
def hosts_batch(ck, rnd, n):
    from afkak.client import _normalize_hosts
    cases, impl, metas = [], [], []
    for _ in range(n):
        items = G.gen_host_items(rnd)
        as_string = rnd.random() < 0.3 and all(k != 2 for k, _h, _p in items) and items
        try:
            out, res = G.impl_hosts(items, rnd, as_string=bool(as_string))
        except Exception as e:
            ck.violation({"kind": "_normalize_hosts raised on a well-formed host list", "items": items, "error": repr(e), "replay_op": "hosts"})
            continue
        cases.append(G.hosts_case(items))
        impl.append(out)
        metas.append(items)
        ck.hist("hosts_items_%d" % min(len(items), 5))
        # monitors: sorted, duplicate free, members, idempotent, order irrelevant
        want = set((h.strip() if k != 2 else h, (9092 if k == 0 else p)) for k, h, p in items)
        bad = None
        if res != sorted(res) or len(set(res)) != len(res):
            bad = "C07_normalize_hosts_sorted/dedup"
        elif set(res) != want:
            bad = "C07_normalize_hosts_members"
        elif _normalize_hosts(res) != res:
            bad = "C07_normalize_hosts_idempotent"
        else:
            sh = list(items)
            rnd.shuffle(sh)
            if G.impl_hosts(sh + sh[:1])[1] != res:
                bad = "C07_normalize_hosts_order_irrelevant"
        if bad:
            ck.violation({"kind": "monitor " + bad, "items": items, "result": res, "replay_op": "hosts"})
    diffs, mo = ck.correspond(MODEL, MODULE, cases, impl, "_normalize_hosts vs Model.ClientRoute.normalize_hosts_str",
                              nontrivial=lambda c, o: o[0] >= 2, describe=G.describe)
    for i in diffs[:3]:
        ck.violation({"kind": "_normalize_hosts differs from the proved model", "items": metas[i], "impl": impl[i], "model": mo[i],
                      "theorems_no_longer_tied": HOST_THEOREMS, "replay_op": "hosts"})


def run(ck):
    vlib.import_repo()
    ck.build([MODEL])
    ck.props()
    rnd = random.Random(ck.seed)
    scale = 1 if ck.tier == "quick" else 20
    ok, what = G.probe_bytes_offset_fetch()
    ck.finding("F-C07-3", not ok, "send_offset_fetch_request with a bytes group name: the request is never sent (TypeError from the encoder: the group was not coerced to text)",
               dict(what, replay_op="history", monitor=PID))

    def run_batch(label, hists):
        return G.run_batch(ck, label, hists, PID, THEOREMS)

    run_batch("corpus histories vs Model.ClientRun.run_ops", corpus())
    run_batch("routing histories (many payloads, several brokers, failing subsets, answer orders) vs Model.ClientRun.run_ops",
              [G.gen_routing_history(rnd) for _ in range(600 * scale)])
    run_batch("fallback histories (connected / known / bootstrap hosts, every outcome) vs Model.ClientRun.run_ops",
              [G.gen_fallback_history(rnd) for _ in range(500 * scale)])
    run_batch("mixed histories with cluster faults vs Model.ClientRun.run_ops",
              [G.gen_history(rnd, "mixed") for _ in range(350 * scale)])
    run_batch("hostile-environment histories vs Model.ClientRun.run_ops",
              [G.gen_history(rnd, "chaos") for _ in range(350 * scale)])
    run_batch("coordinator answers that re-address a known node (same node id, new host/port; with and without a live connection) vs Model.ClientRun.run_ops",
              [G.gen_coord_readdress_history(rnd) for _ in range(200 * scale)])
    run_batch("produce with acks=0 whose broker send fails, then the next produce vs Model.ClientRun.run_ops",
              [G.gen_acks0_history(rnd) for _ in range(100 * scale)])
    hosts_batch(ck, rnd, 400 * scale)
    O.batch(ck, rnd, 250 * scale, PID)       # overlapping calls, arbitrary interleavings: monitors only (see client_overlap.py)
    if ck.tier == "thorough":
        run_batch("exhaustive small scope (payload orders x failing subsets; connected subsets x answer patterns x bootstrap outcomes) vs Model.ClientRun.run_ops",
                  list(enum_small()))
        ck.coqchk(["AV.Props.C07"])

    ck.cov["rule"] = ("seeded histories (random.Random(VERIF_SEED)) against a simulated cluster of 1-5 brokers, up to 4 topics x 1-4 partitions "
                      "with leaderless partitions: sends of 1-12 payloads in any order (private _send_broker_aware_request with tagged payloads, "
                      "offset, produce incl. acks=0, offset-fetch/commit via the coordinator, _send_request_to_coordinator) with every failing subset "
                      "of brokers (silent, connection unanswered, refused-then-accepted), seeded answer orders, broker error codes, reversed/short/"
                      "extra/empty answers, nested metadata and coordinator lookups, cluster faults that re-address brokers between calls; "
                      "broker-agnostic requests against every mix of connected / known / bootstrap hosts and outcomes (answer, time-out, refused, "
                      "connection lost, close() in the middle); host lists as strings, byte strings, tuples with white space, duplicates, default "
                      "ports. A history is non-trivial if a metadata response was merged or looked up and a request reached the fan-out; "
                      "distinct = distinct canonical case lines.")
    ck.assumptions += [
        "hand-written Gallina model Model/ClientRoute.v (+ Model/ClientMeta.v) stands for afkak/client.py _get_leader_for_partition, _get_coordinator_for_group, _send_broker_unaware_request, _send_bootstrap_request, _send_broker_aware_request, _send_request_to_coordinator, _normalize_hosts and the public send_{produce,fetch,offset,offset_fetch,offset_commit}_request wrappers (tie = this run's differential correspondence, not proof)",
        "the ORDER in which brokers answer is not part of the model (DeferredList returns results in request order): the driver answers in a seeded random order to validate exactly that",
        "random.shuffle is an oracle: the orders it produced are read back from the implementation and given to the model; the theorems hold for every order",
        "one client operation at a time; request time-outs are 'the request failed' (C11), close() during a fan-out is outside (C20); a connection attempt that stays unanswered until the time-out makes the request fail UNWRITTEN: its payloads are not visible on the wire, the trace shows the request without them",
        "duplicate (topic, partition) payloads in one call are outside C07_order/C07_accounting (the response dictionary keeps one answer per key); they are exercised by the correspondence only",
        "the client is built with enable_protocol_version_discovery=False (no ApiVersions lookup before produce/fetch) and the default disconnect_on_timeout; the network side (request parser / response encoder) was written from the Kafka protocol guide, not from afkak's codec",
        "_normalize_hosts: host names are compared as code-point lists (CPython str ordering), str.strip() for ASCII white space; non-numeric ports (ValueError) are outside the model",
        "close() called while a lookup of the running operation is pending: client.py:383-389 fail the pending request synchronously, the operation's continuation runs inside close() and reads the cache BEFORE reset_all_metadata() (391); the model does the same (ClientMeta.close_early during the operation, close_finish after it)",
        "overlapping operations and arbitrary interleavings (client_overlap.py: 2-4 calls issued before anything is answered, one pending event delivered at a time - accept/refuse a connect, answer one request from the cluster state at that moment, kill a connection with requests in flight (re-send), fire a timer - while leaders move and brokers die/restart) are OUTSIDE the Gallina model: monitors only (completion, no KeyError/unknown exception, no cross-talk, per-call order and accounting, routing against the metadata answers merged since the call was issued, cache = last merged answer at the end, closing)",
        "extraction: ExtrOcamlBasic only; Z stays a Coq datatype; sample of the case lines re-evaluated in Coq by vm_compute",
    ]
    ck.cov["trusted_base"] += ["correspondence harness harness/props/C07.py + client_gen.py + client_lib.py + harness/simnet.py + harness/vlib.py",
                               "extracted OCaml runner run_clientrun (ExtrOcamlBasic) cross-checked by vm_compute sample",
                               "Twisted Deferred/inlineCallbacks/DeferredList semantics (exercised, not verified)"]


def replay(rp):
    if rp.get("replay_op") == "hosts":
        items = rp["items"]
        out, res = G.impl_hosts(items)
        print("items", items, "->", res)
        try:
            ck = vlib.Check(PID, "quick", 0)
            mo = ck.model(MODEL, [G.hosts_case(items)])[0]
            print("model:", mo, "impl:", out)
            return 0 if mo == out and res == sorted(set(res)) else 1
        except Exception as e:
            print("model comparison skipped:", repr(e)[:200])
            return 1
    if rp.get("replay_op") == "overlap":
        return O.replay(rp)
    return G.replay_history(rp, PID)
