# Shared by C07 and C08: drives the REAL afkak KafkaClient (task.Clock + puppet endpoints from harness/simnet.py)
# through a history of operations, builds the flat-integer case line of coq/Model/ClientRun.v from what the
# implementation did (shuffle orders are read back), and the canonical observable trace to compare with the model.
#
# Nothing here imports afkak's codec for the network side: requests are parsed and responses are encoded by the small
# independent functions below, written from the Kafka protocol guide (Metadata v0, FindCoordinator v0, ListOffsets v0,
# OffsetFetch v1, OffsetCommit v1, Produce v0, Fetch v0).
import collections
import random
import struct

import simnet
from vlib import lp

TIMEOUT_MS = 5000
RETRY_DELAY = 0.5

# ------------------------------------------------------------------ naming: ids <-> names


def host_name(h):
    return "h%04d" % h          # zero padded: string order == integer order (sorted() in _normalize_hosts)


def host_id(name):
    try:
        if isinstance(name, bytes):
            name = name.decode()
        if name.startswith("h") and len(name) == 5:
            return int(name[1:])
    except Exception:
        pass
    return -1


def topic_name(t):
    return "t%d" % t


def topic_id(name):
    if isinstance(name, bytes):
        name = name.decode()
    return int(name[1:]) if name[:1] == "t" and name[1:].lstrip("-").isdigit() else -1


def group_name(g, form=None):
    return ("g%d" % g).encode() if form == "bytes" else "g%d" % g


def group_id(name):
    if isinstance(name, bytes):
        name = name.decode()
    return int(name[1:]) if name[:1] == "g" and name[1:].isdigit() else -1


# ------------------------------------------------------------------ independent wire codec
def _s16(s):
    b = s.encode() if isinstance(s, str) else s
    return struct.pack(">h", len(b)) + b


class Rd(object):
    def __init__(self, data, pos=0):
        self.d, self.p = data, pos

    def u(self, fmt):
        n = struct.calcsize(fmt)
        v = struct.unpack(fmt, self.d[self.p:self.p + n])
        self.p += n
        return v if len(v) > 1 else v[0]

    def s(self):
        n = self.u(">h")
        if n < 0:
            return None
        v = self.d[self.p:self.p + n]
        self.p += n
        return v.decode()

    def skip(self, n):
        self.p += n


def parse_header(frame):
    """request frame body (no length prefix) -> (api_key, api_version, correlation id, reader after header)"""
    r = Rd(frame)
    key, ver, corr = r.u(">hhi")
    r.s()   # client id
    return key, ver, corr, r


def enc_metadata_response(corr, raw):
    """raw = {"brokers": [(node, host_id, port)], "topics": [(terr, topic_id, [(perr, part, leader)])]}  (Metadata v0)"""
    b = struct.pack(">ii", corr, len(raw["brokers"]))
    for n, h, p in raw["brokers"]:
        b += struct.pack(">i", n) + _s16(host_name(h)) + struct.pack(">i", p)
    b += struct.pack(">i", len(raw["topics"]))
    for terr, t, parts in raw["topics"]:
        b += struct.pack(">h", terr) + _s16(topic_name(t)) + struct.pack(">i", len(parts))
        for perr, p, leader in parts:
            reps = [leader] if leader >= 0 else []
            b += struct.pack(">hiii", perr, p, leader, len(reps)) + b"".join(struct.pack(">i", x) for x in reps)
            b += struct.pack(">i", len(reps)) + b"".join(struct.pack(">i", x) for x in reps)
    return b


def enc_coordinator_response(corr, c):
    err, node, h, p = c
    return struct.pack(">ihi", corr, err, node) + _s16(host_name(h)) + struct.pack(">i", p)


def dec_metadata_request(r):
    n = r.u(">i")
    return [topic_id(r.s()) for _ in range(n)]


def dec_coordinator_request(r):
    return group_id(r.s())


API_SIMPLE = 77


def dec_data_request(key, r):
    """-> list of (topic_id, partition, tag or None) as found on the wire, plus group id if any"""
    out, grp = [], None
    if key == 2:                                   # ListOffsets v0
        r.u(">i")
        for _ in range(r.u(">i")):
            t = topic_id(r.s())
            for _ in range(r.u(">i")):
                p, tm, _mx = r.u(">iqi")
                out.append((t, p, tm))
    elif key == 1:                                 # Fetch v0
        r.u(">iii")
        for _ in range(r.u(">i")):
            t = topic_id(r.s())
            for _ in range(r.u(">i")):
                p, off, _mx = r.u(">iqi")
                out.append((t, p, off))
    elif key == 9:                                 # OffsetFetch v1
        grp = group_id(r.s())
        for _ in range(r.u(">i")):
            t = topic_id(r.s())
            for _ in range(r.u(">i")):
                out.append((t, r.u(">i"), None))
    elif key == 8:                                 # OffsetCommit v1
        grp = group_id(r.s())
        r.u(">i")
        r.s()
        for _ in range(r.u(">i")):
            t = topic_id(r.s())
            for _ in range(r.u(">i")):
                p, off, _ts = r.u(">iqq")
                n = r.u(">h")
                if n > 0:
                    r.skip(n)
                out.append((t, p, off))
    elif key == 0:                                 # Produce v0
        r.u(">hi")
        for _ in range(r.u(">i")):
            t = topic_id(r.s())
            for _ in range(r.u(">i")):
                p, size = r.u(">ii")
                r.skip(size)
                out.append((t, p, None))
    elif key == API_SIMPLE:                        # the driver's own encoder (direct calls)
        for _ in range(r.u(">i")):
            t = topic_id(r.s())
            p, tag = r.u(">ii")
            out.append((t, p, tag))
    else:
        raise ValueError("unexpected api key %r" % key)
    return out, grp


def _by_topic(resps):
    d = collections.OrderedDict()
    for r in resps:
        d.setdefault(r[0], []).append(r)
    return d


def enc_data_response(key, corr, resps):
    """resps: list of (topic_id, partition, err, tag) in the order the broker lists them (grouped by topic on the wire)"""
    b = struct.pack(">i", corr)
    if key == API_SIMPLE:
        b += struct.pack(">i", len(resps))
        for t, p, e, g in resps:
            b += _s16(topic_name(t)) + struct.pack(">ihi", p, e, g)
        return b
    d = _by_topic(resps)
    b += struct.pack(">i", len(d))
    for t, rs in d.items():
        b += _s16(topic_name(t)) + struct.pack(">i", len(rs))
        for _t, p, e, g in rs:
            if key == 2:
                b += struct.pack(">ihi", p, e, 1) + struct.pack(">q", g)
            elif key == 1:
                b += struct.pack(">ihq", p, e, g) + struct.pack(">i", 0)     # empty message set
            elif key == 9:
                b += struct.pack(">iq", p, g) + struct.pack(">h", 0) + struct.pack(">h", e)
            elif key == 8:
                b += struct.pack(">ih", p, e)
            elif key == 0:
                b += struct.pack(">ihq", p, e, g)
    return b


# the driver's own trivial payload codec for direct calls of _send_broker_aware_request / _send_request_to_coordinator
SimplePayload = collections.namedtuple("SimplePayload", "topic partition tag")
SimpleResp = collections.namedtuple("SimpleResp", "topic partition error tag")


def simple_encoder(client_id, correlation_id, payloads=None, payload=None):
    if payload is not None:
        payloads = [payload]
    b = struct.pack(">hhi", API_SIMPLE, 0, correlation_id) + _s16(client_id)
    b += struct.pack(">i", len(payloads))
    for p in payloads:
        b += _s16(p.topic) + struct.pack(">ii", p.partition, p.tag)
    return b


def simple_decoder(data):
    r = Rd(data)
    r.u(">i")
    out = []
    for _ in range(r.u(">i")):
        t = r.s()
        p, e, g = r.u(">ihi")
        out.append(SimpleResp(t, p, e, g))
    return out


def simple_decoder_one(data):
    return simple_decoder(data)[0]


# ------------------------------------------------------------------ result classification
def classify_failure(f):
    """exception of a client operation -> pres code list (see Model/ClientRun.v emit_pres)"""
    from afkak import common as C
    e = f.value
    if isinstance(e, C.FailedPayloadsError):
        return None     # handled by caller
    if isinstance(e, ValueError):
        return [4, 10]
    if isinstance(e, C.LeaderUnavailableError):
        return [4, 11]
    if isinstance(e, C.PartitionUnavailableError):
        return [4, 12]
    if isinstance(e, C.KafkaUnavailableError):
        return [4, 14]
    if isinstance(e, C.ClientError):
        return [4, 15]
    if isinstance(e, KeyError):
        return [4, 16]
    if isinstance(e, TypeError):
        return [5]
    if isinstance(e, C.BrokerResponseError):
        from_response = bool(e.args) and not isinstance(e.args[0], (str, bytes))
        if from_response:
            return [2, int(e.errno)]
        if isinstance(e, C.CoordinatorNotAvailable):
            return [4, 13]
        if isinstance(e, C.RequestTimedOutError):
            return [4, 18]
        return [2, int(e.errno)]
    return [-60, abs(hash(type(e).__name__)) % 1000]


def meta_result_code(res):
    """load_metadata_for_topics outcome -> lres code"""
    from twisted.python.failure import Failure
    from afkak import common as C
    if not res:
        return -50                      # Deferred never fired
    v = res[0]
    if v is True:
        return 1
    if v is None:
        return 2
    if isinstance(v, Failure):
        e = v.value
        if isinstance(e, C.KafkaUnavailableError):
            c = e.__cause__
            if isinstance(c, C.KafkaUnavailableError):
                return 3
            if isinstance(c, C.ClientError):
                return 4
            return 6
        if isinstance(e, KeyError):
            return 5
    return -61


# ------------------------------------------------------------------ the simulator / executor
_ACTIVE = []


def _recording_shuffle(lst):
    sim = _ACTIVE[-1] if _ACTIVE else None
    if sim is None:
        return _ORIG_SHUFFLE(lst)
    sim.rnd.shuffle(lst)
    sim.shuffles.append((list(lst), len(sim.log)))


_ORIG_SHUFFLE = random.shuffle


class Sim(object):
    """One real KafkaClient on a simulated network, executing a history of op dicts (pure data, JSON-able).

    op dicts (ids are integers; see the generators in C07.py / C08.py):
      {"op":"meta", "topics":[...], "plan":PLAN}
      {"op":"coord", "group":g, "plan":PLAN}
      {"op":"send", "api":"direct"|"offset"|"offset_fetch"|"offset_commit"|"produce", "group":g|None, "fail":bool,
       "expect":bool, "payloads":[(t,p)...], "plan":PLAN}
      {"op":"sendcoord", "group":g, "plan":PLAN}
      {"op":"reset_topics","topics":[..]} {"op":"reset_all"} {"op":"reset_groups","groups":[..]}
      {"op":"drop","node":n} {"op":"close"} {"op":"hosts","hosts":[(h,p)..],"form":...}
    PLAN = {"bad":{node:"silent"}, "flaky":[nodes], "fail_first":k, "boot":[codes], "boot_default":code,
            "close_try":i|None, "metas":[raw..], "meta_by_topic":{t:raw}, "meta_default":raw,
            "coords":[c..], "coord_default":c, "errs":{"t:p":err}, "resp_mode":{node:mode}, "answer_seed":s,
            "blackhole":[nodes],
            -- "honest cluster" keys (the network side decides at serve time from the state of the world) --
            "live_addrs":[[h,p]..]   addresses where a broker listens: a bootstrap connect elsewhere is refused; a broker
                                     client's connect elsewhere stays unanswered until the request was given up, then comes
                                     up and is reset right after the operation (reported to the model as op 7, see reap())
            "leaders":{"t:p":node}   a broker that is not the leader answers NotLeader(6), an unlisted partition Unknown(3)
            "coord_of":{"g":node}    a broker that is not the group's coordinator answers NotCoordinator(16)}
    """

    def __init__(self, hosts, universe, seed, hosts_form="tuples"):
        from afkak.client import KafkaClient
        self.log = []
        self.clock = simnet.SimClock(self.log)
        self.net = simnet.SimNet(self.log)
        self.rnd = random.Random(seed)
        self.shuffles = []
        self.nshuf = 0
        self.pos = 0
        self.universe = universe
        self.closed = False
        self.conn_buf = {}
        self.ignored_attempts = set()
        self.seen_attempts = 0
        self.monitor_notes = []          # (kind, detail) irregularities seen on the network side
        self.client = KafkaClient(self.hosts_arg(hosts, hosts_form), reactor=self.clock, endpoint_factory=self.net,
                                  retry_policy=lambda failures: RETRY_DELAY, timeout=TIMEOUT_MS,
                                  enable_protocol_version_discovery=False)

    @staticmethod
    def hosts_arg(hosts, form):
        if form == "string":
            return ",".join(host_name(h) if p == 9092 else "%s:%d" % (host_name(h), p) for h, p in hosts)
        if form == "strings":
            return ["%s:%d" % (host_name(h), p) for h, p in hosts]
        if form == "bytes":
            return ",".join("%s:%d" % (host_name(h), p) for h, p in hosts).encode()
        return [(host_name(h), p) for h, p in hosts]

    # ---------------------------------------------------------------- network bookkeeping
    def attempt_of(self, attempt_id):
        return self.net.attempts[attempt_id - 1]

    def conn_attempt(self, conn_id):
        for a in self.net.attempts:
            if a.transport is not None and a.transport.conn_id == conn_id:
                return a
        return None

    def scan(self):
        """new issue events since the last scan: ("connect", attempt) / ("frame", conn_id, body)"""
        out = []
        while self.pos < len(self.log):
            ev = self.log[self.pos]
            self.pos += 1
            if ev[0] == "connect":
                if ev[1] not in self.ignored_attempts:
                    out.append(("connect", self.attempt_of(ev[1])))
            elif ev[0] == "write":
                buf = self.conn_buf.get(ev[1], b"") + ev[2]
                while len(buf) >= 4:
                    n = struct.unpack(">I", buf[:4])[0]
                    if len(buf) < 4 + n:
                        break
                    out.append(("frame", ev[1], buf[4:4 + n]))
                    buf = buf[4 + n:]
                self.conn_buf[ev[1]] = buf
        return out

    def settle(self):
        """complete every connection loss the client asked for"""
        for t in list(self.net.transports):
            if t.live and t.disconnecting:
                t.report_lost()

    def leaks(self):
        """connections / connection attempts still open although the client no longer owns their broker client
        (dropped by a full refresh, or the client was closed), or a bootstrap connection left open after the operation"""
        out = []
        cur = {} if self.closed else (self.client.clients or {})
        for a in self.net.attempts:
            f = a.factory
            n = getattr(f, "node_id", None)
            owned = n is not None and cur.get(n) is f
            if owned:
                continue
            if a.state == "pending":
                out.append(["pending-connect", -1 if n is None else n, host_id(a.host), a.port])
            elif a.transport is not None and a.transport.live:
                out.append(["open-connection", -1 if n is None else n, host_id(a.host), a.port])
        return out

    def take_shuffles(self):
        new = self.shuffles[self.nshuf:]
        self.nshuf = len(self.shuffles)
        return new

    def node_of(self, attempt):
        return getattr(attempt.factory, "node_id", None)

    def connect_known(self, attempt, flaky):
        """accept a broker client's connection attempt; flaky: refuse it first and accept the retry"""
        addr = (host_id(attempt.host), attempt.port)
        if flaky:
            attempt.fail()
            self.clock.advance(RETRY_DELAY)
            retry = [a for a in self.net.pending() if a.factory is attempt.factory]
            if len(retry) != 1:
                self.monitor_notes.append(("retry-missing", addr))
                return None, addr
            self.ignored_attempts.add(retry[0].attempt_id)
            if (host_id(retry[0].host), retry[0].port) != addr:
                self.monitor_notes.append(("retry-address-differs", addr, (host_id(retry[0].host), retry[0].port)))
            attempt = retry[0]
        tr = attempt.accept()
        return tr, addr

    # ---------------------------------------------------------------- plans
    @staticmethod
    def plan_get(plan, key, default):
        v = plan.get(key)
        return default if v is None else v

    @staticmethod
    def addr_dead(plan, attempt):
        live = plan.get("live_addrs")
        if live is None:
            return False
        return [host_id(attempt.host), attempt.port] not in [list(x) for x in live]

    @staticmethod
    def honest_err(plan, node, t, p, grp, errs):
        e = int(errs.get("%d:%d" % (t, p), 0))
        if e:
            return e
        co = plan.get("coord_of")
        if grp is not None and grp >= 0 and co is not None:
            if int(co.get(str(grp), -1)) != node:
                return 16
            return 0
        ld = plan.get("leaders")
        if ld is not None and grp is None:
            want = ld.get("%d:%d" % (t, p))
            if want is None:
                return 3
            if int(want) != node:
                return 6
        return 0

    def live_transport(self, bc):
        for a in self.net.attempts:
            if a.factory is bc and a.transport is not None and a.transport.live:
                return a.transport
        return None

    def reap(self, plan):
        """honest-cluster mode: a connection that came up at an address where no broker listens is reset;
        -> (case fragment, trace fragment) of the corresponding op-7 steps"""
        case, trace = [], []
        if plan.get("live_addrs") is None or self.closed or not self.client.clients:
            return case, trace
        live = [list(x) for x in plan["live_addrs"]]
        for n, bc in sorted(self.client.clients.items()):
            tr = self.live_transport(bc)
            if tr is not None and [host_id(tr.peer.host), tr.peer.port] not in live:
                tr.report_lost()
                case += [7, n]
                trace += [-7, 7] + self.dump()
        return case, trace

    def meta_for(self, plan, idx, topics):
        metas = plan.get("metas") or []
        if idx < len(metas):
            return metas[idx]
        by = plan.get("meta_by_topic") or {}
        k = str(topics[0]) if topics else "all"
        if k in by:
            return by[k]
        return plan.get("meta_default") or {"brokers": [], "topics": []}

    def coord_for(self, plan, idx):
        cs = plan.get("coords") or []
        if idx < len(cs):
            return tuple(cs[idx])
        return tuple(plan.get("coord_default") or (15, -1, 0, 0))

    # ---------------------------------------------------------------- the pump
    def pump(self, plan, fired, ctx):
        """Serve the network until the operation stops issuing requests.
        Returns {"loads":[{shuf,bshuf,tries:[(kind,node,h,p,code)],resp,kind,asked}], "reqs":[...]}.
        ctx: {"keymap": {(t,p): tag} or None, "api": ...}"""
        obs = {"loads": [], "reqs": [], "answer_order": []}
        cur = None
        ntry = 0
        nboot = 0
        guard = 0
        while True:
            guard += 1
            if guard > 500:
                self.monitor_notes.append(("pump-guard",))
                break
            for lst, _pos in self.take_shuffles():
                if cur is not None and not cur["done"] and not cur["boot_phase"]:
                    # second shuffle of the same broker-agnostic request: the bootstrap hosts
                    cur["bshuf"] = [(host_id(h), p) for h, p in lst]
                    cur["boot_phase"] = True
                else:
                    cur = self._new_load(obs)
                    cur["shuf"] = list(lst)
            evs = self.scan()
            if not evs:
                break
            if cur is not None and not cur["done"]:
                # exactly one try of the broker-agnostic request in progress
                ev = evs[0]
                if len(evs) > 1:
                    self.monitor_notes.append(("several-issue-events-in-a-try", len(evs)))
                load_idx = len(obs["loads"]) - 1
                if ev[0] == "connect" and self.node_of(ev[1]) is None:
                    # ---- bootstrap host
                    a = ev[1]
                    addr = (host_id(a.host), a.port)
                    boot = plan.get("boot") or []
                    code = boot[nboot] if nboot < len(boot) else self.plan_get(plan, "boot_default", 1)
                    nboot += 1
                    if self.addr_dead(plan, a):
                        code = 0
                    if plan.get("close_try") == ntry:
                        code = 3 if plan.get("close_flavour") == 3 else 4
                    ntry += 1
                    model_code = {0: 0, 1: 1, 2: 2, 5: 2, 3: 3, 4: 4}[code]
                    cur["tries"].append((1, -1, addr[0], addr[1], 10 + model_code))
                    if code == 0:
                        a.fail()
                    elif code == 3:
                        self.do_close()
                    else:
                        tr = a.accept()
                        fr = [e for e in self.scan() if e[0] == "frame" and e[1] == tr.conn_id]
                        if len(fr) != 1:
                            self.monitor_notes.append(("bootstrap-no-request", addr))
                            break
                        if code == 1:
                            self._answer_agnostic(tr, fr[0][2], plan, cur, load_idx)
                        elif code == 2:
                            self._note_asked(fr[0][2], cur)
                            self.clock.advance(TIMEOUT_MS / 1000.0)
                        elif code == 5:
                            self._note_asked(fr[0][2], cur)
                            tr.report_lost()
                        elif code == 4:
                            self._note_asked(fr[0][2], cur)
                            self.do_close()
                    self.settle()
                else:
                    # ---- known broker
                    if ev[0] == "connect" and self.addr_dead(plan, ev[1]):
                        a = ev[1]
                        cur["tries"].append((0, self.node_of(a), host_id(a.host), a.port, 0))
                        ntry += 1
                        self.clock.advance(TIMEOUT_MS / 1000.0)
                        if a.state == "pending":
                            a.accept()          # comes up after the request was given up; reset by reap()
                        self.settle()
                        continue
                    if ev[0] == "connect":
                        a = ev[1]
                        node = self.node_of(a)
                        tr, addr = self.connect_known(a, node in (plan.get("flaky") or []))
                        if tr is None:
                            break
                        fr = [e for e in self.scan() if e[0] == "frame" and e[1] == tr.conn_id]
                    else:
                        a = self.conn_attempt(ev[1])
                        node = self.node_of(a)
                        tr, addr = a.transport, (host_id(a.host), a.port)
                        fr = [ev]
                    if len(fr) != 1:
                        self.monitor_notes.append(("known-try-no-request", node, addr))
                        break
                    ntries_this = len([t for t in cur["tries"] if t[0] == 0])
                    bad = plan.get("bad") or {}
                    if plan.get("close_try") == ntry:
                        code = 2
                    elif str(node) in bad or node in bad or ntries_this < self.plan_get(plan, "fail_first", 0):
                        code = 0
                    else:
                        code = 1
                    ntry += 1
                    cur["tries"].append((0, node, addr[0], addr[1], code))
                    if code == 1:
                        self._answer_agnostic(tr, fr[0][2], plan, cur, load_idx)
                    elif code == 0:
                        self._note_asked(fr[0][2], cur)
                        self.clock.advance(TIMEOUT_MS / 1000.0)
                    else:
                        self._note_asked(fr[0][2], cur)
                        self.do_close()
                    self.settle()
            else:
                # ---- fan-out of per-broker requests
                reqs = []
                for ev in evs:
                    if ev[0] == "connect":
                        a = ev[1]
                        node = self.node_of(a)
                        if node is None:
                            self.monitor_notes.append(("unexpected-bootstrap-connect",))
                            continue
                        if node in (plan.get("blackhole") or []) or self.addr_dead(plan, a):
                            # the connection attempt is neither accepted nor refused until the request timed out
                            reqs.append({"node": node, "addr": (host_id(a.host), a.port), "tr": None, "frame": None,
                                         "attempt": a})
                            continue
                        tr, addr = self.connect_known(a, node in (plan.get("flaky") or []))
                        if tr is None:
                            continue
                        reqs.append({"node": node, "addr": addr, "tr": tr, "frame": None})
                    else:
                        self._frame_to_req(reqs, ev)
                for e in self.scan():
                    if e[0] == "frame":
                        self._frame_to_req(reqs, e)
                    else:
                        self.monitor_notes.append(("late-connect-in-fanout",))
                self._serve_fanout(reqs, plan, ctx, obs)
                self.settle()
        for ld in obs["loads"]:
            ld.pop("boot_phase", None)
        return obs

    def _frame_to_req(self, reqs, ev):
        mine = [q for q in reqs if q["tr"] is not None and q["tr"].conn_id == ev[1] and q["frame"] is None]
        if mine:
            mine[0]["frame"] = ev[2]
        else:
            a = self.conn_attempt(ev[1])
            reqs.append({"node": self.node_of(a), "addr": (host_id(a.host), a.port), "tr": a.transport, "frame": ev[2]})

    def _new_load(self, obs):
        cur = {"shuf": [], "bshuf": [], "tries": [], "resp": None, "kind": None, "asked": None, "done": False,
               "boot_phase": False,
               "conn": {n: bool(b.connected()) for n, b in (self.client.clients or {}).items()},
               "closed_at_start": self.closed}
        obs["loads"].append(cur)
        return cur

    def _note_asked(self, frame, cur):
        key, _ver, _corr, r = parse_header(frame)
        if key == 3:
            cur["kind"], cur["asked"] = 0, dec_metadata_request(r)
        elif key == 10:
            cur["kind"], cur["asked"] = 1, dec_coordinator_request(r)
        else:
            self.monitor_notes.append(("agnostic-try-with-api", key))

    def _answer_agnostic(self, tr, frame, plan, cur, load_idx):
        key, _ver, corr, r = parse_header(frame)
        if key == 3:
            asked = dec_metadata_request(r)
            raw = self.meta_for(plan, load_idx, asked)
            cur["kind"], cur["asked"], cur["resp"] = 0, asked, raw
            cur["done"] = True
            tr.deliver(simnet.frame(enc_metadata_response(corr, raw)))
        elif key == 10:
            g = dec_coordinator_request(r)
            c = self.coord_for(plan, load_idx)
            cur["kind"], cur["asked"], cur["resp"] = 1, g, c
            cur["done"] = True
            tr.deliver(simnet.frame(enc_coordinator_response(corr, c)))
        else:
            self.monitor_notes.append(("agnostic-try-with-api", key))
            cur["done"] = True

    def _serve_fanout(self, reqs, plan, ctx, obs):
        bad = plan.get("bad") or {}
        errs = plan.get("errs") or {}
        modes = plan.get("resp_mode") or {}
        keymap = ctx.get("keymap")
        order = list(range(len(reqs)))
        random.Random(plan.get("answer_seed", 0)).shuffle(order)
        base = len(obs["reqs"])
        for q in reqs:
            rec = {"node": q["node"], "addr": q["addr"], "tags": None, "keys": None, "code": 0, "resps": [], "api": None}
            obs["reqs"].append(rec)
            q["rec"] = rec
            if q["tr"] is None:
                rec["code"] = 2          # black-holed: fails unwritten, payload not visible on the wire
                continue
            if q["frame"] is None:
                self.monitor_notes.append(("request-never-written", q["node"]))
                continue
            key, _ver, corr, r = parse_header(q["frame"])
            asked, grp = dec_data_request(key, r)
            q["key"], q["corr"] = key, corr
            rec["api"], rec["group"] = key, grp
            rec["keys"] = [(t, p) for t, p, _g in asked]
            if key == API_SIMPLE:
                rec["tags"] = [g for _t, _p, g in asked]
            else:
                rec["tags"] = sorted(keymap[(t, p)] for t, p, _g in asked) if keymap is not None else []
                rec["wire_tags"] = {(t, p): g for t, p, g in asked}
        for i in order:
            q = reqs[i]
            rec = q["rec"]
            if q["frame"] is None:
                continue
            if not ctx.get("expect", True):
                rec["code"] = 1          # expectResponse=False: done as soon as written (brokerclient.py:375-380)
                continue
            if str(q["node"]) in bad or q["node"] in bad:
                continue
            # honest answer: one response per distinct key asked, error code from the plan, tag echoed
            seen, rs = set(), []
            for (t, p) in rec["keys"]:
                if (t, p) in seen and q["key"] != API_SIMPLE:
                    continue
                seen.add((t, p))
                tag = 0
                if q["key"] == API_SIMPLE:
                    tag = None
                elif q["key"] in (2, 9, 0, 1):
                    tag = keymap[(t, p)] if keymap is not None else 0
                rs.append([t, p, self.honest_err(plan, q["node"], t, p, rec.get("group"), errs), tag])
            if q["key"] == API_SIMPLE:
                rs = [[t, p, self.honest_err(plan, q["node"], t, p, ctx.get("group"), errs), g]
                      for (t, p), g in zip(rec["keys"], rec["tags"])]
            mode = modes.get(str(q["node"]), modes.get(q["node"], "honest"))
            if mode == "reverse":
                rs = rs[::-1]
            elif mode == "drop_last" and rs:
                rs = rs[:-1]
            elif mode == "extra":
                ex = plan.get("extra_resp") or [0, 0, 0, 0]
                rs = rs + [list(ex)]
            elif mode == "empty":
                rs = []
            if q["key"] == 8:
                rs = [[t, p, e, 0] for t, p, e, _g in rs]
            rec["code"], rec["resps"] = 1, [tuple(x) for x in rs]
            obs["answer_order"].append(base + i)
            q["tr"].deliver(simnet.frame(enc_data_response(q["key"], q["corr"], rec["resps"])))
        if any(q["rec"]["code"] != 1 for q in reqs):
            self.clock.advance(TIMEOUT_MS / 1000.0)
        for q in reqs:
            if q["tr"] is None and q["attempt"].state == "pending":
                q["attempt"].accept()    # wind up: the connection comes up after the request was given up

    def do_close(self):
        self.closed_nodes = sorted(self.client.clients) if self.client.clients else []
        self.closed = True
        self.close_d = self.client.close()

    # ---------------------------------------------------------------- encodings of what happened
    @staticmethod
    def enc_raw(raw):
        raw = raw or {"brokers": [], "topics": []}
        out = lp([x for b in raw["brokers"] for x in b]) + [len(raw["topics"])]
        for terr, t, parts in raw["topics"]:
            out += [terr, t] + lp([x for pt in parts for x in pt])
        return out

    @staticmethod
    def enc_uscript(ld):
        ks = [t[4] for t in ld["tries"] if t[0] == 0]
        bs = [t[4] - 10 for t in ld["tries"] if t[0] == 1]
        return lp(ld["shuf"]) + lp(ks) + lp([x for hp in ld["bshuf"] for x in hp]) + lp(bs)

    @staticmethod
    def emit_log(ld):
        out = [len(ld["tries"])]
        for k, n, h, p, c in ld["tries"]:
            out += [k, n, h, p, c]
        return out

    @staticmethod
    def asked_of(ld):
        """what the lookup asked for, as parsed from the wire: (kind, topic or group id); None = no request was seen"""
        if ld.get("kind") is None or ld.get("asked") is None:
            return None
        if ld["kind"] == 0:
            return (0, ld["asked"][0] if len(ld["asked"]) == 1 else -2)       # nested lookups ask for ONE topic
        return (1, ld["asked"])

    def enc_loads(self, loads, coord):
        out = [len(loads)]
        for ld in loads:
            obs = 1 if self.asked_of(ld) is not None else 0
            if coord:
                c = ld["resp"] if ld["resp"] is not None else (15, -1, 0, 0)
                out += [1, obs] + self.enc_uscript(ld) + list(c)
            else:
                out += [0, obs] + self.enc_uscript(ld) + self.enc_raw(ld["resp"])
        return out

    @staticmethod
    def enc_outs(reqs):
        out = [len(reqs)]
        for q in reqs:
            out += [q["code"]] + lp([x for r in q["resps"] for x in r])
        return out

    @staticmethod
    def emit_reqs(loads, reqs):
        out = [len(loads)]
        for ld in loads:
            out += list(Sim.asked_of(ld) or (-1, -1)) + Sim.emit_log(ld)
        out.append(len(reqs))
        for q in reqs:
            out += [q["node"], q["addr"][0], q["addr"][1]] + lp(q["tags"] if q["code"] != 2 and q["tags"] is not None else [-1])
        return out

    # ---------------------------------------------------------------- the public view
    def dump(self):
        c = self.client
        out = [-8]
        tps = sorted([topic_id(t)] + lp(list(ps)) for t, ps in c.topic_partitions.items())
        out += [len(tps)] + [x for e in tps for x in e]
        t2b = []
        for k, bm in c.topics_to_brokers.items():
            e = [topic_id(k.topic), k.partition]
            e += [0] if bm is None else [1, bm.node_id, host_id(bm.host), bm.port]
            t2b.append(e)
        t2b.sort()
        out += [len(t2b)] + [x for e in t2b for x in e]
        te = sorted([topic_id(t), e] for t, e in c.topic_errors.items())
        out += [len(te)] + [x for e in te for x in e]
        out += [c.metadata_error_for_topic(topic_name(t)) for t in range(self.universe)]
        out += [1 if c.has_metadata_for_topic(topic_name(t)) else 0 for t in range(self.universe)]
        cl = sorted([n, host_id(b.host), b.port, 1 if b.connected() else 0] for n, b in (c.clients or {}).items())
        out += [len(cl)] + [x for e in cl for x in e]
        g = sorted([group_id(k), bm.node_id, host_id(bm.host), bm.port] for k, bm in c.consumer_group_to_brokers.items())
        out += [len(g)] + [x for e in g for x in e]
        out += [1 if self.closed else 0]
        return out

    def view(self):
        """the cache as plain python data, for the monitors"""
        c = self.client
        return {
            "tparts": {topic_id(t): list(ps) for t, ps in c.topic_partitions.items()},
            "t2b": {(topic_id(k.topic), k.partition): (None if bm is None else (bm.node_id, host_id(bm.host), bm.port))
                    for k, bm in c.topics_to_brokers.items()},
            "terrs": {topic_id(t): e for t, e in c.topic_errors.items()},
            "clients": {n: (host_id(b.host), b.port, b.connected()) for n, b in (c.clients or {}).items()},
            "g2c": {group_id(k): (bm.node_id, host_id(bm.host), bm.port) for k, bm in c.consumer_group_to_brokers.items()},
            "merr": {t: c.metadata_error_for_topic(topic_name(t)) for t in range(self.universe)},
            "closed": self.closed,
        }

    # ---------------------------------------------------------------- operations
    def run_op(self, op):
        """-> (case fragment, impl trace fragment, observation dict for the monitors)"""
        _ACTIVE.append(self)
        old = random.shuffle
        random.shuffle = _recording_shuffle
        # also a module that bound the function at import time (`from random import shuffle`): same behaviour, no alarm
        import afkak.client as _client_mod
        rebound = [n for n, v in vars(_client_mod).items() if v is _ORIG_SHUFFLE]
        for n in rebound:
            setattr(_client_mod, n, _recording_shuffle)
        try:
            return self._run_op(op)
        finally:
            random.shuffle = old
            for n in rebound:
                setattr(_client_mod, n, _ORIG_SHUFFLE)
            _ACTIVE.pop()

    def _run_op(self, op):
        kind = op["op"]
        c = self.client
        plan = op.get("plan") or {}
        before = self.view()
        obs = {"op": op, "before": before}
        if kind == "meta":
            res = []
            nlose0 = len(self.log)
            d = c.load_metadata_for_topics(*[topic_name(t) for t in op["topics"]])
            d.addBoth(res.append)
            po = self.pump(plan, res, {})
            self.settle()
            ld = po["loads"][0] if po["loads"] else self._new_load({"loads": []})
            ld.pop("boot_phase", None)
            code = meta_result_code(res)
            after = self.view()
            # broker clients closed by the merge: those that existed before, or were created by a try of this very
            # request, and are gone afterwards
            tried = set(t[1] for t in ld["tries"] if t[0] == 0)
            gone = sorted((set(before["clients"]) | tried) - set(after["clients"])) if not self.closed else []
            # ... and whose connection was really given up (a dropped client that keeps its connection is not "closed")
            leaked = set(x[1] for x in self.leaks())
            gone = [n for n in gone if n not in leaked]
            case = [1, 0 if op["topics"] else 1] + self.enc_uscript(ld) + self.enc_raw(ld["resp"])
            trace = [-7, 1] + self.emit_log(ld) + [code] + lp(gone)
            obs.update(load=ld, code=code, gone=gone, extra_loads=po["loads"][1:], notes_from=nlose0)
        elif kind == "coord":
            res = []
            d = c.load_coordinator_for_group(group_name(op["group"], op.get("group_form")))
            d.addBoth(res.append)
            po = self.pump(plan, res, {})
            self.settle()
            ld = po["loads"][0] if po["loads"] else self._new_load({"loads": []})
            ld.pop("boot_phase", None)
            ok = 1 if res and res[0] is True else (0 if res else -50)
            cr = ld["resp"] if ld["resp"] is not None else (15, -1, 0, 0)
            case = [2, op["group"]] + self.enc_uscript(ld) + list(cr)
            trace = [-7, 2] + self.emit_log(ld) + [ok]
            obs.update(load=ld, ok=ok)
        elif kind in ("send", "sendcoord"):
            case, trace, o2 = self._run_send(op, plan)
            obs.update(o2)
        elif kind == "reset_topics":
            c.reset_topic_metadata(*[topic_name(t) for t in op["topics"]])
            case, trace = [4] + lp(op["topics"]), [-7, 4]
        elif kind == "reset_all":
            c.reset_all_metadata()
            case, trace = [5], [-7, 5]
        elif kind == "reset_groups":
            c.reset_consumer_group_metadata(*[group_name(g) for g in op["groups"]])
            case, trace = [6] + lp(op["groups"]), [-7, 6]
        elif kind == "drop":
            n = op["node"]
            bc = (c.clients or {}).get(n)
            if bc is not None:
                for a in self.net.attempts:
                    if a.factory is bc and a.transport is not None and a.transport.live:
                        a.transport.report_lost()
            case, trace = [7, n], [-7, 7]
        elif kind == "close":
            if self.closed:
                self.closed_nodes = []     # a second close() is outside the model (it raises AttributeError): skipped
            else:
                self.do_close()
            self.settle()
            case, trace = [8], [-7, 8] + lp(self.closed_nodes)
        elif kind == "hosts":
            c.update_cluster_hosts(self.hosts_arg(op["hosts"], op.get("form", "tuples")))
            case, trace = [9] + lp([x for hp in op["hosts"] for x in hp]), [-7, 9]
        else:
            raise ValueError("unknown op %r" % kind)
        self.scan()      # nothing may be left unattended
        if self.net.pending():
            self.monitor_notes.append(("attempt-left-pending", kind))
        obs["after"] = self.view()
        obs["leaks"] = self.leaks()
        trace = trace + self.dump()
        rc, rt = self.reap(plan)
        obs["reaped"] = rc[1::2]
        if rc:
            obs["after_reap"] = self.view()
        obs["notes"] = list(self.monitor_notes)
        return case + rc, trace + rt, obs

    def _run_send(self, op, plan):
        from afkak import common as C
        from twisted.python.failure import Failure
        c = self.client
        res = []
        closed0 = self.closed

        def closed_load(po, kind):
            # a closed client refuses the metadata / coordinator request before any shuffle (client.py:1120-1121):
            # nothing to read back, the script of that load is empty
            if closed0 and not po["loads"]:
                ld = self._new_load(po)
                ld.pop("boot_phase", None)
                ld["kind"] = kind
        if op["op"] == "sendcoord":
            plan = dict(plan)
            plan.pop("resp_mode", None)     # the single decoded response is the contract of decode_fn here
            g = op["group"]
            tag = op.get("tag", 1)
            pl = SimplePayload("t-1", -1, tag)
            d = c._send_request_to_coordinator(group_name(g, op.get("group_form")), pl, simple_encoder, simple_decoder_one)
            d.addBoth(res.append)
            po = self.pump(plan, res, {"keymap": None, "expect": True, "group": g})
            self.settle()
            closed_load(po, 1)
            reqs = po["reqs"]
            out = reqs[0] if reqs else {"code": 0, "resps": []}
            case = [10, g, tag] + self.enc_loads(po["loads"], True) + [out["code"]] + lp([x for r in out["resps"] for x in r])
            trace = [-7, 10] + self.emit_reqs(po["loads"], reqs)
            if not res:
                trace += [-50]
            elif isinstance(res[0], Failure):
                trace += classify_failure(res[0]) or [-62]
            else:
                r = res[0]
                trace += [1, 1, topic_id(r.topic), r.partition, r.error, r.tag]
            if not res:
                result = {"kind": None}
            elif isinstance(res[0], Failure):
                result = {"kind": "error", "code": classify_failure(res[0]) or [-62], "repr": repr(res[0].value)[:200]}
            else:
                r = res[0]
                result = {"kind": "ok", "responses": [(topic_id(r.topic), r.partition, r.error, r.tag)]}
            return case, trace, {"pump": po, "result": result, "tags": [tag]}
        api = op["api"]
        g = op.get("group")
        gform = op.get("group_form")
        payloads = op["payloads"]                      # list of (t, p); the tag of payload i is i+1
        tags = list(range(1, len(payloads) + 1))
        keymap = None
        if api != "direct":
            keymap = {}
            for (t, p), tag in zip(payloads, tags):
                keymap[(t, p)] = tag                   # the public APIs are driven with duplicate-free lists
        expect = bool(op.get("expect", True))
        fail = bool(op.get("fail", False))
        if api == "direct":
            pls = [SimplePayload(topic_name(t), p, tag) for (t, p), tag in zip(payloads, tags)]
            d = c._send_broker_aware_request(pls, simple_encoder, simple_decoder if expect else None,
                                             consumer_group=None if g is None else group_name(g, gform))
        elif api == "offset":
            pls = [C.OffsetRequest(topic_name(t), p, tag, 1) for (t, p), tag in zip(payloads, tags)]
            d = c.send_offset_request(pls, fail_on_error=fail)
        elif api == "offset_fetch":
            pls = [C.OffsetFetchRequest(topic_name(t), p) for (t, p) in payloads]
            d = c.send_offset_fetch_request(group_name(g, gform), pls, fail_on_error=fail)
        elif api == "offset_commit":
            pls = [C.OffsetCommitRequest(topic_name(t), p, tag, 0, b"") for (t, p), tag in zip(payloads, tags)]
            d = c.send_offset_commit_request(group_name(g, gform), pls, fail_on_error=fail)
        elif api == "fetch":
            pls = [C.FetchRequest(topic_name(t), p, tag, 1024) for (t, p), tag in zip(payloads, tags)]
            d = c.send_fetch_request(pls, fail_on_error=fail, max_wait_time=100)
        elif api == "produce":
            pls = [C.ProduceRequest(topic_name(t), p, []) for (t, p) in payloads]
            d = c.send_produce_request(pls, acks=1 if expect else 0, fail_on_error=fail)
        else:
            raise ValueError(api)
        d.addBoth(res.append)
        po = self.pump(plan, res, {"keymap": keymap, "expect": expect, "group": g})
        self.settle()
        if payloads:
            closed_load(po, 0 if g is None else 1)
        reqs = po["reqs"]
        flat = [x for (t, p), tag in zip(payloads, tags) for x in (t, p, tag)]
        case = [3, 0 if api == "direct" else 1, -1 if g is None else g, 1 if fail else 0, 1 if expect else 0] + lp(flat)
        case += self.enc_loads(po["loads"], g is not None) + self.enc_outs(reqs)
        trace = [-7, 3] + self.emit_reqs(po["loads"], reqs)

        def tag_of_resp(r):
            try:
                return _tag_of_resp(r)
            except AttributeError:
                return -77          # a response object of another request kind: shows up as a difference

        def _tag_of_resp(r):
            if api == "direct":
                return r.tag
            if api == "offset":
                return r.offsets[0] if r.offsets else -1
            if api in ("offset_fetch", "produce"):
                return r.offset
            if api == "fetch":
                return r.highwaterMark
            return 0

        def tag_of_payload(p):
            if api == "direct":
                return p.tag
            return keymap.get((topic_id(p.topic), p.partition), -1)

        def quads(rs):
            out = [len(rs)]
            for r in rs:
                out += [topic_id(r.topic), r.partition, r.error, tag_of_resp(r)]
            return out
        result = {"kind": None}
        if not res:
            trace += [-50]
        elif isinstance(res[0], Failure):
            e = res[0].value
            if isinstance(e, C.FailedPayloadsError):
                ftags = [tag_of_payload(p) for p, _f in e.failed_payloads]
                trace += [3] + quads(list(e.responses)) + lp(ftags)
                result = {"kind": "failed", "responses": [(topic_id(r.topic), r.partition, r.error, tag_of_resp(r)) for r in e.responses],
                          "failed": ftags}
            else:
                cl = classify_failure(res[0])
                trace += cl
                result = {"kind": "error", "code": cl, "repr": repr(e)[:200]}
        else:
            rs = list(res[0]) if res[0] is not None else []
            trace += [1] + quads(rs)
            result = {"kind": "ok", "responses": [(topic_id(r.topic), r.partition, r.error, tag_of_resp(r)) for r in rs]}
        return case, trace, {"pump": po, "result": result, "tags": tags}


def run_history(hosts, universe, ops, seed, hosts_form="tuples"):
    """-> (case line, impl trace, per-op observations, sim)"""
    sim = Sim(hosts, universe, seed, hosts_form)
    case = [1, universe] + lp([x for hp in hosts for x in hp])
    trace, obs = [], []
    for op in ops:
        cf, tf, ob = sim.run_op(op)
        case += cf
        trace += tf
        obs.append(ob)
    return case, trace, obs, sim


def split_trace(trace):
    """cut a flat trace at the op markers (-7) for readable diffs"""
    out, cur = [], []
    for x in trace:
        if x == -7 and cur:
            out.append(cur)
            cur = []
        cur.append(x)
    if cur:
        out.append(cur)
    return out


def first_diff(a, b):
    sa, sb = split_trace(a), split_trace(b)
    for i, (x, y) in enumerate(zip(sa, sb)):
        if x != y:
            return {"step": i, "impl": x[:160], "model": y[:160]}
    if len(sa) != len(sb):
        return {"step": min(len(sa), len(sb)), "impl_steps": len(sa), "model_steps": len(sb)}
    return None
