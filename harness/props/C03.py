# C03 - commits never run ahead of successfully processed messages; resume after a crash from the committed offset.
#
# Implementation side: the REAL afkak.consumer.Consumer with a consumer group (consumer_lib.Driver) against the simulated
# honest broker + coordinator offset store of consumer_log_lib: count- and time-triggered auto-commit, manual commit(),
# commit errors / retries / unretriable errors, processor success / failure / slow / re-entrant, stop, shutdown, and
# PROCESS DEATH at an arbitrary point followed by a fresh Consumer started with OFFSET_COMMITTED against the same store.
# Model side: coq/Model/Consumer.v on the same event lists (both lives): full canonical trace compared.
# Monitors (coq/Model/ConsumerLog.v restated): REQ (single commit in flight, last_committed_offset acknowledged /
# reported), commit_le_processed (commit value = last successfully completed block; nothing delivered at or below it
# is unprocessed), store value = last acknowledged commit, resume (first delivered after the crash = first log entry
# > committed; nothing <= committed redelivered, nothing skipped).
import random

import vlib

MODEL = "consumer"
MODULE = "Model.Consumer"
TIED = ["C03_single_commit_committed_is_acked", "C03_single_commit", "C03_commit_is_last_processed",
        "C03_no_delivery_after_failure", "C03_commit_le_processed", "C03_commit_le_processed_offsets",
        "C03_store_is_processed", "C03_resume_asks_coordinator", "C03_resume_position", "C03_resume_nothing_stored",
        "C03_resume", "C03_crash_resume", "C03_run_theorems_any_fuel", "C03_resume_any_fuel"]


def libs():
    from props import consumer_lib as CL
    from props import consumer_log_lib as LL
    from props import C02
    return CL, LL, C02


def describe(c):
    return {"cfg(group,acn,acs,reset,maxatt,buf,maxbuf,gen,cap,fuel)": c[1:11], "events": c[11:71]}


def monitors(CL, LL, C02, cfg, events, drv, log, store0, store):
    steps, ends = CL.split_steps(drv.trace)
    res = []
    m = LL.mon_req(events, steps, ends)
    if m:
        res.append(("C03_single_commit / C03_committed_is_acked (monitor REQ)", m))
    m = LL.mon_commit(events, steps, ends)
    if m:
        res.append(("C03_commit_le_processed", m))
    if store is not None:
        # the coordinator's store: the acknowledgements it gave are exactly those the trace shows (in order); a commit it
        # applied although the answer was lost carries an offset some commit request of this run really sent; it holds
        # the last of all these (or its initial value)
        sent = None
        acks, allsent = [], []
        for ev, outs in zip(events, steps):
            if ev[0] == CL.EV_COMMIT_OK and sent is not None and not (outs and outs[0][0] == CL.OUT_IGNORED):
                acks.append(sent)
                sent = None
            elif ev[0] == CL.EV_COMMIT_FAIL:
                sent = None
            for o in outs:
                if o[0] == CL.OUT_COMMIT:
                    sent = None if o[1] == CL.NONE else o[1]
                    allsent.append(sent)
                elif o[0] == CL.OUT_CANCEL_REQ and o[1] == CL.R_COMMIT:
                    sent = None
        if list(store.acked) != acks:
            res.append(("coordinator store", "store acknowledged %r, the trace shows acknowledged commits %r" % (store.acked, acks)))
        elif any(x not in allsent for x in store.lost):
            res.append(("coordinator store", "store applied %r (answer lost), commit requests sent: %r" % (store.lost, allsent)))
        elif not acks and not store.lost and store.committed != store0:
            res.append(("coordinator store", "store holds %r, nothing was committed, initial value %r" % (store.committed, store0)))
    if log is not None:
        m = LL.mon_log(events, steps, log.entries, cfg.reset)
        if m:
            res.append(("C02_delivered_is_log_segment (needed by C03_resume)", m))
    return res


def completed_offsets(LL, CL, events, trace):
    """offsets of all messages whose processing completed successfully (whole run)"""
    steps, ends = CL.split_steps(trace)
    pw = LL.ProcWindow()
    done = []
    for ev, outs in zip(events, steps):
        before = list(pw.done)
        if ev[0] == CL.EV_START and any(o[0] == CL.OUT_RET for o in outs):
            done += pw.done
            pw.epoch()
            pw.started()
        pw.event(ev, True)
        for o in outs:
            if o[0] in (CL.OUT_OFFREQ, CL.OUT_OFFFETCH):
                done += pw.done
                pw.epoch()
            pw.out(o)
    return done + pw.done


def run(ck):
    vlib.import_repo()
    CL, LL, C02 = libs()
    CL.quiet()
    ck.build([MODEL])
    ck.props()
    rnd = random.Random(ck.seed)
    thorough = ck.tier == "thorough"
    scale = 12 if thorough else 1
    cases, impl, meta = [], [], []

    def report(label, cfg, events, drv, log, store0, store):
        cases.append(CL.case_line(cfg, C02.plain_events(events)))
        impl.append(list(drv.trace))
        meta.append((label, cfg, events))
        for ev in events:
            ck.hist("ev_" + CL.EV_NAMES[ev[0]])
        for (thm, what) in monitors(CL, LL, C02, cfg, events, drv, log, store0, store):
            def failing(d, evs, thm=thm):
                return any(t == thm for (t, _) in monitors(CL, LL, C02, cfg, evs, d, log, None, None))
            small = C02.shrink(CL, LL, cfg, events, None, failing) if (len(events) <= 400 and "store" not in thm) else events
            d2 = C02.run_case_impl(CL, cfg, small)
            ck.violation({"kind": "monitor", "theorem": thm, "what": what, "cfg": cfg.line(), "events": C02.jsonable(small),
                          "log": [[o, list(k) if k is not None else None, list(v) if v is not None else None] for (o, k, v) in (log.entries if log else [])],
                          "reset": cfg.reset, "impl_trace": list(d2.trace)[:400], "replay_op": "events"})

    # --- 0. corpus: F-C03-1 (a failed block must not be followed by further blocks / commits)
    cfg = CL.Cfg(group=1, acn=2)
    log = LL.PartitionLog(random.Random(3), n=0, first=0)
    for o in range(4):
        log.units.append(LL.Unit("plain", 0, [(o, None, b"m%d" % o)]))
    log.next = 4
    store = LL.OffsetStore()
    events, drv, env = LL.honest_run(random.Random(1), cfg, log, store, 10, fault=0.0,
                                     first=[(CL.EV_START, 0), (CL.EV_PLAN, 0, 1)],
                                     weights={CL.EV_STOP: 0, CL.EV_SHUTDOWN: 0, CL.EV_START: 0, "append": 0, "retain": 0, CL.EV_COMMIT: 0})
    ck.hist("corpus_processor_failure")
    report("corpus:F-C03-1", cfg, events, drv, log, None, store)
    if drv.delivered != [0, 1] or store.committed is not None:
        ck.violation({"kind": "corpus F-C03-1: after the processor failed on [0, 1] the consumer delivered %r and the store holds %r"
                              % (drv.delivered, store.committed), "cfg": cfg.line(), "events": C02.jsonable(events), "replay_op": "events"})

    # corpus: a commit request fails with a retriable error, more blocks complete while the retry timer is armed, the retry
    # carries the FRESH last-processed offset and that is what gets acknowledged / recorded / reported to the waiter
    cfg = CL.Cfg(group=1, acn=2)
    log = LL.PartitionLog(random.Random(3), n=0, first=0)
    for o in range(6):
        log.units.append(LL.Unit("plain", 0, [(o, None, b"m%d" % o)]))
    log.next = 6
    store = LL.OffsetStore()
    first = [(CL.EV_START, 0), (CL.EV_PLAN, 0, 0), (CL.EV_PLAN, 0, 2), (CL.EV_PLAN, 0, 0), "reply", (CL.EV_COMMIT_FAIL, CL.FK_KAFKA),
             (CL.EV_PROC_FIRE, 1), (CL.EV_FIRE_COMMIT_RETRY,), (CL.EV_COMMIT_OK,)]
    events, drv, env = LL.honest_run(random.Random(1), cfg, log, store, 0, fault=0.0, first=first)
    ck.hist("corpus_commit_retry_interleaving")
    report("corpus:commit-retry", cfg, events, drv, log, None, store)
    sent = [o[1] for st in CL.split_steps(drv.trace)[0] for o in st if o[0] == CL.OUT_COMMIT]
    if sent != [1, 5] or store.committed != 5 or drv.consumer.last_committed_offset != 5:
        ck.violation({"kind": "corpus commit-retry: commit requests carried %r (expected [1, 5]), the store holds %r, last_committed_offset %r"
                              % (sent, store.committed, drv.consumer.last_committed_offset),
                      "cfg": cfg.line(), "events": C02.jsonable(events), "replay_op": "events"})

    # finding probe F-C03-3 (repaired in /repo d2193f8): the processor fails on the first sub-block of a reply; the application's
    # errback on the start Deferred calls stop() and start(100); the rest of the OLD reply must not reach the new life
    for mode in ("async", "sync"):
        obs, deliv, sentp = LL.probe_restart_in_errback(mode)
        ck.finding("F-C03-3", obs,
                   "the processor fails (%s) on [0, 1] of a reply [0..5] (auto_commit_every_n=2); the errback of the start Deferred calls stop() "
                   "and start(100): the old block's [2, 3], [4, 5] are handed to the processor in the new life and offset 3 is committed past "
                   "the unprocessed 0, 1 (delivered %r, commit requests %r)" % (mode, deliv, sentp),
                   {"kind": "finding probe: restart from the start Deferred's errback", "mode": mode, "delivered": deliv,
                    "commit_requests": sentp, "replay_op": "restart_probe"})
    # finding probe F-C03-4 (repaired in /repo b73c7f1): a life commits 5; stop(); the coordinator loses the group's offsets; restart
    # from OFFSET_COMMITTED is told "nothing committed": last_committed_offset must forget 5, and a commit() of the re-processed 5 must
    # be SENT, not reported "up to date"
    cfg = CL.Cfg(group=1, acn=0, reset=1)
    drvq = LL.LDriver(cfg)
    drvq.values_seen = []
    evq = [(CL.EV_START, 0), (CL.EV_PLAN, 0, 0), (CL.EV_FETCH_OK, [0, 1, 2, 3, 4, 5], False), (CL.EV_COMMIT,), (CL.EV_COMMIT_OK,), (CL.EV_STOP,),
           (CL.EV_START, CL.OFFSET_COMMITTED), (CL.EV_REQ_OK, -1), (CL.EV_REQ_OK, 0), (CL.EV_PLAN, 0, 0),
           (CL.EV_FETCH_OK, [0, 1, 2, 3, 4, 5], False), (CL.EV_COMMIT,)]
    lc_after_report = "?"
    for n_, ev in enumerate(evq):
        drvq.step(ev)
        if n_ == 7:
            lc_after_report = drvq.consumer.last_committed_offset
    sentq = [a[0] for (_, w, a) in drvq.sent if w == "commit"]
    ck.finding("F-C03-4", lc_after_report is not None or len(sentq) != 2,
               "after an OffsetFetch reply 'nothing committed' last_committed_offset still reads %r (committed in an earlier life) and commit() of "
               "the same offset is reported up to date without a request (commit requests sent: %r)" % (lc_after_report, sentq),
               {"kind": "finding probe: stale last_committed_offset", "cfg": cfg.line(), "events": C02.jsonable(evq), "replay_op": "events"})
    cases.append(CL.case_line(cfg, C02.plain_events(evq)))
    impl.append(list(drvq.trace))
    meta.append(("corpus:F-C03-4", cfg, evq))
    # implementation-side family: honest histories in which every failure of the start Deferred is answered by stop() + start(offset)
    # from its errback (monitors only: per-life delivery against the log, values, overlap)
    n_re = 40 * scale
    relives = 0
    for i in range(n_re):
        cfg = CL.gen_cfg(rnd, group=1)
        cfg.acn = rnd.choice([1, 2, 3])
        cfg.acs = 0
        cfg.reset = 0
        cfg.maxbuf = -1
        log = LL.PartitionLog(rnd, n=rnd.randint(12, 40))
        ents = [o for (o, k, v) in log.entries]
        store = LL.OffsetStore()
        ro = [rnd.choice(ents) for _ in range(3)]
        events, drv, env = LL.honest_run(rnd, cfg, log, store, rnd.choice([40, 70]), fault=rnd.choice([0.0, 0.1]),
                                         first=[(CL.EV_START, rnd.choice(ents[:3]))], driver_cls=LL.RDriver, restart_offsets=ro,
                                         weights={CL.EV_STOP: 0, CL.EV_SHUTDOWN: 0, CL.EV_START: 0, "retain": 0, "append": 0,
                                                  CL.EV_PLAN: 9, CL.EV_COMMIT: 1})
        ck.hist("restart_in_errback_runs")
        relives += sum(1 for l in drv.lives if l[2])
        bad = []
        m = LL.mon_lives(drv.lives, log.entries)
        if m:
            bad.append(("C02_delivered_is_log_segment / C03_no_delivery_after_failure (per life)", m))
        m = LL.mon_values(drv.values_seen, log.entries)
        if m:
            bad.append(("C02 values", m))
        m = LL.mon_overlap(drv.calls)
        if m:
            bad.append(("C02_no_overlap", m))
        if drv.escaped:
            bad.append(("no exception escapes a stimulus", "event %d: %s" % (drv.escaped[0], drv.escaped[1])))
        for (thm, what) in bad:
            ck.violation({"kind": "monitor (restart from the start Deferred's errback; implementation only)", "theorem": thm, "what": what,
                          "cfg": cfg.line(), "events": C02.jsonable(events), "restart_offsets": ro,
                          "log": [[o, list(k) if k is not None else None, list(v) if v is not None else None] for (o, k, v) in log.entries],
                          "replay_op": "restart_events"})
    ck.hist("restarts_from_errback", relives)
    # implementation-side family: the Deferred the processor returned fails with CancelledError although the consumer did not cancel
    # it (the processor's own timeout).  The model has one kind of processor failure; the driver would report this one under
    # another failure kind, so: monitors only (REQ, commit_le_processed with the failure discipline, log, store)
    n_pc = 40 * scale
    npc = 0
    for i in range(n_pc):
        cfg = CL.gen_cfg(rnd, group=1)
        cfg.acn = rnd.choice([1, 2, 3])
        cfg.acs = rnd.choice([0, 1])
        log = LL.PartitionLog(rnd, n=rnd.randint(10, 40))
        ents = [o for (o, k, v) in log.entries]
        store0 = None
        store = LL.OffsetStore(store0)
        events, drv, env = LL.honest_run(rnd, cfg, log, store, rnd.choice([40, 70]), fault=rnd.choice([0.0, 0.1]), proc_cancel=1.0,
                                         first=[(CL.EV_START, ents[0])],
                                         weights={CL.EV_PLAN: 9, "retain": 0, CL.EV_COMMIT: 3, "commit_reply": 10})
        npc += sum(1 for e in events if e[0] == CL.EV_PROC_FIRE and e[1] == 2)
        ck.hist("processor_timeout_runs")
        for (thm, what) in monitors(CL, LL, C02, cfg, events, drv, log, store0, store):
            ck.violation({"kind": "monitor (processor Deferred fails with CancelledError while the consumer is running; implementation only)",
                          "theorem": thm, "what": what, "cfg": cfg.line(), "events": C02.jsonable(events),
                          "log": [[o, list(k) if k is not None else None, list(v) if v is not None else None] for (o, k, v) in log.entries],
                          "reset": cfg.reset, "replay_op": "events"})
    ck.hist("processor_failures_by_own_cancel", npc)
    ck.cov["evaluations"] += n_pc
    ck.cov["evaluations"] += n_re

    # --- 1. honest histories with a group, then crash and resume
    n_runs = 90 * scale
    resumes = 0
    for i in range(n_runs):
        cfg = CL.gen_cfg(rnd, group=1)
        cfg.acn = rnd.choice([0, 1, 2, 3, 5])
        cfg.acs = rnd.choice([0, 1])
        cfg.gen = rnd.choice([-1, 0, 17])
        log = LL.PartitionLog(rnd, n=rnd.randint(4, 40))
        ents = [o for (o, k, v) in log.entries]
        store0 = rnd.choice([None, None] + ents[:5])
        store = LL.OffsetStore(store0)
        length = rnd.choice([30, 50, 80]) * (2 if thorough else 1)      # process death = the schedule simply ends here
        w = {CL.EV_COMMIT: 4, "commit_reply": 10, CL.EV_TICK: 4, "retain": 0}
        first = [(CL.EV_START, rnd.choice([CL.OFFSET_COMMITTED, CL.OFFSET_COMMITTED, CL.OFFSET_EARLIEST, ents[0] if ents else 0]))]
        events, drv, env = LL.honest_run(rnd, cfg, log, store, length, weights=w, fault=rnd.choice([0.0, 0.1, 0.25]), first=first,
                                         lost_commits=rnd.choice([0.0, 0.3, 0.6]))
        report("life1", cfg, events, drv, log, store0, store)
        ck.hist("lives")
        ck.hist("commits_acknowledged", len(store.acked))
        ck.hist("commits_applied_answer_lost", len(store.lost))
        done1 = completed_offsets(LL, CL, events, drv.trace)
        c = store.committed
        # C03_store_is_processed: whatever this life made the coordinator store is the end of a block that completed successfully
        for x in list(store.acked) + list(store.lost):
            if x not in done1:
                ck.violation({"kind": "monitor", "theorem": "C03_store_is_processed",
                              "what": "the coordinator stored offset %r; successfully processed offsets: ...%r" % (x, done1[-8:]),
                              "cfg": cfg.line(), "events": C02.jsonable(events), "replay_op": "events"})
                break
        # at-least-once across the crash: if the committed offset was acknowledged since the last change of start position,
        # everything delivered since then at or below it was processed before the crash
        steps_, _ = CL.split_steps(drv.trace)
        cur, done_cur, acked_cur, sent_cur = LL.epoch_state(events, steps_)
        if c is not None and c in sent_cur and c in done_cur:
            late = [x for x in cur if x <= c and x not in done_cur]
            if late:
                ck.violation({"kind": "monitor", "theorem": "C03_commit_le_processed (at the crash point)",
                              "what": "store holds %d; delivered but unprocessed at or below it: %r" % (c, late),
                              "cfg": cfg.line(), "events": C02.jsonable(events), "replay_op": "events"})
        # resume: a fresh process started from the committed position
        if c is not None and c >= log.start - 1:
            cfg2 = CL.Cfg(group=1, acn=rnd.choice([0, 1, 3]), acs=0, reset=cfg.reset, maxatt=0, buf=4096)
            ev2, drv2, env2 = LL.honest_run(rnd, cfg2, log, store, 25, fault=rnd.choice([0.0, 0.15]),
                                            first=[(CL.EV_START, CL.OFFSET_COMMITTED)],
                                            weights={CL.EV_STOP: 0, CL.EV_SHUTDOWN: 0, CL.EV_START: 0, "retain": 0, CL.EV_COMMIT: 0.5},
                                            drain=40)
            report("life2", cfg2, ev2, drv2, log, c, None)
            resumes += 1
            want = [o for (o, k, v) in log.entries if o > c]
            got = drv2.delivered
            if got != want[:len(got)] or (want and not got and not drv2.consumer._start_d.called):
                ck.violation({"kind": "monitor", "theorem": "C03_resume",
                              "what": "committed %d; a consumer restarted from OFFSET_COMMITTED received %r..., the log holds %r... after the committed offset"
                                      % (c, got[:10], want[:10]),
                              "cfg": cfg2.line(), "events": C02.jsonable(ev2), "reset": cfg2.reset,
                              "log": [[o, list(k) if k is not None else None, list(v) if v is not None else None] for (o, k, v) in log.entries],
                              "replay_op": "events"})
    ck.hist("resumes_checked", resumes)

    # --- 2. arbitrary environments (group on): correspondence + the log-independent monitors
    for i in range(100 * scale):
        cfg = CL.gen_cfg(rnd, group=1)
        cfg, events, drv = CL.gen_case(rnd, rnd.choice([20, 40, 70]), cfg=cfg,
                                       weights={CL.EV_COMMIT: 6, CL.EV_COMMIT_OK: 8, CL.EV_COMMIT_FAIL: 5, CL.EV_TICK: 5})
        report("any", cfg, events, drv, None, None, None)
        ck.hist("arbitrary_runs")

    # --- 3. composed: the real Consumer over the REAL KafkaClient (afkak/client.py is under test too); only the brokers are
    #        scripted.  Commit / offset-fetch / coordinator replies carry every group error code; the store records an
    #        offset only when it answers error 0.  No model on this stream: monitors only.
    from props import consumer_compose_lib as CC
    ncomp = 45 * scale
    comp_commits = comp_acked = comp_resumes = 0
    for i in range(ncomp):
        log = LL.PartitionLog(rnd, n=rnd.randint(5, 40))
        ents = [o for (o, k, v) in log.entries]
        store0 = rnd.choice([None, None] + ents[:4])
        store = LL.OffsetStore(store0)
        cfgc = dict(acn=rnd.choice([0, 1, 2, 3]), acs=rnd.choice([0, 1]), reset=rnd.choice([0, 1, 2]), maxatt=rnd.choice([0, 0, 3]),
                    gen=rnd.choice([-1, 17]))
        seed = rnd.randrange(1 << 30)
        run = CC.run_life(random.Random(seed), log, store, rnd.choice([60, 100, 140]),
                          [CL.OFFSET_COMMITTED, CL.OFFSET_COMMITTED, CL.OFFSET_EARLIEST, ents[0] if ents else 0],
                          fault=rnd.choice([0.1, 0.25, 0.4]), **cfgc)
        comp_commits += len(run.commit_reqs)
        comp_acked += len(run.acked)
        ck.hist("composed_lives")
        bad = CC.monitors(run, store0)
        if run.escaped:
            bad.append(("no exception escapes a stimulus", "step %d: %s" % (run.escaped[0], run.escaped[1])))
        for (thm, what) in bad:
            ck.violation({"kind": "monitor (composed: real Consumer over real KafkaClient, scripted brokers)", "theorem": thm, "what": what,
                          "cfg": cfgc, "seed": seed, "events": [list(e) for e in run.log_events], "store0": store0,
                          "log_units": [[u.kind, u.magic, [[o, list(k) if k is not None else None, list(v) if v is not None else None] for (o, k, v) in u.entries]] for u in log.units],
                          "replay_op": "composed"})
        c = store.committed
        if c is not None and c >= log.start - 1 and not bad:
            run2 = CC.Run(random.Random(seed + 1), log, store, acn=0, acs=0, reset=cfgc["reset"], maxatt=0)
            run2.step(("start", CL.OFFSET_COMMITTED))
            for _ in range(80):
                if len(run2.plan) < 3:
                    run2.step(("plan", 0, 0))
                pend = run2.pending()
                if pend:
                    run2.step(("answer", pend[0].rid, 0))
                elif run2.clock.getDelayedCalls():
                    run2.step(("timer", 0))
                else:
                    break
            comp_resumes += 1
            want = [o for (o, k, v) in log.entries if o > c]
            got = run2.delivered
            if got != want[:len(got)] or (want and not got):
                ck.violation({"kind": "monitor (composed)", "theorem": "C03_resume",
                              "what": "store holds %d; a fresh consumer started from OFFSET_COMMITTED over the real client received %r..., the log holds %r... after it"
                                      % (c, got[:10], want[:10]), "cfg": cfgc, "seed": seed, "events": [list(e) for e in run.log_events],
                              "replay_op": "composed"})
    # directed lives: every group error code on the OffsetCommit answer and on the OffsetFetch answer
    for on in ("commit", "ofetch"):
        for err in sorted(set(CC.GROUP_ERRS)):
            log = LL.PartitionLog(random.Random(11), n=8)
            ents = [o for (o, k, v) in log.entries]
            store0 = ents[1] if on == "ofetch" else None
            store = LL.OffsetStore(store0)
            cfgc = dict(acn=0, acs=0, reset=1, maxatt=0, gen=17)
            run = CC.directed_commit_error(random.Random(5), log, store, err, on=on, **cfgc)
            ck.hist("composed_directed_lives")
            comp_commits += len(run.commit_reqs)
            comp_acked += len(run.acked)
            bad = CC.monitors(run, store0)
            if run.escaped:
                bad.append(("no exception escapes a stimulus", "step %d: %s" % (run.escaped[0], run.escaped[1])))
            if on == "commit" and not run.commit_reqs:
                bad.append(("directed life", "no OffsetCommit frame was sent (error code %d on %s)" % (err, on)))
            for (thm, what) in bad:
                ck.violation({"kind": "monitor (composed, directed: error code %d on the %s answer)" % (err, on), "theorem": thm, "what": what,
                              "cfg": cfgc, "seed": 5, "events": [list(e) for e in run.log_events], "store0": store0,
                              "log_units": [[u.kind, u.magic, [[o, list(k) if k is not None else None, list(v) if v is not None else None] for (o, k, v) in u.entries]] for u in log.units],
                              "replay_op": "composed"})
    ck.hist("composed_commit_requests", comp_commits)
    ck.hist("composed_commits_acknowledged", comp_acked)
    ck.hist("composed_resumes_checked", comp_resumes)
    ck.cov["evaluations"] += ncomp

    diffs, mo = ck.correspond(MODEL, MODULE, cases, impl, "real Consumer (group, commits, crash/resume) vs Model.Consumer (full canonical trace)",
                              nontrivial=lambda c, o: any(x[0] == CL.OUT_COMMIT for st in CL.split_steps(o)[0] for x in st), describe=describe)
    if diffs and not ck.violations:
        i = diffs[0]
        label, cfg, events = meta[i]
        k = next((j for j, (a, b) in enumerate(zip(impl[i], mo[i])) if a != b), min(len(impl[i]), len(mo[i])))
        ck.violation({"kind": "correspondence broken", "correspondence": "corr:consumer:trace", "theorems_no_longer_tied": TIED,
                      "family": label, "cfg": cfg.line(), "events": C02.jsonable(events), "first_difference_at": k,
                      "impl": impl[i][max(0, k - 12):k + 12], "model": mo[i][max(0, k - 12):k + 12], "replay_op": "events"}, no_input=True)
    for o in mo:
        try:
            fuel_out = any(x[0] == CL.OUT_FUEL for st in CL.split_steps(o)[0] for x in st)
        except Exception:
            fuel_out = True
        if fuel_out and not ck.violations:
            ck.violation({"kind": "model ran out of fuel (theorems assume it does not)"}, no_input=True)
            break

    if thorough:
        ck.coqchk(["AV.Props.C03"])
    ck.cov["rule"] = ("seeded generator (random.Random(VERIF_SEED)): consumers with a group over partition logs (gaps, wrappers), auto-commit every "
                      "n in {0,1,2,3,5} and/or by timer, manual commits, commit acknowledgements / retriable / unretriable / non-Kafka errors, "
                      "processor success / failure / slow / calling stop or commit, stop, shutdown, restarts; each history ends at an arbitrary "
                      "point (process death) and a fresh consumer is started from OFFSET_COMMITTED against the same store; plus arbitrary "
                      "reply streams; commits the coordinator applied although the answer was lost; implementation-only families (restart from the start "
                      "Deferred's errback, processor Deferred failing with its own CancelledError); composed lives over the real KafkaClient incl. one "
                      "directed life per group error code.  A case is non-trivial if a commit request was sent; distinct = distinct canonical case lines.")
    ck.assumptions += [
        "hand-written Gallina model Model/Consumer.v stands for afkak/consumer.py:290-1131 (tie: this run's full-trace correspondence)",
        "the coordinator's offset store is a simulation: it records the offset of a commit request when (and only when) it acknowledges it",
        "process death = the event list ends; the restarted process is a fresh Consumer object (nothing survives but the broker's log and store)",
        "fuel: the *_any_fuel theorems need no fuel hypothesis (fuel_enough is proved); the other run-level forms assume run_fuel_ok; the harness derives "
        "its fuel from the input size and an OFuel output of the model on a generated case would be reported",
        "the Python monitors (REQ/REQ2, PW/PWB, C3, log, store) are hand re-writes of the Coq automata; only the trace correspondence ties them to the theorems",
        "the restart-from-errback family (F-C03-3), the processor-timeout family and the composed stream over the real KafkaClient are outside the model: monitors only",
        "extraction: ExtrOcamlBasic; a sample of cases is re-evaluated inside Coq by vm_compute",
    ]
    ck.cov["trusted_base"] += ["correspondence harness harness/props/C03.py, C02.py, consumer_lib.py, consumer_log_lib.py + harness/vlib.py",
                               "extracted OCaml runner (ExtrOcamlBasic) cross-checked by vm_compute sample"]


def replay(rp):
    CL, LL, C02 = libs()
    import json
    CL.quiet()
    if rp.get("replay_op") == "events":
        cfg = CL.Cfg.from_line(rp["cfg"])
        drv = C02.run_case_impl(CL, cfg, rp["events"])
        print("implementation trace now:", drv.trace[:600])
        print("delivered:", drv.delivered)
        log = None
        if rp.get("log"):
            class L(object):
                pass
            log = L()
            log.entries = [(o, None if k is None else bytes(k), None if v is None else bytes(v)) for (o, k, v) in rp["log"]]
        bad = monitors(CL, LL, C02, cfg, [tuple(e) for e in rp["events"]], drv, log, None, None)
        print("monitor verdicts:", json.dumps(bad, indent=1, default=repr))
        return 1 if bad else 0
    if rp.get("replay_op") == "restart_probe":
        obs, deliv, sentp = LL.probe_restart_in_errback(rp["mode"])
        print("delivered:", deliv, "commit requests:", sentp, "observed:", obs)
        return 1 if obs else 0
    if rp.get("replay_op") == "restart_events":
        cfg = CL.Cfg.from_line(rp["cfg"])
        drv = LL.RDriver(cfg, restart_offsets=rp["restart_offsets"])
        drv.values_seen = []
        for e in rp["events"]:
            e = list(e)
            if e[0] == CL.EV_FETCH_OK and len(e) > 3 and e[3] is not None:
                e[3] = bytes(e[3])
            drv.step(tuple(e))
        ents = [(o, None if k is None else bytes(k), None if v is None else bytes(v)) for (o, k, v) in rp["log"]]
        m = LL.mon_lives(drv.lives, ents)
        print("lives (start offset, blocks, restarted from errback):", drv.lives)
        print("monitor verdict:", m)
        return 1 if m else 0
    if rp.get("replay_op") == "composed":
        from props import consumer_compose_lib as CC
        return CC.replay_composed(rp)
    print(json.dumps(rp, indent=1, default=repr)[:3000])
    return 1
