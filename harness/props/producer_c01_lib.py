# C01 drivers and monitors (owned by the C01 check; builds on props/producer_lib.py which is read-only here).
#
# Driver 1  (Run1): producer_lib.ImplRun (REAL Producer over the scripted stand-in client) + per-step idleness.
# Driver 2  (Run2): the REAL Producer over the REAL KafkaClient whose broker layer is scripted:
#     KafkaClient._get_brokerclient(node)  -> ScriptedBroker (makeRequest Deferreds the driver answers with bytes
#                                             encoded here, independently of afkak, or fails / leaves silent)
#     KafkaClient._send_bootstrap_request  -> the same, as "node -1" (the ephemeral bootstrap connection)
#   so send_produce_request, _send_broker_aware_request, _make_request_to_broker (client time-outs),
#   _handle_responses, load_metadata_for_topics, _merge_topic_metadata, get_api_version and the codec are the real
#   code.  The Producer talks to the client through a recording boundary (ProxyClient) that forwards every call
#   and every result UNCHANGED; each result crossing the boundary becomes one event of Model/Producer.v
#   (EResult / ELoadDone / EVersion, preceded by EMetaSet for what the client did to its cache), so the same
#   extracted model runs on the composed history.  A simulated cluster (partition -> leader, partition -> log)
#   is the broker spec: produce = append at the leader, reply = error code or base offset.
#
# Monitors restate the C01 theorems over the implementation's own trace (both drivers) and, for driver 2, over
# the cluster logs and the bytes that reached a broker.
import random as _random
import struct

from props import producer_lib as PL

MID = PL.MID
TOPICS = PL.TOPICS


# ====================================================================== driver 1
class Run1(PL.ImplRun):
    """ImplRun + observation, after every event, of whether anything of the producer is still pending"""

    def __init__(self, cfg, client_factory=None):
        self.idle_after = []
        self.stopped_at = None
        PL.ImplRun.__init__(self, cfg, client_factory) if client_factory else PL.ImplRun.__init__(self, cfg)

    def busy(self):
        loads, timers, req, ver, _outst, _looper = PL.pending(self)
        return bool(loads or timers or req or ver)

    def apply(self, ev):
        mev = PL.ImplRun.apply(self, ev)
        if ev[0] == "stop" and self.stopped_at is None:
            self.stopped_at = len(self.events) - 1
        self.idle_after.append(not self.busy())
        return mev


# ====================================================================== wire format (independent of afkak)
def _s16(b):
    return struct.pack(">h", len(b)) + b


class Rd(object):
    def __init__(self, data, pos=0):
        self.d, self.p = data, pos

    def u(self, fmt):
        n = struct.calcsize(fmt)
        v = struct.unpack(fmt, self.d[self.p:self.p + n])
        self.p += n
        return v if len(v) > 1 else v[0]

    def s(self):
        n = self.u(">h")
        if n < 0:
            return None
        v = self.d[self.p:self.p + n]
        self.p += n
        return v.decode()

    def take(self, n):
        v = self.d[self.p:self.p + n]
        self.p += n
        return v


def parse_request(frame):
    """request bytes (no length prefix) -> dict(key, ver, corr, ...)"""
    r = Rd(frame)
    key, ver, corr = r.u(">hhi")
    r.s()
    out = {"key": key, "ver": ver, "corr": corr}
    if key == 0:       # Produce v0..v2: acks timeout [topic [partition size messageset]]
        acks, timeout = r.u(">hi")
        out["acks"], out["timeout"] = acks, timeout
        pls = []
        for _ in range(r.u(">i")):
            t = r.s()
            for _ in range(r.u(">i")):
                p, size = r.u(">ii")
                pls.append((t, p, r.take(size)))
        out["payloads"] = pls
    elif key == 3:     # Metadata v0: [topic]
        out["topics"] = [r.s() for _ in range(r.u(">i"))]
    elif key == 18:    # ApiVersions
        pass
    return out


def enc_produce_response(ver, corr, resps):
    """resps: [(topic name, partition, err, offset)] grouped by topic in order of first appearance"""
    by = {}
    for t, p, e, o in resps:
        by.setdefault(t, []).append((p, e, o))
    b = struct.pack(">ii", corr, len(by))
    for t, rs in by.items():
        b += _s16(t.encode()) + struct.pack(">i", len(rs))
        for p, e, o in rs:
            b += struct.pack(">ihq", p, e, o)
            if ver >= 2:
                b += struct.pack(">q", -1)
    if ver >= 1:
        b += struct.pack(">i", 0)
    return b


def enc_metadata_response(corr, brokers, topics):
    """brokers: [(node, host, port)]; topics: [(terr, name, [(perr, partition, leader)])]   (Metadata v0)"""
    b = struct.pack(">ii", corr, len(brokers))
    for n, h, p in brokers:
        b += struct.pack(">i", n) + _s16(h.encode()) + struct.pack(">i", p)
    b += struct.pack(">i", len(topics))
    for terr, t, parts in topics:
        b += struct.pack(">h", terr) + _s16(t.encode()) + struct.pack(">i", len(parts))
        for perr, p, leader in parts:
            reps = [leader] if leader >= 0 else []
            b += struct.pack(">hiii", perr, p, leader, len(reps)) + b"".join(struct.pack(">i", x) for x in reps)
            b += struct.pack(">i", len(reps)) + b"".join(struct.pack(">i", x) for x in reps)
    return b


def enc_api_versions_response(corr, err, table):
    b = struct.pack(">ihi", corr, err, len(table))
    for k, lo, hi in table:
        b += struct.pack(">hhh", k, lo, hi)
    return b


# ====================================================================== the simulated cluster (broker spec)
class Cluster(object):
    """partition -> leader, partition -> log.  produce = append at the leader; reply = error code or base offset."""

    def __init__(self, nbrokers, nparts, rnd):
        self.nodes = list(range(1, nbrokers + 1))
        self.nparts = dict(nparts)                    # topic index -> partition count
        self.leader = {}
        for t, n in self.nparts.items():
            for p in range(n):
                self.leader[(t, p)] = rnd.choice(self.nodes)
        self.log = {}                                 # (t, p) -> [(key, value)]
        self.appends = []                             # (step, node, t, p, base, [(key, value)])

    def metadata(self, topic_idxs, stale=None, terr=None):
        """honest Metadata answer for the asked topics (all known if none asked)"""
        brokers = [(n, "broker%d" % n, 9092) for n in self.nodes]
        ts = []
        for t in (topic_idxs if topic_idxs else sorted(self.nparts)):
            if t not in self.nparts:
                ts.append((3, TOPICS[t], []))
                continue
            e = (terr or {}).get(t, 0)
            if e == 3:
                ts.append((3, TOPICS[t], []))
                continue
            parts = [(0, p, (stale or self.leader)[(t, p)]) for p in range(self.nparts[t])]
            ts.append((e, TOPICS[t], parts))
        return brokers, ts

    def produce(self, step, node, payloads, plan):
        """payloads: [(topic name, partition, message set bytes)]; plan: {(t, p): err} overrides (no append).
        returns [(topic name, partition, err, offset)]"""
        out = []
        for (tn, p, ms) in payloads:
            t = TOPICS.index(tn)
            if (t, p) in plan:
                out.append((tn, p, plan[(t, p)], -1))
                continue
            if (t, p) not in self.leader:
                out.append((tn, p, 3, -1))
                continue
            if self.leader[(t, p)] != node:
                out.append((tn, p, 6, -1))
                continue
            kv = PL.parse_message_set(ms)
            lg = self.log.setdefault((t, p), [])
            base = len(lg)
            lg.extend(kv)
            self.appends.append((step, node, t, p, base, kv))
            out.append((tn, p, 0, base))
        return out


class BrokerReq(object):
    def __init__(self, rid, node, frame, expect, d):
        self.rid, self.node, self.frame, self.expect, self.d = rid, node, frame, expect, d
        self.req = parse_request(frame)
        self.done = False        # answered / failed / cancelled
        self.handed = False      # bytes handed to a connection (always true here: a scripted broker takes them at once)


class ScriptedBroker(object):
    """stands for a _KafkaBrokerClient: takes the request bytes, returns a Deferred the driver fires"""

    def __init__(self, run, node):
        self.run, self.node_id = run, node
        self.host, self.port = "broker%d" % node, 9092

    def __repr__(self):
        return "<ScriptedBroker %d>" % self.node_id

    def connected(self):
        return True

    def updateMetadata(self, bm):
        pass

    def disconnect(self):
        self.run.note("disconnect %d" % self.node_id)

    def close(self):
        from twisted.internet.defer import succeed
        return succeed(None)

    def makeRequest(self, correlationId, request, expectResponse=True):
        return self.run.broker_request(self.node_id, request, expectResponse)


# ====================================================================== the recording boundary
class ProxyClient(object):
    """What the Producer is given: every attribute and call is forwarded to the real KafkaClient, results come back
    on the very Deferred the real client returned (callbacks added here run first and pass the result through)."""

    def __init__(self, run, real):
        self._run, self._real = run, real

    reactor = property(lambda self: self._real.reactor)
    topic_partitions = property(lambda self: self._real.topic_partitions)
    _api_versions = property(lambda self: self._real._api_versions)

    def metadata_error_for_topic(self, topic):
        return self._real.metadata_error_for_topic(topic)

    def reset_topic_metadata(self, *topics):
        ids = sorted(set(TOPICS.index(t) for t in topics))
        self._run.emit([4] + ids)
        self._real.reset_topic_metadata(*topics)
        for t in ids:
            self._run.mcache[t] = self._run.cache_view(t)

    def load_metadata_for_topics(self, *topics):
        run = self._run
        lid = run.nload
        run.nload += 1
        run.emit([5, lid, TOPICS.index(topics[0]) if len(topics) == 1 else -1])
        d = self._real.load_metadata_for_topics(*topics)
        run.visible[("load", lid)] = d
        d.addBoth(run.deliver, "load", lid)
        return d

    def get_api_version(self, key):
        run = self._run
        run.emit([6])
        d = self._real.get_api_version(key)
        run.nver += 1
        run.visible[("ver", run.nver)] = d
        d.addBoth(run.deliver, "ver", run.nver)
        return d

    def send_produce_request(self, payloads, acks=1, timeout=1000, fail_on_error=True, callback=None):
        run = self._run
        run._last_payloads = list(payloads)
        run.saw_produce(payloads, acks, fail_on_error)
        run.nreq += 1
        run.cur_request = [(p.topic, p.partition) for p in payloads]
        run.acks0_err = {}
        run.lost_app = set()
        d = self._real.send_produce_request(payloads, acks=acks, timeout=timeout, fail_on_error=fail_on_error, callback=callback)
        run.visible[("req", run.nreq)] = d
        d.addBoth(run.deliver, "req", run.nreq)
        return d


# ====================================================================== driver 2
class Run2(PL.ImplRun):
    """cfg as for ImplRun plus: nbrokers, known (topics whose metadata the client starts with), timeout_ms"""

    def __init__(self, cfg):
        self.idle_after = []
        self.stopped_at = None
        self.notes = []
        self.breqs = {}          # rid -> BrokerReq
        self.nrid = 0
        self.ctimers = {}        # cid -> DelayedCall (client request time-outs)
        self.nctimer = 0
        self.visible = {}        # producer-visible client Deferreds still pending
        self.nload = self.nver = self.nreq = 0
        self.mcache = {}
        self.step_open = False
        self.in_stop = False
        self.stop_value = None
        self.cur_request = None
        self.handed = []         # (step, node, expect, [(t, p, [(key, value)])]) produce requests that reached a broker
        self.deliveries = []     # (step, kind, value) results that crossed the boundary
        rnd = _random.Random(cfg.get("cluster_seed", 0))
        self.cluster = Cluster(cfg["nbrokers"], cfg["nparts"], rnd)
        cfg = dict(cfg)
        cfg["cache"] = []        # filled from what the real client holds after the initial merge
        self._cfg0 = cfg
        self.req_ctimer = {}     # rid -> cid
        self._submitting = self._submit_idx = self._nested_idx = None
        self.cevents = []        # composed-model events (Model/ProducerCompose.v), parallel to self.events
        self.cur_cevent = None
        self.acks0_err = {}
        self.lost_app = set()     # payloads of the request in flight that a broker APPENDED before its response was lost
        self.last_rid = None
        self.acks0_faults = list(cfg.get("acks0_faults", []))
        PL.ImplRun.__init__(self, cfg, self._make_client)
        self._install_clock_hook()
        # model-side initial state = what the real client now reports
        cache = []
        for t in range(cfg["ntop"]):
            v = self.cache_view(t)
            self.mcache[t] = v
            if v != (3, False):
                cache.append((t, v[0], v[1]))
        self.cfg["cache"] = cache

    # -- construction of the real client
    def _make_client(self, run, api):
        from afkak.client import KafkaClient
        cfg = self._cfg0
        real = KafkaClient("bootstrap:9092", reactor=self.clock, timeout=cfg.get("timeout_ms", 5000),
                           enable_protocol_version_discovery=True)
        real._api_versions = api
        real._get_brokerclient = self._get_brokerclient
        real._send_bootstrap_request = self._bootstrap_request
        self.real = real
        self.brokers = {}
        known = cfg.get("known", [])
        if known:
            self._merge(known)
        return ProxyClient(self, real)

    def _merge(self, topic_idxs, stale=None):
        """install metadata through the real _merge_topic_metadata via the real decoder"""
        from afkak.kafkacodec import KafkaCodec
        brokers, ts = self.cluster.metadata(topic_idxs, stale=stale)
        b, t = KafkaCodec.decode_metadata_response(enc_metadata_response(0, brokers, ts))
        self.real._merge_topic_metadata(b, t, False)

    def _get_brokerclient(self, node_id):
        if self.real._closing:
            from afkak.common import ClientError
            raise ClientError("closed")
        if node_id not in self.brokers:
            self.brokers[node_id] = ScriptedBroker(self, node_id)
        return self.brokers[node_id]

    def _bootstrap_request(self, request):
        return self.broker_request(-1, request, True)

    def broker_request(self, node, frame, expect):
        from twisted.internet.defer import Deferred
        rid = self.nrid
        self.nrid += 1
        d = Deferred(lambda dd: self._cancelled(rid))
        br = BrokerReq(rid, node, bytes(frame), expect, d)
        self.breqs[rid] = br
        self.last_rid = rid if node >= 0 else None
        if br.req["key"] == 0:
            pls = [(TOPICS.index(t), p, PL.parse_message_set(ms)) for (t, p, ms) in br.req["payloads"]]
            if not expect:
                fault = self.acks0_faults.pop(0) if self.acks0_faults else False
                if fault == "pending":
                    # the broker client's connection does not come up: the request stays queued in the broker client,
                    # its Deferred pending, until the environment answers it (connection up: "bans"), fails it, or
                    # the client's own request time-out cancels it ("silent")
                    return d
                br.done = True
                if fault:
                    # the broker client could not queue the bytes (closed / connection gone): nothing handed over
                    from twisted.python.failure import Failure
                    d.errback(Failure(PL.exc_of_kind(PL.K_CONNDONE)))
                    return d
                # acks=0: the broker client reports success as soon as the bytes are queued; the broker applies them
                self._acks0_written(br, pls)
            else:
                self.handed.append((len(self.trace), node, expect, br.req["acks"], pls))
        return d

    def _acks0_written(self, br, pls=None):
        if pls is None:
            pls = [(TOPICS.index(t), p, PL.parse_message_set(ms)) for (t, p, ms) in br.req["payloads"]]
        self.handed.append((len(self.trace), br.node, br.expect, br.req["acks"], pls))
        for (tn, p, e, _o) in self.cluster.produce(len(self.trace), br.node, br.req["payloads"], {}):
            self.acks0_err[(TOPICS.index(tn), p)] = e      # the client never learns about it
        br.d.callback(None)

    def _cancelled(self, rid):
        self.breqs[rid].done = True     # Twisted errbacks CancelledError itself

    def _install_clock_hook(self):
        """client request time-outs (_make_request_to_broker) are the client's timers, not the producer's"""
        from twisted.internet.task import Clock
        base = self.clock.callLater

        def callLater(delay, func, *a, **kw):
            if getattr(func, "__name__", "") == "_mrtb_timeout":
                dc = Clock.callLater(self.clock, delay, func, *a, **kw)
                cid = self.nctimer
                self.nctimer += 1
                self.ctimers[cid] = dc
                if self.last_rid is not None:
                    self.req_ctimer[self.last_rid] = cid
                    self.last_rid = None
                return dc
            return base(delay, func, *a, **kw)
        self.clock.callLater = callLater

    def note(self, s):
        self.notes.append(s)

    # -- cache as the producer can see it
    def cache_view(self, t):
        name = TOPICS[t]
        return (self.real.metadata_error_for_topic(name), name in self.real.topic_partitions)

    def sync_meta(self):
        """what the client did to its cache since the model last heard of it: EMetaSet events (no outputs)"""
        for t in range(self.cfg["ntop"]):
            v = self.cache_view(t)
            if v != self.mcache.get(t, (3, False)):
                self.mcache[t] = v
                self.events.append([5, t, v[0], 1 if v[1] else 0])
                self.cevents.append([0, 4, 5, t, v[0], 1 if v[1] else 0])
                self.trace.append([])
                self.idle_after.append(None)

    def set_cache(self, t, err, hp):     # ImplRun.__init__ calls this for cfg["cache"]: nothing to do here
        pass

    # -- steps
    def open_step(self, mev, cev=None):
        self.cur = []
        self.cur_event = mev
        self.cur_cevent = cev
        self.step_open = True

    def close_step(self):
        if self.step_open:
            if self._submitting is not None and self._submit_idx is None:
                self._submit_idx = len(self.trace)
            self.events.append(self.cur_event)
            self.cevents.append(self.cur_cevent if self.cur_cevent is not None else [0, len(self.cur_event)] + list(self.cur_event))
            self.cur_cevent = None
            self.trace.append(sorted(self.cur))
            self.idle_after.append(None)
            self.cur = None
            self.step_open = False

    def plan_of_value(self, v, stop=False):
        """the composed-model event for a result of send_produce_request: what the cluster did with each payload of the
        request in flight, as far as the client's aggregate tells (acknowledged = appended at the leader)"""
        acks = self.cfg["acks"]
        req = [(TOPICS.index(t), p) for (t, p) in (self.cur_request or [])]
        tag = v[0]
        if tag in ("kafka", "other"):
            return [23 if stop else 21, 1 if tag == "kafka" else 0, v[1]]
        q = []
        def handed(t, p):
            # acks=0: handed to a connection; whether the broker appended it (it is the leader) the client never learns
            e = self.acks0_err.get((t, p), 0)
            return [t, p, 0, 0, 0] if e == 0 else [t, p, 1, e, 0]
        if tag == "empty":
            for (t, p) in req:
                q += handed(t, p)
        else:
            rs = v[1] if tag in ("resp", "failed") else []
            fs = v[2] if tag == "failed" else []
            for (t, p, e, _o) in rs:
                q += [t, p, 0, 0, 0] if e == 0 else [t, p, 1, e, 0]
            for (t, p, k) in fs:
                q += [t, p, 2, k, 1 if (t, p) in self.lost_app else 0]     # RLost k appended?
            if acks == 0:
                failed = set((t, p) for (t, p, _k) in fs)
                for (t, p) in req:
                    if (t, p) not in failed:
                        q += handed(t, p)
        return [22 if stop else 20, len(q)] + q

    def emit(self, o):
        # The Deferred of the send being submitted may fire INSIDE send_messages, but the driver can attach its
        # observer only when send_messages has returned.  If results crossed the boundary in between (new steps were
        # opened), the outcome belongs to the step in which it really fired: the step of the send if the request
        # never made it into a produce request (failed partition lookup), else the step of the first result delivered.
        if o[0] == 7 and o[1] == self._submitting and self._submit_idx is not None:
            sid = o[1]
            sent = any(m // MID == sid for (stp, _a, pls) in self.produce_log if stp == self._submit_idx
                       for (_t, _p, mids) in pls for m in mids if m >= 0)
            target = self._nested_idx if sent else self._submit_idx
            if target is not None and target < len(self.trace):
                self.trace[target] = sorted(self.trace[target] + [[int(x) for x in o]])
                return
        PL.ImplRun.emit(self, o)

    def value_of_result(self, r):
        """what crossed the boundary as the result of send_produce_request -> contract value"""
        from afkak.common import FailedPayloadsError, KafkaError, ProduceResponse
        from twisted.python.failure import Failure

        def resp(x):
            return (TOPICS.index(x.topic), x.partition, x.error, x.offset)
        if isinstance(r, Failure):
            if r.check(FailedPayloadsError):
                rs = [resp(x) for x in r.value.args[0]]
                fs = [(TOPICS.index(p.topic), p.partition, PL.kind_of_exc(f.value)[0]) for (p, f) in r.value.args[1]]
                return ("failed", rs, fs)
            k = PL.kind_of_exc(r.value)[0]
            return ("kafka", k) if r.check(KafkaError) else ("other", k)
        if not r:
            return ("empty", r)
        if all(isinstance(x, ProduceResponse) for x in r):
            return ("resp", [resp(x) for x in r])
        return ("other", PL.K_OTHER)

    def deliver(self, r, kind, ident):
        """a result of the real client is about to reach the Producer: start the model event for it"""
        from twisted.python.failure import Failure
        self.visible.pop((kind, ident), None)
        if kind == "req":
            v = self.value_of_result(r)
            self.deliveries.append((len(self.trace), "req", v))
            if self.in_stop:
                self.stop_value = v
                return r
            mev = [10] + self.value_ints(v)
            cev = self.plan_of_value(v)
        elif kind == "load":
            if self.in_stop:
                return r
            if isinstance(r, Failure):
                mev = [7, ident, 0, PL.kind_of_exc(r.value)[0]]
            else:
                mev = [7, ident, 1, 0]
        else:
            if self.in_stop:
                return r
            if isinstance(r, Failure):
                mev = [9, PL.kind_of_exc(r.value)[0]]
            else:
                mev = [9, 0 if self.real._api_versions == 0 else 1]
        self.close_step()
        self.sync_meta()
        if self._submitting is not None and self._nested_idx is None:
            self._nested_idx = len(self.trace)
        self.open_step(mev, cev if kind == "req" else None)
        return r

    def busy(self):
        timers = [tid for tid, dc in self.clock.timers.items() if dc in self.clock.calls]
        return bool(self.visible or timers)

    def apply(self, ev):
        op = ev[0]
        n0 = len(self.events)
        if op in ("send", "badsend", "cancel", "tick", "timer"):
            self.sync_meta()
            self.cur = []
            self.step_open = True
            self._submitting = ev[1] if op in ("send", "badsend") else None
            self._submit_idx = self._nested_idx = None
            self.cur_cevent = None
            PL.ImplRun._apply(self, ev)       # sets self.cur_event before it calls into the producer
            self._submitting = None
            self.close_step()
        elif op == "stop":
            self.sync_meta()
            self.cur = []
            self.step_open = True
            self.cur_event = [11, -1]
            self.in_stop, self.stop_value = True, None
            had_req = any(k[0] == "req" for k in self.visible)
            self.producer.stop()
            self.in_stop = False
            self.cur_cevent = [22, -1]
            if had_req and self.stop_value is not None:
                self.cur_event = [11] + self.value_ints(self.stop_value)
                self.cur_cevent = self.plan_of_value(self.stop_value, stop=True)
            if self.stopped_at is None:
                self.stopped_at = len(self.events)
            self.close_step()
        elif op == "bans":        # a broker answers:  ("bans", rid, plan)   plan: dict or None (honest)
            self._answer(ev[1], ev[2])
            self.close_step()
        elif op == "bfail":       # the request fails at the broker client (connection dropped ...)
            br = self.breqs.get(ev[1])
            if br is not None and not br.done:
                from twisted.python.failure import Failure
                br.done = True
                br.d.errback(Failure(PL.exc_of_kind(ev[2])))
            self.close_step()
        elif op == "blose":       # the broker applies the request (appends) and then the response is lost on the way
            self._lose(ev[1])
            self.close_step()
        elif op == "ctimer":      # the client's time-out for a silent broker fires
            dc = self.ctimers.get(ev[1])
            if dc is not None and dc in self.clock.calls:
                self.clock.fire(dc)
                # monitor: the client's time-out fired => the broker request it guards is over (cancelled)
                for rid, cid in self.req_ctimer.items():
                    br = self.breqs.get(rid)
                    if cid == ev[1] and br is not None and not br.done:
                        self.problems.append("client time-out of request %d fired but the request is still pending" % rid)
            self.close_step()
        elif op == "move":        # the leadership of a partition moves (the client is not told)
            _op, t, p, node = ev
            if (t, p) in self.cluster.leader:
                self.cluster.leader[(t, p)] = node
        else:
            raise AssertionError(ev)
        self.sync_meta()
        # idleness is observed at the end of the environment event, for its last model step
        if len(self.events) > n0:
            self.idle_after[-1] = not self.busy()
        return None

    def _lose(self, rid):
        from twisted.python.failure import Failure
        br = self.breqs.get(rid)
        if br is None or br.done:
            return
        br.done = True
        q = br.req
        if q["key"] == 0 and br.expect:
            for (tn, p, e, _off) in self.cluster.produce(len(self.trace), br.node, q["payloads"], {}):
                if e == 0:
                    self.lost_app.add((TOPICS.index(tn), p))
        br.d.errback(Failure(PL.exc_of_kind(PL.K_CONNLOST)))

    def _answer(self, rid, plan):
        br = self.breqs.get(rid)
        if br is None or br.done:
            return
        br.done = True
        q = br.req
        plan = plan or {}
        if q["key"] == 0 and not br.expect:
            self._acks0_written(br)        # acks=0 request that was waiting for its connection: written now
        elif q["key"] == 0:
            pl = {(t, p): e for (t, p, e) in plan.get("errs", [])}
            resps = self.cluster.produce(len(self.trace), br.node, q["payloads"], pl)
            br.d.callback(enc_produce_response(q["ver"], q["corr"], resps))
        elif q["key"] == 3:
            idxs = [TOPICS.index(t) for t in q["topics"]]
            brokers, ts = self.cluster.metadata(idxs, terr={t: e for (t, e) in plan.get("terr", [])})
            br.d.callback(enc_metadata_response(q["corr"], brokers, ts))
        elif q["key"] == 18:
            if plan.get("old"):
                br.d.callback(enc_api_versions_response(q["corr"], 35, []))
            else:
                br.d.callback(enc_api_versions_response(q["corr"], 0, [(0, 0, 7), (1, 0, 11), (3, 0, 5), (18, 0, 2)]))
        else:
            br.d.callback(struct.pack(">i", q["corr"]))


def make_run2(cfg):
    return Run2(cfg)


# ====================================================================== generators for driver 2
PROFILES = ["plain", "plain", "errcodes", "persist", "drops", "silent", "moves", "mixed", "mixed", "nometa"]


def gen_cfg2(rnd):
    ntop = rnd.choice([1, 1, 2, 2, 3])
    nparts = {t: rnd.choice([1, 2, 2, 3]) for t in range(ntop)}
    batch = rnd.random() < 0.6
    profile = rnd.choice(PROFILES)
    known = [t for t in range(ntop) if profile != "nometa" and rnd.random() < 0.85]
    cfg = dict(acks=rnd.choice([1, 1, -1, 0]), batch=batch,
               n=rnd.choice([0, 1, 2, 3, 3, 5]), b=rnd.choice([0, 0, 1, 40, 200]), t=rnd.choice([None, 5, 5, 0.5]),
               max=rnd.choice([1, 2, 3, 3, 4]), api=rnd.choice([0, 1, 1, 2, 2, 2]), codec=rnd.choice([None, None, None, 1]),
               retry_interval=rnd.choice([0.25, 0.25, 0.1]), partitioner=rnd.choice(["rr", "rr", "hashed", "scripted"]),
               ntop=ntop, nparts=nparts, script={}, nbrokers=rnd.choice([1, 2, 2, 3]), known=known,
               cluster_seed=rnd.randrange(1 << 30), profile=profile, timeout_ms=rnd.choice([5000, 2000]))
    if cfg["acks"] == 0 and profile in ("drops", "mixed", "persist"):
        cfg["acks0_faults"] = [rnd.random() < (0.9 if profile == "persist" else 0.4) for _ in range(40)]
    if profile == "persist":
        cfg["persist_err"] = rnd.choice([6, 6, 3, 7, 5, 2, 19, 200, -1])
        cfg["persist_parts"] = rnd.choice(["all", "one"])
    return cfg


RETRIABLE_ERRS = [6, 6, 3, 7, 5, 2, 19, 10, 1, 200, -1]
DROP_KINDS = [PL.K_CONNDONE, PL.K_CONNLOST, PL.K_CLIENTERR, PL.K_AFKAKCONN, PL.K_RUNTIME]


def pending2(run):
    breqs = [br for rid, br in sorted(run.breqs.items()) if not br.done]
    ctimers = [cid for cid, dc in sorted(run.ctimers.items()) if dc in run.clock.calls]
    ptimers = [tid for tid, dc in sorted(run.clock.timers.items()) if dc in run.clock.calls]
    outst = [sid for sid, d in sorted(run.send_d.items()) if not d.called]
    looper = any(dc in run.clock.calls for dc in run.clock.looper_calls)
    return breqs, ctimers, ptimers, outst, looper


def gen_answer(rnd, run, br):
    """an environment event that ends the pending broker request br, according to the run's fault profile"""
    cfg = run.cfg
    prof = cfg["profile"]
    q = br.req
    r = rnd.random()
    if q["key"] == 0:
        parts = [(TOPICS.index(t), p) for (t, p, _ms) in q["payloads"]]
        if prof == "persist":
            bad = parts if cfg["persist_parts"] == "all" else [x for x in parts if x == min(run.cluster.leader)]
            if bad:
                return ("bans", br.rid, {"errs": [(t, p, cfg["persist_err"]) for (t, p) in bad]})
            return ("bans", br.rid, None)
        if prof == "lossy" and r < 0.5 and br.expect:
            return ("blose", br.rid)
        if prof == "drops" and r < 0.7:
            return ("bfail", br.rid, rnd.choice(DROP_KINDS))
        if prof == "silent" and r < 0.7:
            return ("silent", br.rid)
        if prof in ("errcodes", "mixed") and r < (0.6 if prof == "errcodes" else 0.3):
            k = rnd.randint(1, len(parts))
            return ("bans", br.rid, {"errs": [(t, p, rnd.choice(RETRIABLE_ERRS)) for (t, p) in rnd.sample(parts, k)]})
        if prof == "mixed" and r < 0.45:
            return ("bfail", br.rid, rnd.choice(DROP_KINDS))
        if prof == "mixed" and r < 0.55:
            return ("silent", br.rid)
        return ("bans", br.rid, None)
    if q["key"] == 3:
        if prof in ("mixed", "nometa", "drops") and r < 0.2:
            return ("bfail", br.rid, rnd.choice(DROP_KINDS))
        if prof in ("mixed", "nometa", "errcodes") and r < 0.4:
            ts = [TOPICS.index(t) for t in q["topics"]]
            return ("bans", br.rid, {"terr": [(t, rnd.choice([5, 3, 5])) for t in ts]})
        if prof == "silent" and r < 0.3:
            return ("silent", br.rid)
        return ("bans", br.rid, None)
    if q["key"] == 18:
        if r < 0.3:
            return ("bans", br.rid, {"old": True})
        if prof in ("drops", "mixed") and r < 0.45:
            return ("bfail", br.rid, rnd.choice(DROP_KINDS))
        return ("bans", br.rid, None)
    return ("bans", br.rid, None)


def gen_event2(rnd, run, stopped):
    cfg = run.cfg
    breqs, ctimers, ptimers, outst, looper = pending2(run)
    opts = []
    opts.append((22 if not stopped else 4, lambda: PL.gen_send(rnd, run)))
    opts.append((1.0, lambda: ("badsend", run.nsid, rnd.choice(["topic", "key", "empty", "msgtype"]))))
    if outst:
        opts.append((5, lambda: ("cancel", rnd.choice(outst))))
    if run.nsid:
        opts.append((0.8, lambda: ("cancel", rnd.randrange(run.nsid + 1))))
    opts.append((8 if looper else 0.5, lambda: ("tick",)))
    for br in breqs:
        opts.append((30.0 / len(breqs) + 6, lambda br=br: gen_answer(rnd, run, br)))
    if ptimers:
        opts.append((24, lambda: ("timer", rnd.choice(ptimers))))
    if run.clock.ntimer:
        opts.append((0.6, lambda: ("timer", rnd.randrange(run.clock.ntimer + 1))))
    if cfg["profile"] in ("moves", "mixed"):
        def mv():
            t, p = rnd.choice(sorted(run.cluster.leader))
            return ("move", t, p, rnd.choice(run.cluster.nodes))
        opts.append((5, mv))
    if not stopped:
        opts.append((2.0, lambda: ("stop",)))
    else:
        opts.append((2.0, lambda: ("stop",)))
    tot = sum(w for w, _ in opts)
    x = rnd.random() * tot
    for w, f in opts:
        x -= w
        if x <= 0:
            return f()
    return opts[0][1]()


def apply2(run, ev):
    """('silent', rid): the broker never answers - the client's own time-out for that request fires instead"""
    if ev[0] == "silent":
        br = run.breqs.get(ev[1])
        # time-out timers are created in request order, one per request to a known broker (not for bootstrap)
        cands = [cid for cid, dc in sorted(run.ctimers.items()) if dc in run.clock.calls]
        if br is None or br.done or br.node < 0:
            # nothing to time out (answered already, or a bootstrap request, which has no per-request timer)
            ev = ("bfail", ev[1], PL.K_CONNLOST)
        else:
            cid = run.req_ctimer.get(ev[1])
            if cid in cands:
                ev = ("ctimer", cid)
            else:
                # strict: a pending request to a known broker must still have its time-out armed
                run.problems.append("request %d to broker %d is pending but its client time-out is no longer armed "
                                    "(a silent broker would leave it pending for ever)" % (ev[1], br.node))
                ev = ("bfail", ev[1], PL.K_CONNLOST)
    run.pyevents.append(ev)
    run.apply(ev)
    return ev


def gen_run2(rnd, cfg=None, nev=None):
    cfg = cfg or gen_cfg2(rnd)
    run = make_run2(cfg)
    run.pyevents = []
    nev = nev or rnd.choice([6, 10, 16, 24, 32, 48, 64])
    stopped = False
    tail = None
    for _ in range(nev):
        ev = gen_event2(rnd, run, stopped)
        ev = apply2(run, ev)
        if ev[0] == "stop" and not stopped:
            stopped = True
            tail = rnd.randint(0, 5)
        if tail is not None:
            tail -= 1
            if tail < 0:
                break
    if any(k[0] == "req" for k in run.visible):
        apply2(run, ("stop",))     # the composed comparison of the logs needs every request accounted for
    return run


def replay_run2(cfg, pyevents):
    cfg = dict(cfg)
    cfg["nparts"] = {int(k): v for k, v in cfg.get("nparts", {}).items()}
    cfg["script"] = {(k.encode() if isinstance(k, str) else k): v for k, v in cfg.get("script", {}).items()}
    run = make_run2(cfg)
    run.pyevents = []
    for ev in pyevents:
        ev = PL._tuplify(ev)
        if ev[0] == "bans" and isinstance(ev[2], (list, tuple)):
            ev = (ev[0], ev[1], dict(ev[2]))
        run.pyevents.append(ev)
        run.apply(ev)
    return run


# ====================================================================== monitors (the C01 theorems over implementation traces)
def parse_produce(o):
    """[1, attempt, magic, npl, (t p nm mids..)*] -> {(t, p): [mids]}"""
    pls, i = {}, 4
    for _ in range(o[3]):
        t, p, nm = o[i:i + 3]
        pls[(t, p)] = o[i + 3:i + 3 + nm]
        i += 3 + nm
    return pls


def event_value(ev):
    """model event -> the contract value it carries (None if it carries none)"""
    if ev[0] in (10, 12):      # 12: a result that omits payloads (outside the honest environment, still a value)
        b = ev[1:]
    elif ev[0] == 11 and ev[1:] != [-1]:
        b = ev[1:]
    else:
        return None
    tag = b[0]
    if tag == 0:
        return ("empty",)
    if tag == 1:
        n = b[1]
        q = b[2:2 + n]
        return ("resp", [tuple(q[i:i + 4]) for i in range(0, n, 4)])
    if tag == 2:
        n = b[1]
        q = b[2:2 + n]
        m = b[2 + n]
        f = b[3 + n:3 + n + m]
        return ("failed", [tuple(q[i:i + 4]) for i in range(0, n, 4)], [tuple(f[i:i + 3]) for i in range(0, m, 3)])
    return ("kafka" if tag == 3 else "other", b[1])


def contiguous(sub, lst):
    n = len(sub)
    return any(lst[i:i + n] == sub for i in range(len(lst) - n + 1)) if n else True


def monitor_lookup_quota(run):
    """C01_lookup_quota / C01_lookup_failure_counts on the implementation's own trace (driver 1): a metadata load issued
    by a batch whose attempt quota is used up.  `count` is a LOWER bound of the producer's attempt counter: lookup
    failures (a retry timer armed after a load) and produce requests seen since the batch certainly began; it is reset
    whenever the load could belong to a new batch (the producer was idle, or at most one lookup item was pending, so
    the batch in flight may have ended in this very step)."""
    bad = []
    raw = getattr(run, "raw", None)
    snaps = getattr(run, "snaps", None)
    if not raw or not snaps or len(raw) != len(run.events) or len(snaps) != len(run.events):
        return bad
    mx = run.cfg["max"]
    count = 0
    prev = run.snap0
    for i, (outs, snap) in enumerate(zip(raw, snaps)):
        items = len(prev["loads"]) + sum(1 for tid in prev["timers"] if run.timer_kind.get(tid) == 0)
        if not prev["busy"]:
            count = 0
        for o in outs:
            if o[0] == 5:
                if items >= 2 and count >= mx:
                    bad.append({"theorem": "C01_lookup_quota", "step": i,
                                "what": "a partition lookup asks for metadata again although the batch has already used %d attempts "
                                        "(max_req_attempts=%d): the batch can go on for ever and its sends never fire" % (count, mx)})
                    return bad
                if items <= 1:
                    count = 0
            elif (o[0] == 2 and o[3] == 0) or o[0] == 1:
                count += 1
        prev = snap
    return bad


def monitor_attempt_bound(run):
    """C09_attempt_bound / C01_limit_resolves on the implementation's own trace: the produce requests the driver counts as
    consecutive attempts of ONE batch (a request sent from a produce-retry timer continues the count) never exceed
    max_req_attempts - a batch whose attempt counter stepped past the limit (lookup failures used up the quota first)
    must fail its sends, not retry for ever"""
    mx = max(1, run.cfg["max"])
    for i, st in enumerate(run.trace):
        for o in st:
            if o[0] == 1 and o[1] > mx:
                return [{"theorem": "C01_limit_resolves", "step": i,
                         "what": "produce request number %d for one batch although max_req_attempts=%d: the batch is retried beyond the "
                                 "limit (its sends do not fire while the broker keeps failing)" % (o[1], mx)}]
    return []


def monitor(run):
    """returns a list of {"theorem":..., "what":..., "step":...}; empty = every C01 statement holds on this trace"""
    bad = monitor_lookup_quota(run)
    bad += monitor_attempt_bound(run)
    cfg = run.cfg
    acks = cfg["acks"]
    events, trace = run.events, run.trace
    send_step, send_topic, send_cnt, send_bytes = {}, {}, {}, {}
    for i, ev in enumerate(events):
        if ev[0] == 1 and i in run.send_ev:
            sid = run.send_ev[i]
            send_step[sid], send_topic[sid], send_cnt[sid], send_bytes[sid] = i, ev[1], ev[3], ev[4]
    fired_at = {}
    last_prod = None
    stopped_at = run.stopped_at
    for i, outs in enumerate(trace):
        ev = events[i]
        val = event_value(ev)
        for o in outs:
            if o[0] != 7:
                continue
            sid, status = o[1], o[2]
            if sid in fired_at:
                bad.append({"theorem": "C01_at_most_once", "step": i, "what": "send %d fired at steps %d and %d" % (sid, fired_at[sid], i)})
            fired_at[sid] = i
            if status == 0:
                continue
            if status == 3:
                bad.append({"theorem": "C01_failure_is_failure", "step": i,
                            "what": "send %d: callback fired with an exception object (kind %d) - reported as success" % (sid, o[3])})
                continue
            if sid not in send_topic:
                bad.append({"theorem": "C01_success_truthful", "step": i, "what": "success for a send that was never accepted: %d" % sid})
                continue
            mids = [sid * MID + j for j in range(send_cnt[sid])]
            if status == 1:
                t, p, err, off = o[3:7]
                why = None
                if acks == 0:
                    why = "ProduceResponse delivered although acks=0"
                elif err != 0:
                    why = "success carrying error code %d" % err
                elif val is None or val[0] not in ("resp", "failed") or (t, p, 0, off) not in val[1]:
                    why = "no acknowledgement (t=%d p=%d err=0 off=%d) in the client's result of this step: %r" % (t, p, off, val)
                elif last_prod is None or (t, p) not in last_prod:
                    why = "the most recent produce request has no payload for (%d,%d)" % (t, p)
                elif not contiguous(mids, last_prod[(t, p)]) or any(m < 0 for m in last_prod[(t, p)]):
                    why = "payload (%d,%d) of the most recent produce request %r does not carry exactly the messages %r" % (t, p, last_prod[(t, p)], mids)
                elif t != send_topic[sid]:
                    why = "result names topic %d, the send was for topic %d" % (t, send_topic[sid])
                if why:
                    bad.append({"theorem": "C01_success_truthful", "step": i, "what": "send %d: %s" % (sid, why)})
            elif status == 2:
                why = None
                tps = [tp for tp, ms in (last_prod or {}).items() if contiguous(mids, ms) and tp[0] == send_topic[sid]]
                if acks != 0:
                    why = "fired with None although acks=%d" % acks
                elif val is None or val[0] not in ("empty", "failed"):
                    why = "no hand-over report in the client's result of this step: %r" % (val,)
                elif not tps:
                    why = "the most recent produce request does not carry its messages %r: %r" % (mids, last_prod)
                elif val[0] == "failed" and (val[1] or any((f[0], f[1]) in tps for f in val[2])):
                    why = "its payload %r is among the failed payloads %r" % (tps, val[2])
                if why:
                    bad.append({"theorem": "C01_success_none_truthful", "step": i, "what": "send %d: %s" % (sid, why)})
        for o in outs:
            if o[0] == 1:
                last_prod = parse_produce(o)
        # resolved_when_quiescent
        honest = getattr(run, "dishonest_at", None) is None or i < run.dishonest_at
        if i < len(run.idle_after) and run.idle_after[i] and honest:
            unf = [sid for sid, st in send_step.items() if st <= i and sid not in fired_at]
            why = None
            if stopped_at is not None and i >= stopped_at:
                # after stop() nothing may be left waiting: sends made before it were failed by it, sends made
                # after it are refused at once (producer.py:241-243)
                if unf:
                    why = "stop() returned, nothing pending, yet sends %r never fired" % unf
            elif unf:
                cnt = sum(send_cnt[s] for s in unf)
                byt = sum(send_bytes[s] for s in unf)
                if not cfg["batch"]:
                    why = "unbatched producer idle with unfired sends %r" % unf
                else:
                    n, b = cfg["n"], cfg["b"]
                    if (n != 0 and n <= cnt) or (b != 0 and b <= byt):
                        why = "idle with unfired sends %r although a batch threshold is reached (count %d, bytes %d)" % (unf, cnt, byt)
                    elif ev == [4] and cfg["t"]:
                        why = "idle right after the batch timer fired, unfired sends %r" % unf
            if why:
                bad.append({"theorem": "C01_resolved_when_quiescent", "step": i, "what": why})
    for sid, n in run.fired.items():
        if n > 1 and not any(b["theorem"] == "C01_at_most_once" for b in bad):
            bad.append({"theorem": "C01_at_most_once", "step": -1, "what": "send %d fired %d times" % (sid, n)})
    return bad


def monitor_composed(run):
    """driver 2 only: the same statements against the simulated cluster (partition logs, bytes that reached a broker)"""
    bad = []
    acks = run.cfg["acks"]
    for i, outs in enumerate(run.trace):
        for o in outs:
            if o[0] != 7 or o[2] not in (1, 2):
                continue
            sid = o[1]
            if sid not in run.sends:
                continue
            key, msgs = run.sends[sid]
            want = [(key, m) for m in msgs]
            if o[2] == 1:
                t, p, err, off = o[3:7]
                ok = False
                for (step, node, at, ap, base, kv) in run.cluster.appends:
                    if step <= i and (at, ap) == (t, p) and base == off and contiguous(want, kv):
                        lg = run.cluster.log.get((t, p), [])
                        if contiguous(want, lg[off:off + len(kv)]):
                            ok = True
                if not ok:
                    bad.append({"theorem": "C01_success_truthful(composed)", "step": i,
                                "what": "send %d succeeded with (t=%d p=%d off=%d) but no leader appended exactly its messages at that offset before" % (sid, t, p, off)})
            else:
                ok = any(step <= i and not expect and any(contiguous(want, kv) for (_t, _p, kv) in pls)
                         for (step, _node, expect, _acks, pls) in run.handed)
                if not ok:
                    bad.append({"theorem": "C01_success_none_truthful(composed)", "step": i,
                                "what": "send %d fired with None but its messages never reached a broker connection" % sid})
    return bad


def describe(run, driver):
    return {"driver": driver, "cfg": jsonable(run.cfg), "pyevents": jsonable(run.pyevents)}


def jsonable(x):
    if isinstance(x, dict):
        return {(k.decode() if isinstance(k, bytes) else str(k)): jsonable(v) for k, v in x.items()}
    if isinstance(x, (list, tuple)):
        return [jsonable(v) for v in x]
    if isinstance(x, bytes):
        return x.decode("latin-1")
    return x


# ====================================================================== composed model (Model/ProducerCompose.v)
def kv_mids(run, kvs):
    """(key, value) pairs of a partition log -> message ids (the identification rules of producer_lib)"""
    bykey = {k: sid for sid, (k, _m) in run.sends.items() if k is not None}
    used, out = set(), []
    for key, val in kvs:
        mid = -1
        if val and b"|" in val[:24]:
            try:
                a, b = val.split(b"|", 1)[0].split(b":")
                sid, idx = int(a), int(b)
                if sid in run.sends and idx < len(run.sends[sid][1]) and run.sends[sid][1][idx] == val and run.sends[sid][0] == key:
                    mid = sid * MID + idx
            except ValueError:
                pass
        elif key is not None and key in bykey:
            sid = bykey[key]
            cands = [idx for idx, mm in enumerate(run.sends[sid][1]) if mm == val and (mm is None or mm == b"")]
            free = [idx for idx in cands if (sid, idx) not in used]
            if cands and not free:
                # every null / empty message of that send has been seen: a further COPY of the send begins (a retry
                # after a broker appended and the response was lost puts the payload into the log twice)
                used -= {(sid, idx) for idx in cands}
                free = cands
            if free:
                mid = sid * MID + free[0]
        if mid >= 0:
            used.add((mid // MID, mid % MID))
        out.append(mid)
    return out


def composed_case(run):
    """case line for Model.ProducerCompose.run_case: the cevents recorded by driver 2, sends' choices patched in"""
    line = run.model_cfg()
    for i, (ev, cev) in enumerate(zip(run.events, run.cevents)):
        if ev[0] == 1 and cev[0] == 0:
            sid = run.send_ev[i]
            e2 = list(ev)
            e2[2] = run.choice.get(sid, run.inferred_choice(sid))
            cev = [0, len(e2)] + e2
        line += cev
    return line


def composed_impl(run):
    """the implementation side: its producer trace, then the simulated cluster's partition logs as message ids"""
    out = run.flat_trace() + [-7]
    logs = []
    for (t, p), kvs in sorted(run.cluster.log.items()):
        if kvs:
            mids = kv_mids(run, kvs)
            logs.append([t, p, len(mids)] + mids)
    out.append(len(logs))
    for l in logs:
        out += l
    return out
