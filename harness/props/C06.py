# C06 - each request completes exactly once, with the response bearing its own id.
#
# Ties coq/Model/Framing.v (M6) to afkak/_protocol.py + Twisted's Int32StringReceiver and coq/Model/BrokerClient.v (M7)
# to afkak/brokerclient.py by differential runs of the real classes against the extracted models, runs monitors that
# restate the theorems of coq/Props/C06.v over the implementation's own traces, and re-checks the theorems.
#
#   framing      real KafkaProtocol fed arbitrary chunkings of frame streams (+ bad length prefixes, short frames, garbage)
#                real KafkaBootstrapProtocol driven by request / data / connectionLost histories; sendString framing
#   brokerclient real _KafkaBrokerClient under simnet (virtual clock, puppet endpoints, recording transports) driven by
#                generated histories of makeRequest / cancel / connect ok-fail / data in any chunking / loss / timer /
#                close / disconnect / updateMetadata incl. late, duplicate, unsolicited frames and disabled events;
#                exhaustive enumeration of all enabled sequences over a 13-event alphabet (depth 6 quick, 7 thorough), over
#                three 12-event alphabets with fixed user-callback tables (depth 5 / 6) and, thorough, a split-frame alphabet;
#                histories with user callbacks/errbacks calling back into the client (inside the two loops and in tail position)
import random
import struct

import vlib
from vlib import lp

import drv_brokerclient as D
import drv_framing as F
from props import brokerclient_lib as L

THEOREMS_FRAMING = ["C06_reassembly", "C06_partial_frame", "C06_chunking_invariance", "C06_length_limit",
                    "C06_length_limit_strict_refuted", "C06_receiver_total"]
THEOREMS_BOOT = ["C06_bootstrap_pairing", "C06_bootstrap_unknown_id", "C06_bootstrap_no_crosstalk", "C06_bootstrap_cancel_keeps_entry"]
THEOREMS_BC = ["C06_tail_reentrancy", "C06_limit_closes", "C06_outcome_cause", "C06_frame_instance_refuted", "C06_success_from_received_frame", "C06_client_chunking", "C06_client_chunking_two", "C06_rxbuf_stays_irreducible",
               "C06_frame_refines_spec", "C06_no_crosstalk_refinement", "C06_spec_other_ids_untouched", "C06_reachable", "C06_exactly_once", "C06_nothing_after_fired", "C06_own_response", "C06_dlog_is_make_log",
               "C06_no_crosstalk", "C06_own_frame", "C06_data_untouched"]
WHICH = ("C06",)


def framing_part(ck, rnd, scale):
    describe = lambda c: {"op": c[0], "line": c[:50]}
    # ---- raw receiver
    cases, impl, meta = [], [], []
    fixed = [
        ("good", [b"\x00\x00\x00\x05\x00\x00", b"\x00\x01F\x00\x00\x00\x04\x00", b"\x00\x00\x02\x00"], [b"\x00\x00\x00\x01F", b"\x00\x00\x00\x02"], {"tail": b"\x00"}),
        ("limit", [b"\x00\x00\x00\x04\x00\x00\x00\x02\x80\x00\x00\x00", b"\t"], [b"\x00\x00\x00\x02"], {"len": 2 ** 31, "tail": b"\t"}),   # C06_length_limit_strict_refuted
        ("good", [b"\x7f\xff\xff\xff", b"abcdef"], [], {"tail": b"\x7f\xff\xff\xffabcdef"}),
        ("good", [b"", b"", b"\x00\x00\x00\x04abcd", b""], [b"abcd"], {"tail": b""}),
    ]
    gen = fixed + [F.gen_receiver_case(rnd) for _ in range(900 * scale)]
    for kind, chunks, frames, info in gen:
        tr, calls = F.impl_receiver(chunks)
        cases.append(F.case_receiver(chunks))
        impl.append(tr)
        meta.append((kind, chunks, frames, info))
        ck.hist("rx_" + kind)
        ck.hist("rx_chunks", len(chunks))
        for thm, msg in F.monitor_receiver(kind, chunks, frames, info, calls):
            ck.violation({"kind": "monitor: real KafkaProtocol contradicts the theorem", "theorem": thm, "message": msg,
                          "chunks": [list(c) for c in chunks], "frames_sent": [list(f) for f in frames], "replay_op": "rx"})
    diffs, mo = ck.correspond("framing", "Model.Framing", cases, impl, "KafkaProtocol.dataReceived (any chunking) vs Model.Framing.rx_run",
                              nontrivial=lambda c, o: o.count(1) >= 1 and len(o) > 6, describe=describe)
    if diffs and not ck.violations:
        i = diffs[0]
        ck.violation({"kind": "correspondence broken", "correspondence": "corr:framing:rx_run", "theorems_no_longer_tied": THEOREMS_FRAMING,
                      "chunks": [list(c) for c in meta[i][1]], "impl": impl[i], "model": mo[i], "replay_op": "rx"}, no_input=True)
    # the refutation witness of C06_length_limit_strict_refuted, on the real receiver: the packet is handed over again
    tr, calls = F.impl_receiver(fixed[1][1])
    ck.cov["length_limit_strict_refuted_on_impl"] = (calls[0][1] == "limit" and len(calls) == 2 and calls[1][0] == [b"\x00\x00\x00\x02"])

    # ---- bootstrap protocol
    cases, impl, meta = [], [], []
    bfixed = [[("req", b"\x00\x03\x00\x00\x00\x00\x00\x01\xff\xff"), ("data", b"\x00\x00\x00\x05\x00\x00"), ("data", b"\x00\x01B"),
               ("req", b"\x00\x03\x00\x00\x00\x00\x00\x02"), ("data", b"\x00\x00\x00\x04\t\t\t\t"), ("lost",)],
              [("req", b"\x00\x03\x00\x00\x00\x00\x00\x01"), ("req", b"\x00\x03\x00\x00\x00\x00\x00\x01"), ("lost",), ("req", b"\x00\x03\x00\x00\x00\x00\x00\x05"), ("lost",),
               ("data", b"\x00\x00\x00\x04\x00\x00\x00\x01")]]
    bfixed.append([("req", b"\x00\x03\x00\x00\x00\x00\x00\x01"), ("req", b"\x00\x03\x00\x00\x00\x00\x00\x02"), ("cancel", 0),
                   ("data", b"\x00\x00\x00\x05\x00\x00\x00\x01A"), ("data", b"\x00\x00\x00\x05\x00\x00\x00\x02B"), ("data", b"\x00\x00\x00\x04\x00\x00\x00\x01")])
    for evs in bfixed + [F.gen_bootstrap_case(rnd) for _ in range(500 * scale)]:
        tr, per_event, reqs = F.impl_bootstrap(evs)
        cases.append(F.case_bootstrap(evs))
        impl.append(tr)
        meta.append(evs)
        ck.hist("bootstrap_histories")
        for thm, msg in F.monitor_bootstrap(evs, per_event, reqs):
            ck.violation({"kind": "monitor: real KafkaBootstrapProtocol contradicts the theorem", "theorem": thm, "message": msg,
                          "bootstrap_events": [[e[0]] + ([list(e[1])] if len(e) > 1 and e[0] != "cancel" else list(e[1:])) for e in evs], "replay_op": "boot"})
    diffs, mo = ck.correspond("framing", "Model.Framing", cases, impl, "KafkaBootstrapProtocol history vs Model.Framing.brun",
                              nontrivial=lambda c, o: 2 in o and 1 in o, describe=describe)
    if diffs and not ck.violations:
        i = diffs[0]
        ck.violation({"kind": "correspondence broken", "correspondence": "corr:framing:brun", "theorems_no_longer_tied": THEOREMS_BOOT,
                      "bootstrap_events": [[e[0]] + ([list(e[1])] if len(e) > 1 and e[0] != "cancel" else list(e[1:])) for e in meta[i]], "impl": impl[i], "model": mo[i],
                      "replay_op": "boot"}, no_input=True)

    # ---- bootstrap protocol with user errbacks that issue another request at once (e.g. from inside connectionLost's
    #      loop): outside the model, monitored only - every Deferred fires exactly once, also the re-entrantly issued ones
    fixed_h = [([("req", b"\x00\x03\x00\x00\x00\x00\x00\x01"), ("req", b"\x00\x03\x00\x00\x00\x00\x00\x02"), ("lost",)],
                {0: b"\x00\x03\x00\x00\x00\x00\x00\x09", 1: b"\x00\x03\x00\x00\x00\x00\x00\x0a"})]
    for i in range(200 * scale + len(fixed_h)):
        if i < len(fixed_h):
            evs, hooks = fixed_h[i]
        else:
            evs = F.gen_bootstrap_case(rnd)
            hooks = {h: bytes([0, 3, 0, 0]) + struct.pack(">i", 5000 + h) for h in range(12) if rnd.random() < 0.5}
        tr, per_event, reqs = F.impl_bootstrap(evs, hooks)
        ck.hist("bootstrap_histories_with_reentrant_errbacks")
        for thm, msg in F.monitor_bootstrap(evs, per_event, reqs):
            ck.violation({"kind": "monitor: real KafkaBootstrapProtocol with an errback that calls request() again", "theorem": thm, "message": msg,
                          "bootstrap_events": [[e[0]] + ([list(e[1])] if len(e) > 1 and e[0] != "cancel" else list(e[1:])) for e in evs],
                          "bootstrap_hooks": {str(k): list(v) for k, v in hooks.items()}, "replay_op": "boot"})
            break

    # ---- sendString
    bodies = [b"", b"a", bytes(range(256)), bytes(255), bytes(256), bytes(257), bytes(65536 + 3)]
    bodies += [bytes(rnd.randint(0, 255) for _ in range(rnd.choice([0, 1, 3, 4, 5, 14, 200]))) for _ in range(60 * scale)]
    cases = [[3] + lp(b) for b in bodies]
    impl = [F.impl_send(b) for b in bodies]
    diffs, mo = ck.correspond("framing", "Model.Framing", cases, impl, "sendString vs Model.Framing.encode_frame",
                              nontrivial=lambda c, o: len(o) > 4, describe=describe)
    if diffs:
        i = diffs[0]
        ck.violation({"kind": "sendString does not frame as the model (4-byte big-endian length + body)", "body": list(bodies[i])[:64],
                      "impl": impl[i][:64], "model": mo[i][:64], "replay_op": "send"})


def run(ck):
    vlib.import_repo()
    ck.build(["framing", "brokerclient", "brokerclienthook", "brokerclientwrite", "brokerclientsync"])
    ck.props()
    rnd = random.Random(ck.seed)
    thorough = ck.tier == "thorough"
    scale = 25 if thorough else 1

    framing_part(ck, rnd, 12 if thorough else 1)

    # ---- broker client: corpus, then generated histories
    items = [(evs, D.run_impl(evs, pk), pk) for _name, evs in L.CORPUS for pk in ("const", "const+cc")]
    L.evaluate(ck, "corpus: hand-written histories (Props examples, answer orders, tombstones, loss inside a frame, close)", items,
               WHICH, THEOREMS_BC, L.nontrivial_c06, rnd)
    items = L.generate(ck, rnd, 1300 * scale, ["c06", "c06", "c06", "c10"], [8, 20, 40, 40, 70, 120])
    L.evaluate(ck, "generated histories vs Model.BrokerClient.run (profile c06: replies in any order, late/duplicate/unsolicited frames, random chunking)",
               items, WHICH, THEOREMS_BC, L.nontrivial_c06, rnd)
    L.rechunk_monitor(ck, items, rnd, limit=400 * scale)
    if thorough:
        items = L.generate(ck, rnd, 300, ["c06"], [400, 800])
        L.evaluate(ck, "long generated histories (400-800 events)", items, WHICH, THEOREMS_BC, L.nontrivial_c06, rnd)

    # ---- endpoints whose connect() completes synchronously (success and failure), then idle drops, new requests, close()
    L.sync_connect_part(ck, rnd, 300 * scale, THEOREMS_BC)

    # ---- callbacks re-entering the client from a reply callback (tail position of handleResponse)
    L.reentrant_part(ck, rnd, 500 * scale, THEOREMS_BC)
    L.tree_part(ck, rnd, 400 * scale, ["C06_exactly_once_reentrant", "C06_nothing_after_fired_reentrant"])

    # ---- sendString raising inside _sendRequest: Model/BrokerClientWrite.v
    L.write_part(ck, rnd, 400 * scale, ["C06_exactly_once_write_failure", "C06_write_failure_local"])

    # ---- sendString raising (brokerclient.py:370-373): one more fixed probe on the real code
    sr = L.probe_send_raises()
    ck.cov["send_raises_probe"] = sr or "as expected: entry dropped, Deferred failed once with the exception, id free again, close() works"
    if sr:
        ck.violation({"kind": "probe: makeRequest whose sendString raises (str payload) on a live connection", "theorem": "C06_exactly_once",
                      "message": "; ".join(sr), "replay_op": "send-raises"})

    # ---- exhaustive small scope
    L.exhaustive(ck, 7 if thorough else 6, "whole", WHICH, THEOREMS_BC, rnd)
    for hk in sorted(L.HOOK_TABLES):
        L.exhaustive(ck, 6 if thorough else 5, hk, WHICH, ["C06_exactly_once_reentrant", "C06_nothing_after_fired_reentrant"], rnd)
    if thorough:
        L.exhaustive(ck, 7, "split", WHICH, THEOREMS_BC, rnd)
        ck.coqchk(["AV.Props.C06"])

    ck.cov["rule"] = ("seeded generators (random.Random(VERIF_SEED)). Framing: frame streams (0-6 frames, ids at the int32 extremes, bodies 4-300 bytes) "
                      "followed by an incomplete tail / a length prefix above 2^31-1 / a frame shorter than an id / garbage, cut into chunks at random "
                      "(whole, byte-wise, empty chunks, cuts inside prefix and id). Bootstrap: request/data/connectionLost/cancel histories incl. duplicate ids, "
                      "unknown ids, short frames, requests and data after the loss, late responses to cancelled requests with several requests in flight, "
                      "plus histories whose errbacks call request() again (monitored only). Broker client: on-line state-aware generator over the event alphabet of "
                      "Model/BrokerClient.v (replies to written requests in and out of order, duplicate/unknown/any-known ids, short frames, prefixes at and "
                      "over the limit, chunked delivery, about 10% late or disabled events - late ones (cancel of a fired Deferred, request after close, data "
                      "after a loss request) are applied to the implementation, disabled ones (no object to act on) exercise only the model's no-op - "
                      "duplicate and reused correlation ids, no-reply requests), "
                      "plus every enabled sequence up to the stated depth over 13 events (2 ids x make/cancel/reply, one no-reply make, connect ok/fail, "
                      "lost, fire, close, disconnect; whole frames only - split frames and bad prefixes come from the random streams and the thorough split "
                      "alphabet), plus random histories and every enabled sequence (12 events, three fixed callback tables) in which the callbacks/errbacks of "
                      "requests call cancel/makeRequest/disconnect/close. A broker-client case is non-trivial if it has >= 2 accepted requests and >= 1 Deferred firing; a "
                      "receiver case if at least one packet was delivered; distinct = distinct canonical case lines.")
    ck.assumptions += [
        "hand-written Gallina models: Model/Framing.v stands for twisted.protocols.basic.IntNStringReceiver.dataReceived/sendString as configured by afkak/_protocol.py:32-60, KafkaBootstrapProtocol (_protocol.py:63-140) and KafkaCodec.get_response_correlation_id; Model/BrokerClient.v for afkak/brokerclient.py:44-79,148-462. The tie is this run's differential correspondence, not a proof",
        "Twisted (Deferred fire-once/cancel semantics, Clock, IntNStringReceiver) is exercised by the correspondence, not verified; Deferred semantics are summarised in the model as a fire-once cell (AlreadyCalledError = OErr, proved unreachable)",
        "request payload bytes are outside the model (a request is identified by correlation id and handle); a write that raises inside _sendRequest (brokerclient.py:370-373) is modelled by Model/BrokerClientWrite.v as a per-request oracle (driven with a str payload, on a live connection and during the queue flush; C06_exactly_once_write_failure, C06_write_failure_local, C10_write_failure_*); a transport whose write raises only SOMETIMES for the same request is not generated",
        "user callbacks/errbacks that RAISE are driven (Twisted turns the exception into a failure of the Deferred's chain; the model has no event for it and the traces must still agree); a retryPolicy or endpoint factory that raises (ebConnect then leaves self.connector a fired Deferred and the client never reconnects) is outside the model and not generated",
        "user callbacks/errbacks that re-enter the client synchronously (cancel / makeRequest / disconnect / close, on success and on failure): inside the two loops that fire Deferreds (_sendQueued, close()) they are INSIDE the extended model Model/BrokerClientHook.v (IConnOk / IClose interleavings; C06_exactly_once_reentrant, C06_nothing_after_fired_reentrant) and its correspondence (tree_part, hook enumerations); in tail positions the driver inserts the call as the next event and checks equality on the real code; that this sequential history equals user code running inside handleResponse is PROVED for reply callbacks (C06_tail_reentrancy over the transcription Model/BrokerClientTail.v), and holds by Twisted's structure for cancel() / makeRequest on a closed client (no afkak statement follows the firing). Where user code runs inside close()'s loop the outcome depends on the order in which close() fails the requests, which the property does not fix: such a case is compared with the model only if no tombstone existed and the implementation failed newest first (differences in the other cases are counted, not reported), and is always subject to the order-independent monitors. Endpoints whose connect() completes synchronously are checked by C10 (sync_connect_part)",
        "the paused flag of IntNStringReceiver and the `recvd` compatibility attribute are not modelled (afkak never sets them)",
        "events the environment cannot produce (no transport / attempt / Deferred to act on) are no-ops in the model and CANNOT be applied to the implementation (there is no object to act on); the generator emits them only to exercise the model's enabledness. The one exception is a timer event with no timer armed: the driver then lets an hour of virtual time pass and requires that nothing happens. Everything physically possible is applied: cancel of an already fired Deferred, makeRequest after close(), data after loseConnection() was requested, a second close()",
        "extraction: ExtrOcamlBasic only; Z/positive/nat stay Coq datatypes; the comparison is made against the extracted runner; a sample of every part, including about 195 lines per enumerated alphabet and about 30 of the user-callback histories, is re-evaluated inside Coq by vm_compute (not the tail-position comparison, whose model traces are post-processed by the driver)",
    ]
    ck.cov["trusted_base"] += ["correspondence harness harness/props/C06.py + props/brokerclient_lib.py + drv_brokerclient.py + drv_framing.py + simnet.py + vlib.py",
                               "extracted OCaml runners (ExtrOcamlBasic) cross-checked by vm_compute sample"]


def replay(rp):
    op = rp.get("replay_op")
    if op == "bc":
        return L.replay_bc(rp)
    if op == "bc-hook":
        return L.replay_hook(rp)
    if op == "bc-tree":
        return L.replay_tree(rp)
    if op == "bc-write":
        return L.replay_write(rp)
    if op == "bc-sync":
        return L.replay_sync(rp)
    if op == "send-raises":
        sr = L.probe_send_raises()
        print("probe now:", sr or "as expected")
        return 1 if sr else 0
    if op == "rx":
        chunks = [bytes(c) for c in rp["chunks"]]
        tr, calls = F.impl_receiver(chunks)
        print("theorem:", rp.get("theorem"), "|", rp.get("message") or rp.get("kind"))
        for c, (pk, end) in zip(chunks, calls):
            print("  dataReceived(%r) -> packets %r, end=%s" % (list(c), [list(p) for p in pk], end))
        ref, status = D.parse_stream(b"".join(chunks))
        delivered = [p for pk, _ in calls for p in pk]
        print("reference reassembly:", [list(f) for f in ref], status)
        ok = (delivered == ref) if status == "more" else True
        if rp.get("model") is not None:
            print("model trace at the time:", rp["model"], "\nimplementation now     :", tr)
            ok = ok and tr == rp["model"]
        return 0 if ok else 1
    if op == "boot":
        evs = [tuple([e[0]] + ([e[1]] if e[0] == "cancel" else ([bytes(e[1])] if len(e) > 1 else []))) for e in rp["bootstrap_events"]]
        hooks = {int(k): bytes(v) for k, v in rp.get("bootstrap_hooks", {}).items()}
        tr, per_event, reqs = F.impl_bootstrap(evs, hooks)
        for e, o in zip(evs, per_event):
            print("  %r -> %r" % (e, o))
        bad = F.monitor_bootstrap(evs, per_event, reqs)
        print("monitor verdict now:", bad)
        if rp.get("model") is not None and tr != rp["model"]:
            print("trace differs from the model trace recorded in the replay")
            return 1
        return 1 if bad else 0
    if op == "send":
        b = bytes(rp["body"])
        out = F.impl_send(b)
        print("sendString(%r) wrote %r" % (list(b), out))
        return 0 if out == list(struct.pack(">I", len(b)) + b) else 1
    print(rp)
    return 1
