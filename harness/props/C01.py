# C01 - producer acknowledgements are truthful and fire exactly once.
#
# Theorems: coq/Props/C01.v over coq/Model/Producer.v (all configurations, all event lists).
# Tie to the code, on every run:
#   driver 1  REAL afkak.producer.Producer over the scripted stand-in client (the whole client contract is scripted:
#             every value send_produce_request may deliver, in any interleaving with timers / cancels / stop)
#   driver 2  REAL Producer over the REAL KafkaClient with its broker layer scripted (composed): error-coded produce
#             responses go through the real _send_broker_aware_request / _handle_responses / codec; fault sequences:
#             error codes persisting to the attempt limit, dropped connections, silent brokers (client time-out),
#             leader moves, cancel, stop
#   both are compared, event for event, with the extracted model (correspondence), and the four statements are
#   re-checked by monitors on the implementation's own trace (and, for driver 2, against the simulated cluster's
#   partition logs and the bytes that reached a broker).
import itertools
import random
import time

import vlib
from props import producer_lib as PL
from props import producer_c01_lib as CL

MODEL = "producer"
MODULE = "Model.Producer"
CMODEL = "producercompose"
CMODULE = "Model.ProducerCompose"
THEOREMS = ["C01_at_most_once", "C01_resolved_when_quiescent", "C01_success_truthful", "C01_success_none_truthful",
            "C01_failure_is_failure", "C01_failure_is_failure_own", "C01_limit_resolves", "C01_lookup_quota",
            "C01_lookup_failure_counts", "C01_composed_truthful", "C01_composed_none_truthful", "C01_no_deadlock",
            "C01_owed_event_progress", "C01_eventually_resolved", "C01_resolved_within"]


# ------------------------------------------------------------------ running one case on the implementation
def rerun(driver, cfg, pyevents):
    if driver == 1:
        return PL.replay_run(cfg, pyevents, run_cls=CL.Run1)
    return CL.replay_run2(cfg, pyevents)


def verdict(run, driver):
    bad = CL.monitor(run)
    if driver == 2:
        bad += CL.monitor_composed(run)
    for p in run.problems:
        bad.append({"theorem": "driver", "step": -1, "what": p})
    return bad


def shrink(driver, cfg, pyevents, theorem, budget=150):
    """drop events while a monitor of the same theorem still fails"""
    def fails(evs):
        try:
            r = rerun(driver, CL.jsonable(cfg), CL.jsonable(evs))
            return any(b["theorem"] == theorem for b in verdict(r, driver))
        except Exception:
            return False
    evs = list(pyevents)
    changed = True
    while changed and budget > 0:
        changed = False
        for i in range(len(evs) - 1, -1, -1):
            if evs[i][0] == "send":
                # later sends carry their id: dropping a send renumbers them, keep ids consistent
                cand = []
                k = 0
                for j, e in enumerate(evs):
                    if j == i:
                        continue
                    cand.append(e)
                sid = 0
                ren = []
                ok = True
                for e in cand:
                    if e[0] in ("send", "badsend"):
                        e = (e[0], sid) + tuple(e[2:])
                        sid += 1
                    ren.append(e)
                cand = ren
            else:
                cand = evs[:i] + evs[i + 1:]
            budget -= 1
            if budget <= 0:
                break
            if fails(cand):
                evs, changed = cand, True
                break
    return evs


def report(ck, run, driver, bad, label):
    b = bad[0]
    evs = run.pyevents
    if b["theorem"] != "driver":
        try:
            evs = shrink(driver, run.cfg, run.pyevents, b["theorem"])
        except Exception:
            evs = run.pyevents
    try:
        r2 = rerun(driver, CL.jsonable(run.cfg), CL.jsonable(evs))
        bad2 = [x for x in verdict(r2, driver) if x["theorem"] == b["theorem"]] or bad
        tr, mev = r2.trace, r2.events
    except Exception:
        bad2, tr, mev = bad, run.trace, run.events
    ck.violation({"kind": "C01 monitor failed on the implementation trace (%s)" % label, "theorem": bad2[0]["theorem"],
                  "what": bad2[0]["what"], "all": bad2[:6], "driver": driver, "cfg": CL.jsonable(run.cfg),
                  "pyevents": CL.jsonable(evs), "model_events": mev, "impl_trace": tr, "replay_op": "run"})


# ------------------------------------------------------------------ directed fault sequences (driver 2)
def drive(run, policy, limit=200):
    """deterministic environment: answer every pending broker request by `policy`, fire producer retry timers"""
    for _ in range(limit):
        breqs, ctimers, ptimers, _outst, _looper = CL.pending2(run)
        if breqs:
            ev = policy(run, breqs[0])
        elif ptimers:
            ev = ("timer", ptimers[0])
        else:
            return
        CL.apply2(run, ev)


def pol_honest(run, br):
    return ("bans", br.rid, None)


def pol_persist(err):
    def pol(run, br):
        if br.req["key"] == 0:
            return ("bans", br.rid, {"errs": [(CL.TOPICS.index(t), p, err) for (t, p, _m) in br.req["payloads"]]})
        return ("bans", br.rid, None)
    return pol


def pol_drop(run, br):
    return ("bfail", br.rid, PL.K_CONNDONE) if br.req["key"] == 0 else ("bans", br.rid, None)


def pol_silent(run, br):
    return ("silent", br.rid) if br.req["key"] == 0 else ("bans", br.rid, None)


def base_cfg2(acks, batch, mx, **kw):
    cfg = dict(acks=acks, batch=batch, n=2, b=0, t=None, max=mx, api=2, codec=None, retry_interval=0.25,
               partitioner="scripted", ntop=2, nparts={0: 2, 1: 1}, script={}, nbrokers=2, known=[0, 1],
               cluster_seed=5, profile="plain", timeout_ms=5000)
    cfg.update(kw)
    return cfg


def scenario(cfg, sends, policy, pre=(), post=()):
    """sends: [(topic, script choice)] ; returns the finished run"""
    run = CL.make_run2(cfg)
    run.pyevents = []
    for ev in pre:
        CL.apply2(run, ev)
    for sid, (t, ch) in enumerate(sends):
        cfg["script"][PL.make_key(sid, False)] = ch
        CL.apply2(run, ("send", sid, t, False, [12, 9]))
    drive(run, policy)
    for ev in post:
        CL.apply2(run, ev)
        drive(run, policy)
    return run


def outcomes(run):
    out = {}
    for st in run.trace:
        for o in st:
            if o[0] == 7:
                out.setdefault(o[1], []).append(tuple(o[2:]))
    return out


def directed(ck):
    """corpus: fault sequences named in the property, every acks mode, batched or not, attempt limits 1..3.
    returns [(label, run, expectation problems)]"""
    res = []
    sends = [(0, 0), (0, 1), (1, 0), (0, 0)]
    for acks, batch, mx in itertools.product([1, -1, 0], [False, True], [1, 2, 3]):
        tag = "acks=%d %s max=%d" % (acks, "batched" if batch else "unbatched", mx)
        # honest cluster: everything succeeds, exactly once
        r = scenario(base_cfg2(acks, batch, mx), sends, pol_honest)
        oc = outcomes(r)
        exp = [] if all(len(oc.get(s, [])) == 1 and oc[s][0][0] == (2 if acks == 0 else 1) for s in range(4)) else ["honest cluster: not every send succeeded once: %r" % oc]
        res.append(("honest " + tag, r, exp))
        if acks != 0:
            # the broker keeps answering with an error code until the attempts run out: every send FAILS with it
            for err in (6, 3, 7, 19):
                r = scenario(base_cfg2(acks, batch, mx), sends, pol_persist(err))
                oc = outcomes(r)
                exp = [] if all(len(oc.get(s, [])) == 1 and oc[s][0][:2] == (0, PL.K_BROKER + err) for s in range(4)) else ["error %d persisting to the attempt limit: expected every send to fail with it once: %r" % (err, oc)]
                att = max([o[1] for st in r.trace for o in st if o[0] == 1] or [0])
                if att != mx:
                    exp.append("error %d persisting: %d produce attempts, limit %d" % (err, att, mx))
                res.append(("persist err=%d " % err + tag, r, exp))
            # silent broker: the client's own time-out fails the payloads; retried to the limit, then failure
            r = scenario(base_cfg2(acks, batch, mx), sends, pol_silent)
            oc = outcomes(r)
            exp = [] if all(len(oc.get(s, [])) == 1 and oc[s][0][0] == 0 for s in range(4)) else ["silent broker: expected every send to fail once: %r" % oc]
            res.append(("silent " + tag, r, exp))
            # dropped connection on every attempt
            r = scenario(base_cfg2(acks, batch, mx), sends, pol_drop)
            oc = outcomes(r)
            exp = [] if all(len(oc.get(s, [])) == 1 and oc[s][0][0] == 0 for s in range(4)) else ["dropped connections: expected every send to fail once: %r" % oc]
            res.append(("drops " + tag, r, exp))
            # the leader of every partition moved before the first request: NotLeader, metadata refresh, success
            if mx >= 2:
                cfg = base_cfg2(acks, batch, mx, profile="moves")
                r = scenario(cfg, sends, pol_honest, pre=[("move", 0, 0, 1), ("move", 0, 1, 2), ("move", 1, 0, 2), ("move", 0, 0, 2), ("move", 0, 1, 1), ("move", 1, 0, 1)])
                oc = outcomes(r)
                exp = [] if all(len(oc.get(s, [])) == 1 for s in range(4)) else ["leader moves: a send did not fire exactly once: %r" % oc]
                res.append(("leader moved " + tag, r, exp))
        else:
            # acks=0: the bytes of one payload cannot be queued, the others are handed over (F-C01-2 shape)
            cfg = base_cfg2(acks, batch, mx, acks0_faults=[True] * 20 if mx == 1 else [False, True] * 10)
            r = scenario(cfg, sends, pol_honest)
            oc = outcomes(r)
            exp = [] if all(len(oc.get(s, [])) == 1 for s in range(4)) else ["acks=0 with a payload that cannot be queued: a send did not fire exactly once: %r" % oc]
            res.append(("acks0 faults " + tag, r, exp))
            # acks=0 and a leader whose connection never comes up: the request waits in the broker client until the
            # client's own request time-out cancels it (seeded C01-m11: no time-out is armed when no response is
            # expected - the send Deferred would stay pending for ever); every attempt times out: the sends FAIL, once
            cfg = base_cfg2(acks, batch, mx, acks0_faults=["pending"] * 40)
            r = scenario(cfg, sends, pol_silent)
            oc = outcomes(r)
            exp = [] if all(len(oc.get(s, [])) == 1 and oc[s][0][0] == 0 for s in range(4)) else ["acks=0, connection never up: not every send failed exactly once after the attempts timed out: %r" % oc]
            res.append(("acks0 connection never up " + tag, r, exp))
            # ... or comes up only after the first time-out
            cfg = base_cfg2(acks, batch, mx, acks0_faults=["pending"] * 40)
            first = {"n": 0}

            def pol_late(run, br, first=first):
                if br.req["key"] == 0 and first["n"] == 0:
                    first["n"] += 1
                    return ("silent", br.rid)
                return ("bans", br.rid, None)
            r = scenario(cfg, sends, pol_late)
            oc = outcomes(r)
            exp = [] if all(len(oc.get(s, [])) == 1 for s in range(4)) else ["acks=0, connection up after the first time-out: a send did not fire exactly once: %r" % oc]
            res.append(("acks0 connection late " + tag, r, exp))
        # cancel one send while the request is in flight, then stop with the request still pending
        run = CL.make_run2(base_cfg2(acks, batch, mx))
        run.pyevents = []
        for sid, (t, ch) in enumerate(sends):
            run.cfg["script"][PL.make_key(sid, False)] = ch
            CL.apply2(run, ("send", sid, t, False, [12, 9]))
        CL.apply2(run, ("cancel", 1))
        CL.apply2(run, ("stop",))
        oc = outcomes(run)
        ok = all(len(oc.get(s, [])) == 1 for s in range(4)) and (acks == 0 or all(oc[s][0][0] == 0 for s in range(4)))
        res.append(("cancel+stop " + tag, run, [] if ok else ["cancel then stop with the request in flight: %r" % oc]))
    return res


# ------------------------------------------------------------------ driver-1 probes for the repaired defects
def probes1():
    out = []
    # F-C01-1: NotLeader on every attempt, limit 3 -> the Deferred must FAIL with NotLeaderForPartitionError
    cfg = dict(acks=1, batch=False, n=1, b=1, t=None, max=3, api=1, codec=None, retry_interval=0.25, partitioner="rr",
               ntop=1, nparts={0: 1}, cache=[(0, 0, True)], script={})
    evs = [("send", 0, 0, False, [12])]
    for k in range(3):
        evs.append(("result", ("resp", [(0, 0, 6, -1)])))
        if k < 2:
            evs += [("metaset", 0, 0, True), ("timer", k)]
    out.append(("F-C01-1", "broker error persisting to the attempt limit delivered as a successful result", cfg, evs,
                lambda oc: oc.get(0) == [(0, PL.K_BROKER + 6, 0, 0, 0)]))
    # F-C01-2: acks=0, two partitions, one payload fails until the attempts run out: the other send fires at once
    cfg = dict(acks=0, batch=True, n=2, b=0, t=None, max=2, api=1, codec=None, retry_interval=0.25, partitioner="scripted",
               ntop=1, nparts={0: 2}, cache=[(0, 0, True)], script={b"k0": 0, b"k1": 1})
    evs = [("send", 0, 0, False, [12]), ("send", 1, 0, False, [12]),
           ("result", ("failed", [], [(0, 1, PL.K_CONNDONE)])), ("timer", 0), ("result", ("failed", [], [(0, 1, PL.K_CONNDONE)]))]
    out.append(("F-C01-2", "acks=0: written payload's send never fired when another payload kept failing", cfg, evs,
                lambda oc: oc.get(0) == [(2, 0, 0, 0, 0)] and len(oc.get(1, [])) == 1 and oc[1][0][0] == 0))
    # F-C01-3: API version lookup fails before the messages are built: the sends must fail, not hang
    cfg = dict(acks=1, batch=False, n=1, b=1, t=None, max=2, api=0, codec=None, retry_interval=0.25, partitioner="rr",
               ntop=1, nparts={0: 1}, cache=[(0, 0, True)], script={})
    evs = [("send", 0, 0, False, [12]), ("version", PL.K_RUNTIME)]
    out.append(("F-C01-3", "version lookup failure left the sends unfired", cfg, evs,
                lambda oc: len(oc.get(0, [])) == 1 and oc[0][0][0] == 0))
    # F-C01-4: a send made after stop() must fail at once with CancelledError(request_sent=False), not hang
    cfg = dict(acks=1, batch=False, n=1, b=1, t=None, max=2, api=1, codec=None, retry_interval=0.25, partitioner="rr",
               ntop=1, nparts={0: 1}, cache=[(0, 0, True)], script={})
    evs = [("send", 0, 0, False, [12]), ("stop", None), ("send", 1, 0, False, [12])]
    out.append(("F-C01-4", "send_messages() after stop() queued the request: its Deferred never fired", cfg, evs,
                lambda oc: oc.get(1) == [(0, PL.K_CANCEL, 0, 0, 0)]))
    # (seeded C01-m7) one batch: a send to a topic whose metadata keeps failing - its lookups use up the whole attempt
    # quota - and a send to a routable topic whose leader answers NOT_ENOUGH_REPLICAS for ever: the attempt counter is
    # past the limit when the first produce request fails, the send must FAIL then (one produce request), not retry
    cfg = dict(acks=1, batch=True, n=2, b=0, t=None, max=2, api=1, codec=None, retry_interval=0.25, partitioner="rr",
               ntop=2, nparts={0: 1, 1: 1}, cache=[(0, 0, True)], script={})
    evs = [("send", 0, 1, False, [12]), ("send", 1, 0, False, [12]),
           ("loaddone", 0, True, 0), ("timer", 0), ("loaddone", 1, True, 0), ("timer", 1), ("loaddone", 2, True, 0), ("timer", 2),
           ("result", ("resp", [(0, 0, 19, -1)])), ("timer", 3), ("result", ("resp", [(0, 0, 19, -1)])), ("timer", 4),
           ("result", ("resp", [(0, 0, 19, -1)])), ("timer", 5), ("result", ("resp", [(0, 0, 19, -1)]))]
    out.append(("P-C01-attempts-past-limit", "attempt counter past the limit (metadata lookups of another send used up the quota): the batch is retried "
                "beyond max_req_attempts instead of failing", cfg, evs,
                lambda oc: len(oc.get(1, [])) == 1 and oc[1][0][0] == 0 and len(oc.get(0, [])) == 1))
    # F-C01-5 (known): handing the request to the client raises -> the batch ends, the send never fires.
    # Model event 13 (EBroken); Props/C01.v C01_resolved_when_quiescent_refuted_build_raises is this history.
    cfg = dict(acks=1, batch=False, n=1, b=1, t=None, max=3, api=1, codec=None, retry_interval=0.25, partitioner="rr",
               ntop=1, nparts={0: 1}, cache=[(0, 0, True)], script={})
    evs = [("broken", True), ("send", 0, 0, False, [5])]
    out.append(("F-C01-5", "an exception escaping Producer._send_requests (send_produce_request raising synchronously; "
                "create_message_set raising, e.g. codec=CODEC_SNAPPY without python-snappy) is only logged: the batch's "
                "send Deferreds never fire", cfg, evs,
                lambda oc: len(oc.get(0, [])) == 1))
    return out


def probe_out_of_contract():
    """results OUTSIDE the contract of send_produce_request (Model.Producer.result_ok) are no-ops in the model and are
    never generated as events.  What does the code do with them?  Informational only (outside the contract either way):
    a few such values are fired at the real Producer with a two-payload request in flight; -> {label: observation}"""
    def probe(acks, v):
        cfg = dict(acks=acks, batch=True, n=2, b=0, t=None, max=3, api=1, codec=None, retry_interval=0.25, partitioner="scripted",
                   ntop=1, nparts={0: 3}, cache=[(0, 0, True)], script={PL.make_key(0, False): 0, PL.make_key(1, False): 1})
        r = PL.replay_run(cfg, [("send", 0, 0, False, [8]), ("send", 1, 0, False, [8])], run_cls=CL.Run1)
        c = r.client
        if c.request is None or c.request[0].called:
            return {"error": "no request in flight"}
        before = r.snapshot()
        r.cur = []
        d = c.request[0]
        c.request = None
        exc = None
        try:
            r.fire_value(d, v)
        except Exception as e:  # noqa
            exc = repr(e)
        outs = sorted(r.cur)
        r.cur = None
        after = r.snapshot()
        code = {"outcomes": [o for o in outs if o[0] == 7], "other_outputs": [o for o in outs if o[0] != 7],
                "unresolved_after": after["unresolved"], "busy_after": after["busy"], "exception_in_callback_chain": exc}
        noop = not outs and after == before and exc is None
        return {"model": "no-op (result_ok is false: the event is ignored)", "code": code, "code_is_a_no_op_too": noop}
    vals = [
        ("response for a partition that was not in the request", 1, ("resp", [(0, 0, 0, 5), (0, 1, 0, 6), (0, 2, 0, 7)])),
        ("two responses for one partition", 1, ("resp", [(0, 0, 0, 5), (0, 0, 0, 9), (0, 1, 0, 6)])),
        ("responses although acks=0", 0, ("resp", [(0, 0, 0, 5), (0, 1, 0, 6)])),
        ("FailedPayloadsError without failed payloads", 1, ("failed", [(0, 0, 0, 5), (0, 1, 0, 6)], [])),
        ("failed payload that was not in the request", 1, ("failed", [(0, 0, 0, 5), (0, 1, 0, 6)], [(0, 2, PL.K_CONNLOST)])),
        ("a payload both answered and failed", 1, ("failed", [(0, 0, 0, 5), (0, 1, 0, 6)], [(0, 1, PL.K_CONNLOST)])),
    ]
    return {label: probe(acks, v) for (label, acks, v) in vals}


def probe_snappy():
    """F-C01-5 on the real code without any scripting: codec=CODEC_SNAPPY accepted by the constructor, python-snappy
    absent -> create_message_set raises inside _send_requests.  Returns None if snappy is installed, else
    (fired, still_outstanding)."""
    from afkak.common import CODEC_SNAPPY
    try:
        import snappy  # noqa: F401
        return None
    except ImportError:
        pass
    cfg = dict(acks=1, batch=False, n=1, b=1, t=None, max=3, api=1, codec=CODEC_SNAPPY, retry_interval=0.25,
               partitioner="rr", ntop=1, nparts={0: 1}, cache=[(0, 0, True)], script={})
    r = PL.ImplRun(cfg)
    r.apply(("send", 0, 0, False, [5]))
    r.clock.advance(1000)
    return (r.send_d[0].called, not r.snaps[-1]["busy"])


# ------------------------------------------------------------------ exhaustive small scope (thorough tier, driver 1)
def small_scope(ck, depth):
    """all event sequences up to `depth` over a reduced, state-aware alphabet, 1 topic x 2 partitions"""
    syms = ["send0", "send1", "ok", "err6", "mixed", "failed", "kafka", "empty", "timer", "cancel0", "tick", "stop"]
    cases, impl, runs = [], [], []
    for acks, batch in ((1, False), (0, True), (1, True)):
        cfg0 = dict(acks=acks, batch=batch, n=2, b=0, t=5, max=2, api=1, codec=None, retry_interval=0.25, partitioner="scripted",
                    ntop=1, nparts={0: 2}, cache=[(0, 0, True)], script={})
        for d in range(1, depth + 1):
            for seq in itertools.product(syms, repeat=d):
                if seq[0] not in ("send0", "send1"):
                    continue
                cfg = dict(cfg0, script={})
                run = CL.Run1(cfg)
                run.pyevents = []
                for s in seq:
                    ev = expand(run, s)
                    if ev is None:
                        continue
                    run.pyevents.append(ev)
                    run.apply(ev)
                runs.append(run)
    return runs


def expand(run, s):
    c = run.client
    req = c.request is not None and not c.request[0].called
    if s in ("send0", "send1"):
        sid = run.nsid
        run.cfg["script"][PL.make_key(sid, False)] = 0 if s == "send0" else 1
        return ("send", sid, 0, False, [12])
    if s in ("ok", "err6", "mixed", "failed", "kafka", "empty"):
        if not req:
            return None
        cur = sorted((PL.TOPICS.index(t), p) for (t, p) in c.request[1])
        acks = run.cfg["acks"]
        if s == "empty":
            return ("result", ("empty", None))
        if s == "kafka":
            return ("result", ("kafka", PL.K_LEADERUNAVAIL))
        if s == "failed":
            if acks == 0:
                return ("result", ("failed", [], [(cur[-1][0], cur[-1][1], PL.K_CONNDONE)]))
            return ("result", ("failed", [(t, p, 0, 7) for (t, p) in cur[:-1]], [(cur[-1][0], cur[-1][1], PL.K_CONNDONE)]))
        if acks == 0:
            return None
        if s == "ok":
            return ("result", ("resp", [(t, p, 0, 3) for (t, p) in cur]))
        if s == "err6":
            return ("result", ("resp", [(t, p, 6, -1) for (t, p) in cur]))
        return ("result", ("resp", [(t, p, (6 if i == 0 else 0), (-1 if i == 0 else 4)) for i, (t, p) in enumerate(cur)]))
    if s == "timer":
        timers = [tid for tid, dc in sorted(run.clock.timers.items()) if dc in run.clock.calls]
        return ("timer", timers[0]) if timers else None
    if s == "cancel0":
        return ("cancel", 0)
    if s == "tick":
        return ("tick",)
    if s == "stop":
        return ("stop", None)
    return None


# ------------------------------------------------------------------ the check
def nontrivial(case, impl):
    # the trace contains a produce request or an outcome (same criterion as producer_check.nontrivial)
    from props import producer_check as PC
    return PC.nontrivial(case, impl)


def run(ck):
    vlib.import_repo()
    ck.build([MODEL, CMODEL])
    ck.props()
    rnd = random.Random(ck.seed)
    thorough = ck.tier == "thorough"
    scale = 25 if thorough else 1
    t_start = time.time()
    describe = lambda c: {"cfg": c[:6], "line": c[:50]}
    nviol0 = 0

    def check_runs(runs, driver, label, theorems=THEOREMS):
        cases = [r.case_line() for r in runs]
        impl = [r.flat_trace() for r in runs]
        diffs, mo = ck.correspond(MODEL, MODULE, cases, impl, label, nontrivial=nontrivial, describe=describe)
        nbad = 0
        for r in runs:
            bad = verdict(r, driver)
            for st in r.trace:
                for o in st:
                    if o[0] == 7:
                        ck.hist("d%d outcome %s" % (driver, {0: "failure", 1: "ProduceResponse", 2: "None", 3: "SUCCESS-WITH-EXCEPTION"}[o[2]]))
                    elif o[0] == 1:
                        ck.hist("d%d produce attempt %s" % (driver, o[1] if o[1] < 4 else ">=4"))
            for ev in r.events:
                v = CL.event_value(ev)
                if v is not None:
                    ck.hist("d%d client result %s%s" % (driver, "(in stop) " if ev[0] == 11 else "", v[0]))
            if bad:
                nbad += 1
                if nbad <= 2:
                    report(ck, r, driver, bad, label)
                else:
                    ck.nviol = getattr(ck, "nviol", 0) + 1
        if diffs and not nbad:
            # the implementation no longer behaves like the proved model: look for a concrete failing input around
            found = False
            for i in diffs[:8]:
                r = runs[i]
                for _ in range(30 if not thorough else 120):
                    try:
                        r2 = extend(rnd, r, driver)
                    except Exception:
                        continue
                    bad = verdict(r2, driver)
                    if bad:
                        report(ck, r2, driver, bad, label + " (search around a correspondence difference)")
                        found = True
                        break
                if found:
                    break
            if not found:
                i = diffs[0]
                k = PL_first_diff(impl[i], mo[i])
                ck.violation({"kind": "correspondence broken", "correspondence": "corr:producer:%s" % label,
                              "theorems_no_longer_tied": theorems, "differing_cases": len(diffs), "of": len(cases),
                              "driver": driver, "cfg": CL.jsonable(runs[i].cfg), "pyevents": CL.jsonable(runs[i].pyevents),
                              "model_events": runs[i].events, "impl_trace": impl[i][:400], "model_trace": mo[i][:400],
                              "first_difference_at": k, "replay_op": "run"}, no_input=True)
        return diffs

    def check_composed(runs, label):
        """driver 2 histories on the composed model: producer trace AND the cluster's partition logs"""
        cases = [CL.composed_case(r) for r in runs]
        impl = [CL.composed_impl(r) for r in runs]
        diffs, mo = ck.correspond(CMODEL, CMODULE, cases, impl, label, nontrivial=lambda c, o: o[-1] != 0 or len(o) > 8,
                                  describe=lambda c: {"cfg": c[:6], "line": c[:50]})
        for r in runs:
            ck.hist("d2 appends at a leader", len(r.cluster.appends))
        if diffs and not ck.violations:
            i = diffs[0]
            k = PL_first_diff(impl[i], mo[i])
            ck.violation({"kind": "correspondence broken (composed model: producer trace + partition logs)",
                          "correspondence": "corr:producercompose:%s" % label, "theorems_no_longer_tied": ["C01_composed_truthful"],
                          "differing_cases": len(diffs), "of": len(cases), "driver": 2, "cfg": CL.jsonable(runs[i].cfg),
                          "pyevents": CL.jsonable(runs[i].pyevents), "composed_events": runs[i].cevents,
                          "impl": impl[i][-200:], "model": mo[i][-200:], "first_difference_at": k,
                          "cluster_logs": {str(k2): CL.kv_mids(runs[i], v) for k2, v in runs[i].cluster.log.items()},
                          "replay_op": "run"}, no_input=True)
        return diffs

    # --- 0. probes for the repaired defects of this property (driver 1, directed)
    pr_runs = []
    for fid, what, cfg, evs, good in probes1():
        r = PL.replay_run(cfg, evs, run_cls=CL.Run1)
        oc = outcomes(r)
        bad = verdict(r, 1)
        observed = bool(bad) or not good(oc)
        if fid == "F-C01-5":
            sn = probe_snappy()
            ck.cov["F-C01-5_snappy_probe"] = ("python-snappy installed: not run" if sn is None else
                                              {"send_fired": sn[0], "producer_idle": sn[1]})
            if sn is not None and not sn[0]:
                observed = True
        ck.finding(fid, observed, what, {"kind": "repaired defect observed again", "driver": 1, "cfg": CL.jsonable(cfg),
                                         "pyevents": CL.jsonable(evs), "outcomes": {str(k): v for k, v in oc.items()},
                                         "monitor": bad[:3], "impl_trace": r.trace, "replay_op": "run"})
        pr_runs.append(r)
    check_runs(pr_runs, 1, "driver 1 probes (repaired defects F-C01-1..4, known finding F-C01-5) vs Model.Producer.run_case")
    # out-of-contract results: the model ignores them, the code does not (informational; outside the contract either way)
    try:
        ooc = probe_out_of_contract()
    except Exception as e:  # noqa
        ooc = {"error": repr(e)}
    ck.cov["out_of_contract_results"] = ooc
    for label, obs in ooc.items():
        if isinstance(obs, dict) and "code_is_a_no_op_too" in obs:
            ck.hist("out-of-contract result: code %s" % ("ignores it like the model" if obs["code_is_a_no_op_too"] else "acts on it (model: no-op)"))

    # --- 1. composed corpus: directed fault sequences through the real KafkaClient
    dres = directed(ck)
    for label, r, exp in dres:
        ck.hist("directed composed scenarios")
        if exp and not verdict(r, 2):
            ck.violation({"kind": "composed fault sequence: unexpected outcome", "scenario": label, "what": exp[0],
                          "theorem": "C01_failure_is_failure / C01_resolved_when_quiescent", "driver": 2, "cfg": CL.jsonable(r.cfg),
                          "pyevents": CL.jsonable(r.pyevents), "model_events": r.events, "impl_trace": r.trace, "replay_op": "run"})
    check_runs([r for _l, r, _e in dres], 2, "driver 2 (real KafkaClient, scripted brokers) directed fault sequences vs Model.Producer.run_case")
    check_composed([r for _l, r, _e in dres], "driver 2 directed fault sequences + cluster logs vs Model.ProducerCompose.run_case")

    # --- 2. driver 1: seeded random interleavings over the whole client contract
    n1 = 1500 * scale
    runs1 = [PL.gen_run(rnd, run_cls=CL.Run1) for _ in range(n1)]
    check_runs(runs1, 1, "driver 1 (real Producer, scripted client contract) vs Model.Producer.run_case")

    # --- 3. driver 2: seeded random fault sequences through the real KafkaClient
    n2 = 700 * scale
    runs2 = []
    for _ in range(n2):
        r = CL.gen_run2(rnd)
        ck.hist("d2 profile " + r.cfg["profile"])
        runs2.append(r)
    check_runs(runs2, 2, "driver 2 (real Producer over real KafkaClient, scripted brokers) vs Model.Producer.run_case")
    check_composed(runs2, "driver 2 random fault sequences + cluster logs vs Model.ProducerCompose.run_case")

    # --- 3b. a broker APPENDS and then its response is lost (RLost _ true of Model/ProducerCompose.v): the producer
    #         retries, the log holds the messages twice, the acknowledged offset is the second copy's
    lossy = []
    for acks, batch, mx in itertools.product([1, -1], [False, True], [2, 3]):
        def pol_lose_first(state={"n": 0}):
            st = {"n": 0}
            def pol(run, br):
                if br.req["key"] == 0 and st["n"] == 0:
                    st["n"] += 1
                    return ("blose", br.rid)
                return ("bans", br.rid, None)
            return pol
        r = scenario(base_cfg2(acks, batch, mx), [(0, 0), (0, 1), (1, 0), (0, 0)], pol_lose_first())
        oc = outcomes(r)
        dup = [tp for tp, kvs in sorted(r.cluster.log.items()) if len(kvs) != len(set(kvs))]
        ck.hist("lossy directed scenarios")
        if dup:
            ck.hist("lossy directed scenarios with a duplicate in a partition log")
        if not (all(len(oc.get(sd, [])) == 1 and oc[sd][0][0] == 1 for sd in range(4)) and dup) and not verdict(r, 2):
            ck.violation({"kind": "composed fault sequence: unexpected outcome", "scenario": "append then lose the response, acks=%d %s max=%d" % (acks, "batched" if batch else "unbatched", mx),
                          "what": "expected every send to succeed after the retry and the first partition log to hold the lost-response messages twice: outcomes %r, logs with duplicates %r" % (oc, dup),
                          "theorem": "C01_composed_truthful", "driver": 2, "cfg": CL.jsonable(r.cfg),
                          "pyevents": CL.jsonable(r.pyevents), "model_events": r.events, "impl_trace": r.trace, "replay_op": "run"})
        lossy.append(r)
    for _ in range(120 * scale):
        cfg = CL.gen_cfg2(rnd)
        cfg["profile"] = "lossy"
        if cfg["acks"] == 0:
            cfg["acks"] = rnd.choice([1, -1])
        r = CL.gen_run2(rnd, cfg)
        ck.hist("d2 profile lossy")
        if any(len(kvs) != len(set(kvs)) for kvs in r.cluster.log.values()):
            ck.hist("d2 lossy histories with a duplicate in a partition log")
        lossy.append(r)
    check_runs(lossy, 2, "driver 2 append-then-lose-the-response histories vs Model.Producer.run_case")
    check_composed(lossy, "driver 2 append-then-lose-the-response histories + cluster logs (duplicates on retry) vs Model.ProducerCompose.run_case")

    # --- 4. thorough: exhaustive small scope (validation of the tie only) and coqchk
    if thorough:
        runs3 = small_scope(ck, 4)
        ck.hist("small-scope sequences (depth<=4, 12 symbols, 3 configurations)", len(runs3))
        check_runs(runs3, 1, "driver 1 exhaustive small scope vs Model.Producer.run_case")
        ck.coqchk(["AV.Props.C01"])

    ck.cov["rule"] = (
        "seeded generators (random.Random(VERIF_SEED)). driver 1: state-aware event sequences (4-48 events) over sends "
        "(null/empty/5000-byte values, 1-3 topics x 1-3 partitions, rr/hashed/scripted partitioners incl. raising ones), every "
        "contract value of send_produce_request (responses with error codes, FailedPayloadsError with partial responses, Kafka / "
        "other failures, empty results), retry and lookup timers, metadata changes, version discovery, cancels, stop (with what the "
        "cancelled request delivers). driver 2: real KafkaClient over scripted brokers and a simulated cluster (1-3 brokers, leaders, "
        "partition logs); fault profiles: plain, error codes, one error code persisting to the attempt limit, dropped connections, "
        "silent brokers (client time-out fires), leader moves, no initial metadata, mixed; plus a directed corpus of these fault "
        "sequences for acks in {1,-1,0} x batched/unbatched x attempt limit 1..3. A case is non-trivial if its trace has a produce "
        "request or an outcome; distinct = distinct canonical model case lines.")
    ck.assumptions += [
        "Model/Producer.v (hand-written, owned by the producer group) stands for afkak/producer.py:181-715; the tie is this run's correspondence (driver 1 and driver 2), not a proof",
        "Model/ProducerCompose.v: broker spec (partition -> log, produce = append, reply = error code or base offset) + the client's aggregation rule (client.py:1334-1362); tied by replaying driver 2 histories (the per-payload fate is read off the client's aggregate and the simulated cluster) and comparing the producer trace and the final partition logs of the simulated cluster; offsets in the model are computed from its own logs",
        "the client contract (Model.Producer.result_ok: one response or one failed payload per payload of the request, no duplicates; none for acks=0) is an ASSUMPTION of the theorems about what KafkaClient.send_produce_request delivers; driver 2 checks it on the real client.py (1232-1362, 862-895, 653-704) for the generated fault sequences; a broker that omits a partition from its response is outside the fault model",
        "message identity: the model carries message ids (send, index); the drivers identify every message on the wire by key and value bytes (gzip wrappers are opened), an unidentifiable message makes the monitor fail",
        "Twisted Deferred / inlineCallbacks / DeferredList / LoopingCall semantics and the reactor are modelled, not verified",
        "driver 2 replaces _KafkaBrokerClient and the bootstrap connection by scripted objects (KafkaClient._get_brokerclient, _send_bootstrap_request); connection management (brokerclient.py) is covered by C06/C10, not here",
        "a success observed inside send_messages before the caller can attach callbacks is attributed by the driver to the step in which the result crossed the client boundary",
        "extraction: ExtrOcamlBasic only; OCaml 4.13.1 ocamlopt; a sample of every correspondence re-evaluated in Coq by vm_compute",
    ]
    ck.cov["trusted_base"] += ["correspondence harness harness/props/C01.py, producer_c01_lib.py, producer_lib.py + harness/vlib.py",
                               "extracted OCaml runner (ExtrOcamlBasic) cross-checked by vm_compute sample"]
    ck.cov["wall_drivers_s"] = round(time.time() - t_start, 1)


def PL_first_diff(a, b):
    for i, (x, y) in enumerate(zip(a, b)):
        if x != y:
            return i
    return min(len(a), len(b))


def extend(rnd, run, driver):
    """a variation of a case: replay a prefix, then continue with fresh random events (search for a failing input)"""
    evs = run.pyevents
    k = rnd.randint(max(0, len(evs) - 6), len(evs))
    r2 = rerun(driver, CL.jsonable(run.cfg), CL.jsonable(evs[:k]))
    r2.pyevents = list(r2.pyevents)
    stopped = any(e[0] == "stop" for e in evs[:k])
    for _ in range(rnd.randint(2, 14)):
        if driver == 1:
            ev = PL.gen_event(rnd, r2, stopped)
            r2.pyevents.append(ev)
            r2.apply(ev)
        else:
            ev = CL.gen_event2(rnd, r2, stopped)
            ev = CL.apply2(r2, ev)
        if ev[0] == "stop":
            stopped = True
    return r2


def replay(rp):
    import json
    if rp.get("replay_op") != "run":
        print(json.dumps(rp, indent=1, default=repr)[:4000])
        return 1
    driver = rp["driver"]
    r = rerun(driver, rp["cfg"], rp["pyevents"])
    print("driver", driver, "cfg", rp["cfg"])
    for i, (ev, st) in enumerate(zip(r.events, r.trace)):
        print("%3d  event %-40s outputs %s" % (i, ev, st))
    bad = verdict(r, driver)
    for b in bad:
        print("MONITOR", b["theorem"], "step", b["step"], ":", b["what"])
    print("verdict:", "FAIL" if bad else "pass")
    return 1 if bad else 0
