# C11 - every broker request is bounded by the client timeout.
# Correspondence of the REAL afkak KafkaClient (+ real _KafkaBrokerClient, real bootstrap protocol) over harness/simnet.py
# with coq/Model/ClientReq.v, and monitors restating the theorems of coq/Props/C11.v over the implementation's own trace.
import random

import vlib
from props import clientreq_lib as L

MODEL = "clientreq"
MODULE = "Model.ClientReq"
THEOREMS = ["C11_timer_at_issue", "C11_timer_released", "C11_bound", "C11_bound_any", "C11_timer_registered", "C11_timer_never_rearmed", "C11_reply_first", "C11_issue_to_resolution", "C11_late_reply_inert",
            "C11_same_id_refused", "C11_timed_out_id_reserved", "C11_timer_at_reissue", "C11_brokerclients_inv",
            "C11_no_anomaly", "C11_operation_request", "C11_clients_open", "C11_drop_and_resend", "C11_bound_frame",
            "C11_timer_at_make_request"]
WHICH = ("C11",)

CFG0 = {"timeout": 5000, "dot": True, "mode": 0, "corr0": 0, "hosts": [1]}


def corpus():
    """hand-written histories (the Examples of Props/C11.v and the situations the property text names)"""
    up = ("update", [(1, 5), (2, 6)], False)
    out = []
    # timeout first, late reply, drop, re-send of the remaining request, reply first
    out.append((CFG0, [up, ("send", 1, True, -1), ("send", 1, True, 30000), ("ok", 0), ("timer", 0), ("reply", 0, 1, [7]),
                       ("lost", 0), ("ok", 0), ("reply", 0, 2, [9])]))
    # a connection that never establishes
    out.append((CFG0, [up, ("send", 1, True, -1), ("timer", 0), ("ok", 0)]))
    out.append((CFG0, [up, ("send", 1, True, -1), ("fail", 0), ("timer", 1), ("fail", 0), ("timer", 2), ("timer", 0), ("ok", 0)]))
    # reply first, then the (released) timer
    out.append((CFG0, [up, ("send", 1, True, -1), ("ok", 0), ("reply", 0, 1, [4, 2]), ("timer", 0)]))
    # several requests issued at the same instant: their timers come due together
    out.append((CFG0, [up, ("send", 1, True, -1), ("send", 1, True, -1), ("send", 2, True, -1), ("ok", 0), ("timer", 0),
                       ("reply", 0, 2, []), ("ok", 1), ("lost", 0)]))
    # min_timeout below / above the client timeout, no-reply request on a live connection, cancel by the caller
    nodot = dict(CFG0, dot=False)
    out.append((nodot, [up, ("send", 1, True, 1000), ("send", 1, True, 5001), ("ok", 0), ("send", 1, False, -1),
                        ("cancelreq", 1), ("timer", 0), ("reply", 0, 1, [1]), ("reply", 0, 2, [2])]))
    # a broker-agnostic operation timing out on a known broker moves on to the next one, then to the bootstrap hosts
    out.append((nodot, [up, ("op", 1, True), ("ok", 0), ("timer", 0), ("ok", 1), ("timer", 1), ("bootok", 0), ("timer", 2),
                        ("bootlost", 0)]))
    # the same correlation id again (fetch_api_versions' retries): refused while unanswered and after the timeout (tombstone);
    # the late reply clears the tombstone; then the id is accepted, gets its own timer and its own reply (Example same_id_again)
    out.append((nodot, [up, ("send", 1, True, -1), ("ok", 0), ("resend", 0, True, -1), ("timer", 0), ("resend", 0, True, -1),
                        ("reply", 0, 1, [7]), ("resend", 0, True, 30000), ("reply", 0, 1, [9])]))
    # the seeded shape: R1 times out, another request is in flight, the id is re-issued, the late reply to R1 arrives, then the
    # replies to the other request and (were it accepted) to the retry
    out.append((nodot, [up, ("send", 1, True, -1), ("ok", 0), ("tick", 2.5), ("send", 1, True, -1), ("timer", 0), ("resend", 0, True, -1),
                        ("reply", 0, 1, [1]), ("reply", 0, 2, [2]), ("reply", 0, 1, [3]), ("timer", 1)]))
    # with disconnect_on_timeout: the tombstone lasts until the connection is reported lost; then the id is free again
    out.append((CFG0, [up, ("send", 1, True, -1), ("ok", 0), ("timer", 0), ("resend", 0, True, -1), ("lost", 0), ("resend", 0, True, -1),
                       ("ok", 0), ("reply", 0, 1, [4])]))
    # re-issue of a request that was never written (timed out while connecting: no tombstone), of a no-reply request, to a
    # broker client retired by a refresh
    out.append((nodot, [up, ("send", 1, True, -1), ("timer", 0), ("resend", 0, True, -1), ("ok", 0), ("reply", 0, 1, [])]))
    out.append((nodot, [up, ("send", 1, False, -1), ("ok", 0), ("resend", 0, True, -1), ("reply", 0, 1, [8]), ("resend", 1, False, -1)]))
    out.append((nodot, [up, ("send", 1, True, -1), ("ok", 0), ("update", [(2, 6)], True), ("resend", 0, True, -1), ("lost", 0)]))
    # correlation id wrap-around
    out.append((dict(CFG0, corr0=2 ** 31 - 2), [up, ("send", 1, True, -1), ("send", 1, True, -1), ("ok", 0),
                                                ("reply", 0, 0, [5]), ("reply", 0, 2 ** 31 - 1, [6])]))
    return out


def small_alphabet():
    return [("send", 1, True, -1), ("send", 1, False, -1), ("send", 1, True, 30000), ("cancelreq", 0), ("resend", 0, True, -1),
            ("ok", 0), ("fail", 0), ("lost", 0), ("reply", 0, 1, [1]), ("reply", 0, 2, []), ("timer", None), ("close",)]


def enumerate_small(depth, limit):
    """all sequences of enabled events over the small alphabet (one broker, two requests) up to `depth`"""
    cfg = dict(CFG0)
    first = [("update", [(1, 5)], False)]
    level = [[]]
    count = 0
    for _d in range(depth):
        nxt = []
        for seq in level:
            im = L.Impl(cfg)
            for ev in first + seq:
                im.apply(ev)
            for ev in small_alphabet():
                if ev[0] == "timer":
                    a = im.armed()
                    if not a:
                        continue
                    ev = ("timer", a[0])
                if not im.enabled(ev) or (ev[0] == "close" and im.closed):
                    continue
                nxt.append(seq + [ev])
        for seq in nxt:
            count += 1
            yield cfg, first + seq
            if count >= limit:
                return
        level = nxt


def nontrivial(c, o):
    # a case exercises the property if a request timer was armed (5 t 2 ms) - cheap syntactic test on the impl trace
    return any(o[k] == 5 and k + 3 < len(o) and o[k + 2] == 2 for k in range(len(o)))


def check_cases(ck, label, batch, describe):
    """batch: list of (cfg, driver events, model events, records)"""
    cases = [L.enc_case(cfg, evs) for cfg, _g, evs, _r in batch]
    impl = [L.enc_trace(recs) for _c, _g, _e, recs in batch]
    diffs, mo = ck.correspond(MODEL, MODULE, cases, impl, label, nontrivial=nontrivial, describe=describe)
    nbad = 0
    for n, (cfg, gev, evs, recs) in enumerate(batch):
        bad, _f = L.monitor(cfg, recs, WHICH)
        if bad:
            nbad += 1
            report_monitor(ck, cfg, gev, bad)
    if diffs and not nbad:
        # the implementation no longer behaves like the proved model and no monitor objects on these cases: look harder
        found = search_around(ck, [batch[i] for i in diffs[:5]])
        if not found:
            i = diffs[0]
            cfg, gev, evs, recs = batch[i]
            ck.violation({"kind": "correspondence broken", "correspondence": "corr:clientreq:trace(%s)" % label,
                          "theorems_no_longer_tied": THEOREMS, "cfg": cfg, "events": L.jsonable(gev),
                          "first_difference": first_diff(impl[i], mo[i]), "replay_op": "events"}, no_input=True)
    return len(diffs)


def first_diff(a, b):
    k = next((i for i, (x, y) in enumerate(zip(a, b)) if x != y), min(len(a), len(b)))
    return {"position": k, "impl": a[max(0, k - 12):k + 12], "model": b[max(0, k - 12):k + 12]}


def report_monitor(ck, cfg, gev, bad):
    thm = bad[0][0]

    def failing(evs):
        _e, recs = L.run_impl(cfg, evs)
        b, _f = L.monitor(cfg, recs, WHICH)
        return any(x[0] == thm for x in b)
    small = L.shrink(cfg, gev, failing)
    _e, recs = L.run_impl(cfg, small)
    b, _f = L.monitor(cfg, recs, WHICH)
    ck.violation({"kind": "monitor", "theorem": thm, "what": [x[1] for x in b][:3], "cfg": cfg,
                  "events": L.jsonable(small), "impl_trace": [[list(map(repr, r["outs"])), repr(r["ev"])] for r in recs][-12:],
                  "replay_op": "events"})


def search_around(ck, batch):
    """mutate the differing cases (other configuration, events dropped, extended with timers and replies) and run the
    monitors: a concrete failing input turns the broken correspondence into an ordinary violation"""
    rnd = random.Random(ck.seed + 17)
    for cfg, gev, _evs, _recs in batch:
        for _try in range(60):
            ev2 = list(gev)
            cfg2 = dict(cfg)
            r = rnd.random()
            if r < 0.3:
                cfg2["dot"] = not cfg2["dot"]
            if r < 0.6 and ev2:
                del ev2[rnd.randrange(len(ev2))]
            g = L.Gen(rnd, "c11", length=len(ev2) + 25, cfg=cfg2)
            try:
                for ev in ev2:
                    if g.im.enabled(ev):
                        g.im.apply(ev)
                        g.events.append(ev)
                _e, recs = g.run()
            except Exception:
                continue
            bad, _f = L.monitor(cfg2, recs, WHICH)
            if bad:
                report_monitor(ck, cfg2, g.events, bad)
                return True
    return False


def run(ck):
    vlib.import_repo()
    ck.build([MODEL])
    ck.props()
    rnd = random.Random(ck.seed)
    thorough = ck.tier == "thorough"
    describe = lambda c: {"cfg": c[:4], "line": c[:60]}

    # --- corpus
    batch = []
    for cfg, evs in corpus():
        done, recs = L.run_impl(cfg, evs)
        batch.append((cfg, evs, done, recs))
    ndiff = check_cases(ck, "corpus", batch, describe)

    # --- seeded generated histories
    n = 320 if not thorough else 6000
    batch = []
    hist = {}
    for k in range(n):
        dot = None if k % 3 else True
        g = L.Gen(rnd, "c11" if k % 4 else "c20", length=rnd.choice([12, 25, 40, 60] if not thorough else [25, 40, 60, 90, 140]),
                  cfg=L.random_cfg(rnd, dot=dot))
        evs, recs = g.run()
        batch.append((g.cfg, g.events, evs, recs))
        for key, v in g.hist.items():
            hist[key] = hist.get(key, 0) + v
    ndiff += check_cases(ck, "generated histories", batch, describe)
    for key, v in sorted(hist.items()):
        ck.hist(key, v)

    # --- exhaustive small scope (validates the tie, never the proof)
    depth, limit = (4, 2500) if not thorough else (6, 150000)
    batch = []
    for cfg, evs in enumerate_small(depth, limit):
        done, recs = L.run_impl(cfg, evs)
        batch.append((cfg, evs, done, recs))
    ck.hist("exhaustive_sequences_depth_%d" % depth, len(batch))
    ndiff += check_cases(ck, "exhaustive small scope (1 broker, 2 requests, depth %d)" % depth, batch, describe)

    # --- the REAL public entry points (produce/fetch/offset*, the group code's JoinGroup with its 35 s minimum, heartbeats,
    #     metadata / coordinator lookups, _load_topic_partitions) against a scripted honest broker: monitors only
    from props import clientreq_public as PUB
    PUB.run_public(ck, WHICH, 60 if not thorough else 1500)

    if thorough:
        ck.coqchk(["AV.Props.C11"])
    ck.cov["rule"] = ("corpus of hand-written histories + seeded state-aware generator (random.Random(VERIF_SEED)) over the event alphabet of "
                      "Model/ClientReq.v (requests with/without reply and min_timeout, the same correlation id issued again, caller cancels, broker-agnostic operations, "
                      "broker table refreshes, close, connect ok/fail, loss, replies incl. late/unknown ids, DelayedCalls fired in deadline "
                      "order incl. simultaneous deadlines, bootstrap connections) with random timeout / disconnect_on_timeout / shuffle "
                      "permutation / first correlation id (incl. wrap-around) + every sequence of enabled events over a 12-event "
                      "alphabet up to the stated depth.  A case is non-trivial if a request timer was armed; distinct = distinct case lines.")
    ck.assumptions += [
        "hand-written Gallina model Model/ClientReq.v stands for afkak/client.py:1028-1229, 897-987, 368-392, 468-527 composed with Model/BrokerClient.v "
        "(brokerclient.py) and the one-request bootstrap protocol (_protocol.py:63-140); tied to the code by this run's correspondence only",
        "wall-clock bound in event-order form: the Deferred fires at the latest when the DelayedCall armed with max(timeout, min_timeout) at issue fires; "
        "that a reactor fires DelayedCalls on time and in deadline order is Twisted's behaviour (trusted); the float passed to callLater is checked bit for bit",
        "random.shuffle is replaced by a deterministic permutation chosen per case (the order in which brokers/hosts are tried is not part of the property)",
        "set(self.clients) - set(brokers) is iterated in ascending node id (CPython, node ids 0..7); the canonical trace sorts the outputs of one step by actor",
        "request/response payloads other than the correlation id, log output and re-entrant user callbacks are outside the model",
        "extraction: ExtrOcamlBasic only; OCaml runner cross-checked by vm_compute on a sample",
    ]
    ck.cov["trusted_base"] += ["correspondence harness harness/props/clientreq_lib.py + harness/simnet.py + harness/vlib.py",
                               "extracted OCaml runner (ExtrOcamlBasic) cross-checked by vm_compute sample"]


def replay(rp):
    if rp.get("public"):
        from props import clientreq_public as PUB
        return PUB.replay_public(rp, WHICH)
    cfg = rp["cfg"]
    evs = L.unjson(rp["events"])
    done, recs = L.run_impl(cfg, evs)
    for r in recs:
        print(r["ev"], "->", r["outs"], "timers", r["ntimers"])
    bad, finds = L.monitor(cfg, recs, WHICH)
    print("monitor:", bad, finds)
    return 1 if bad else 0
