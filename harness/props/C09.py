# C09 - per-partition order, one payload per message per attempt, serial batches, disciplined retries, attempt bound,
# back-off of afkak.producer.Producer (+ create_message_set: the messages of the requests of a payload in request order).
# Same driver as C19 (props/producer_lib.py / producer_check.py): the REAL Producer under task.Clock over a scripted
# stand-in client vs the extracted model coq/Model/Producer.v, plus monitors restating coq/Props/C09.v over the
# implementation's own trace (produce requests are decoded from the real Message objects the producer built).
import itertools
import random

import vlib
from props import producer_lib as L
from props import producer_check as PC

THEOREMS = ["C09_trace_accepted", "C09_step_accepted", "C09_serial_batches", "C09_attempt_bound", "C09_backoff_first",
            "C09_backoff_consecutive", "C09_retry_subset", "C09_retry_exact", "C09_retry_resends", "C09_acked_reported", "C09_order",
            "C09_order_step", "C09_one_payload", "C09_invariants_reachable", "C09_shrink_step", "C09_never_resent", "C09_complete", "C09_idle_outstanding_queued"]


def monitor(run):
    cfg = run.cfg
    bad = []
    maxatt = max(1, cfg["max"])
    sent_first = {}       # tp -> list of sids in first-attempt payloads, in wire order
    wire_sids = set()     # sends seen in any produce request so far
    batch = None          # the produce requests of the batch in flight: list of {tp: [mids]}
    last_result = None    # (acked tps, failed tps or None = all) of the last result applied to this batch
    prev_k = None          # index of the previous callLater
    idle_since = True      # the producer was waiting on nothing at some moment since the previous callLater
    prev_retry_k = None    # index of the previous produce-retry callLater of the batch in flight
    prev_retry_delay = None
    prev_delay = None
    delays = {tid: d for (tid, d, _k) in run.delays}
    resolved = set()
    for (i, mev, outs, before, after) in PC.steps(run):
        op = mev[0]
        honest = run.dishonest_at is None or i < run.dishonest_at
        if op in (10, 12) and run.applied[i]:
            v = PC.value_of_mev(mev)
            acked, failed = set(), None
            if v[0] == "resp":
                acked = {(t, p) for (t, p, e, _o) in v[1] if e == 0}
                failed = {(t, p) for (t, p, e, _o) in v[1] if e != 0}
            elif v[0] == "failed":
                acked = {(t, p) for (t, p, e, _o) in v[1] if e == 0}
                failed = {(t, p) for (t, p, e, _o) in v[1] if e != 0} | {(t, p) for (t, p, _k) in v[2]}
            last_result = (acked, failed, v)
            # C09_acked_reported: every waiting request of an acknowledged payload gets its ProduceResponse now
            if batch:
                cur = batch[-1]
                for (t, p, e, o) in (v[1] if v[0] in ("resp", "failed") else []):
                    if e != 0:
                        continue
                    for sid in sorted({m // L.MID for m in cur.get((t, p), []) if m >= 0}):
                        if sid in before["unresolved"] and [7, sid, 1, t, p, 0, o] not in outs:
                            bad.append((i, "acked-reported: payload (%d,%d) acknowledged at offset %d but send %d got %r"
                                        % (t, p, o, sid, [x for x in outs if x[0] == 7 and x[1] == sid])))
        for o in outs:
            if o[0] == 7:
                resolved.add(o[1])
            if o[0] == 2:
                k = o[2]
                if not (k == 0 or (prev_k is not None and k == prev_k + 1)):
                    bad.append((i, "backoff: callLater index %d after index %r" % (k, prev_k)))
                if idle_since and k != 0:
                    bad.append((i, "backoff: first callLater after the producer was idle has index %d, expected 0 (reset at resolution)" % k))
                delay = delays.get(o[1])
                if o[3] == 1:
                    # produce retries of one batch follow each other directly: consecutive indices, growing delays
                    if prev_retry_k is not None and k != prev_retry_k + 1:
                        bad.append((i, "backoff: produce-retry delays of one batch have indices %d then %d" % (prev_retry_k, k)))
                    if prev_retry_delay is not None and not (delay > prev_retry_delay):
                        bad.append((i, "backoff: produce-retry delays of one batch do not grow: %r then %r" % (prev_retry_delay, delay)))
                    prev_retry_k, prev_retry_delay = k, delay
                if prev_k is not None and k == prev_k + 1 and prev_delay is not None and not (delay > prev_delay):
                    bad.append((i, "backoff: consecutive delays do not grow: %r then %r" % (prev_delay, delay)))
                if k == 0 and float(delay).hex() != float(cfg.get("retry_interval", 0.25)).hex():
                    bad.append((i, "backoff: first delay %r is not the configured interval %r" % (delay, cfg.get("retry_interval", 0.25))))
                prev_delay = delay
                prev_k = k
                idle_since = False
            if o[0] != 1:
                continue
            attempt = o[1]
            pls = PC.produce_payloads(o)
            tps = [tp for tp, _m in pls]
            mids = [m for _tp, ms in pls for m in ms]
            # C09_one_payload
            if len(set(tps)) != len(tps):
                bad.append((i, "one-payload: topic-partition twice in one request %r" % (tps,)))
            if -1 in mids:
                bad.append((i, "one-payload: a message that no accepted send contains is in the request"))
            if len(set(mids)) != len(mids):
                bad.append((i, "one-payload: message twice in one request %r" % (mids,)))
            for tp, ms in pls:
                # whole sends, each with all its messages in index order, sends in submission order
                sids = []
                for m in ms:
                    if m >= 0 and (not sids or sids[-1] != m // L.MID):
                        sids.append(m // L.MID)
                expect = [sid * L.MID + j for sid in sorted(set(sids)) for j in range(PC.size_of(run, sid)[0])]
                if ms != expect:
                    bad.append((i, "order: payload %r carries %r, expected whole sends in submission order %r" % (tp, ms, expect)))
            if attempt == 1:
                # C09_serial_batches: everything of earlier batches is resolved
                old = sorted(s for s in wire_sids if s not in resolved and s not in {m // L.MID for m in mids})
                if old and honest:
                    bad.append((i, "serial: a new batch is on the wire while sends %r of an earlier one are unresolved" % (old,)))
                again = sorted({m // L.MID for m in mids if m >= 0} & wire_sids)
                if again:
                    bad.append((i, "order: sends %r are in the first attempt of two batches" % (again,)))
                for tp, ms in pls:
                    lst = sent_first.setdefault(tp, [])
                    for m in ms:
                        sid = m // L.MID
                        if m >= 0 and (not lst or lst[-1] != sid):
                            if lst and sid < lst[-1]:
                                bad.append((i, "order: partition %r: send %d dispatched after send %d" % (tp, sid, lst[-1])))
                            lst.append(sid)
                batch = [dict(pls)]
                last_result = None
                prev_retry_k = prev_retry_delay = None
            else:
                if not batch:
                    bad.append((i, "retry: attempt %d without a first attempt" % attempt))
                    batch = [dict(pls)]
                    continue
                prev = batch[-1]
                if attempt != len(batch) + 1:
                    bad.append((i, "attempt-bound: attempt number %d after %d requests" % (attempt, len(batch))))
                # C09_retry_subset / C09_retry_resends
                for tp, ms in pls:
                    if tp not in prev:
                        bad.append((i, "retry-subset: payload %r retried but was not in the previous attempt" % (tp,)))
                    elif batch[0].get(tp) != ms:
                        bad.append((i, "retry-subset: payload %r retried with other messages %r than first sent %r" % (tp, ms, batch[0].get(tp))))
                if last_result is not None:
                    acked, failed, v = last_result
                    for tp in tps:
                        if tp in acked:
                            bad.append((i, "retry-subset: acknowledged payload %r re-sent" % (tp,)))
                    if failed is not None and set(tps) != set(failed):
                        bad.append((i, "retry-subset: retried %r, failed payloads were %r" % (sorted(tps), sorted(failed))))
                    if failed is None and set(tps) != set(prev):
                        bad.append((i, "retry-subset: whole-request failure: retried %r of %r" % (sorted(tps), sorted(prev))))
                batch.append(dict(pls))
            if len(batch) > maxatt:
                bad.append((i, "attempt-bound: %d produce requests for one batch, max_req_attempts=%d" % (len(batch), cfg["max"])))
            wire_sids |= {m // L.MID for m in mids if m >= 0}
        if not after["busy"]:
            idle_since = True
            prev_retry_k = prev_retry_delay = None
    bad += PC.partitioner_monitor(run)
    return bad


# ------------------------------------------------------------------ generator biased towards C09
def cfg_c09(rnd):
    cfg = L.gen_cfg(rnd)
    cfg["cache"] = [(t, 0, True) for t in range(cfg["ntop"])]
    if rnd.random() < 0.8:
        cfg["api"] = rnd.choice([1, 2])
    cfg["max"] = rnd.choice([1, 2, 3, 3, 4, 5])
    cfg["acks"] = rnd.choice([1, 1, -1, 0])
    if rnd.random() < 0.6:
        cfg["batch"] = True
        cfg["n"] = rnd.choice([2, 3, 4, 5])
        cfg["b"] = rnd.choice([0, 0, 100])
        cfg["t"] = rnd.choice([None, 5])
    cfg["partitioner"] = rnd.choice(["rr", "hashed", "scripted", "scripted"])
    return cfg


def cfg_c09_sync(rnd):
    """as cfg_c09, and the scripted client answers some produce requests - first attempts and retries - with an
    ALREADY-FIRED Deferred (success, Kafka failure, failed payloads, error codes): cfg["sync"] = generator weight"""
    cfg = cfg_c09(rnd)
    cfg["sync"] = rnd.choice([6, 12, 25])
    cfg["max"] = rnd.choice([1, 2, 3, 3, 4])
    return cfg


def small_scope(depth):
    """every sequence up to `depth` over a retry-centred alphabet (two partitions, max 3 attempts)"""
    cfg = dict(acks=1, batch=True, n=2, b=0, t=None, max=3, api=1, codec=None, retry_interval=0.25, partitioner="scripted",
               ntop=1, nparts={0: 2}, cache=[(0, 0, True)], script={})
    alphabet = ["send0", "send1", "ok", "err1", "fail0", "kafka", "timer", "cancel0"]
    for d in range(1, depth + 1):
        for word in itertools.product(alphabet, repeat=d):
            yield cfg, word


def run_word(cfg, word):
    cfg = dict(cfg)
    cfg["script"] = {}
    run = L.ImplRun(cfg)
    pyevents = []
    for w in word:
        req = run.client.request
        cur = sorted((L.TOPICS.index(t), p) for (t, p) in req[1]) if req is not None and not req[0].called else [(0, 0)]
        if w.startswith("send"):
            sid = run.nsid
            cfg["script"][L.make_key(sid, False)] = int(w[4])
            ev = ("send", sid, 0, False, [8])
        elif w == "cancel0":
            ev = ("cancel", 0)
        elif w == "ok":
            ev = ("result", ("resp", [(t, p, 0, 5) for (t, p) in cur]))
        elif w == "err1":      # last partition of the request answers NotLeader, the others are acknowledged
            ev = ("result", ("resp", [(t, p, 0, 5) for (t, p) in cur[:-1]] + [(cur[-1][0], cur[-1][1], 6, -1)]))
        elif w == "fail0":     # first partition's broker request fails, the others are acknowledged
            ev = ("result", ("failed", [(t, p, 0, 5) for (t, p) in cur[1:]], [(cur[0][0], cur[0][1], L.K_CONNLOST)]))
        elif w == "kafka":
            ev = ("result", ("kafka", L.K_LEADERUNAVAIL))
        else:
            live = [tid for tid, dc in sorted(run.clock.timers.items()) if dc in run.clock.calls]
            ev = ("timer", live[0] if live else 0)
        pyevents.append(ev)
        run.apply(ev)
    run.pyevents = pyevents
    return run


# ------------------------------------------------------------------ driver 2: what reaches the brokers
# The REAL KafkaClient between the producer and scripted brokers (props/producer_c01_lib.py Run2: real
# send_produce_request / _send_broker_aware_request / _handle_responses, a simulated cluster with several leaders).
# The C09 clauses are read off the bytes the brokers were handed and the appends the cluster acknowledged.
def wire_monitor(run):
    from props import producer_c01_lib as CL
    bad = []
    first = {}       # (t, p) -> send ids in order of first appearance at a broker
    appends = [(a[0], a[2], a[3], set(a[5])) for a in run.cluster.appends]      # (step, t, p, {(key, value)})
    for (h, node, expect, _acks, pls) in run.handed:
        tps = [(t, p) for (t, p, _kv) in pls]
        if len(set(tps)) != len(tps):
            bad.append((h, "one-payload: broker %d got a request with a topic-partition twice: %r" % (node, tps)))
        for (t, p, kvs) in pls:
            mids = CL.kv_mids(run, kvs)
            if -1 in mids:
                bad.append((h, "one-payload: broker %d got a message no accepted send contains (partition %r)" % (node, (t, p))))
            if len(set(mids)) != len(mids):
                bad.append((h, "one-payload: broker %d got a message twice in one payload %r: %r" % (node, (t, p), mids)))
            # C09_never_resent on the wire: what a broker acknowledged (appended) is not handed to a broker again
            if expect:
                for (a, at, ap, akv) in appends:
                    if a < h and (at, ap) == (t, p) and akv & set(kvs):
                        bad.append((h, "never-resent: payload %r was acknowledged by its leader at step %d and is handed to broker %d "
                                       "again (messages %r)" % ((t, p), a, node, mids)))
                        break
            # C09_order on the wire
            lst = first.setdefault((t, p), [])
            for m in mids:
                sid = m // L.MID
                if m >= 0 and sid not in lst:
                    if lst and sid < lst[-1]:
                        bad.append((h, "order: partition %r: send %d reaches a broker after send %d" % ((t, p), sid, lst[-1])))
                    lst.append(sid)
            sids = []
            for m in mids:
                if m >= 0 and (not sids or sids[-1] != m // L.MID):
                    sids.append(m // L.MID)
            expect_m = [sid * L.MID + j for sid in sorted(set(sids)) for j in range(PC.size_of(run, sid)[0])]
            if -1 not in mids and mids != expect_m:
                bad.append((h, "order: payload %r at broker %d carries %r, expected whole sends in submission order %r" % ((t, p), node, mids, expect_m)))
    for p_ in run.problems[:3]:
        bad.append((0, "driver: " + p_))
    bad += PC.partitioner_monitor(run)
    return bad


def pol_fail_kth(k, kinds):
    """policy for C01.drive: of the produce requests of the FIRST fan-out, the k-th in send order fails at the
    transport (kind from kinds), every other request is answered honestly"""
    state = {"n": 0}

    def pol(run, br):
        if br.req["key"] == 0:
            i = state["n"]
            state["n"] += 1
            if i == k:
                return ("bfail", br.rid, kinds[i % len(kinds)]) if kinds[i % len(kinds)] != "silent" else ("silent", br.rid)
        return ("bans", br.rid, None)
    return pol


def wire_scenarios():
    """two or three partitions led by different brokers, one batch with a payload for each, a transport failure at the
    broker that is first / second / third in send order (the others acknowledge), then the retry"""
    from props import producer_c01_lib as CL
    from props import C01 as D
    out = []
    for seed in range(6):
        for nb, nparts in ((2, 2), (3, 3), (2, 3)):
            for acks in (1, -1):
                cfg = D.base_cfg2(acks, True, 3, n=2 * nparts, nparts={0: nparts}, ntop=1, known=[0], nbrokers=nb, cluster_seed=seed)
                probe = CL.make_run2(dict(cfg, script={}))
                leaders = [probe.cluster.leader[(0, p)] for p in range(nparts)]
                if len(set(leaders)) < 2:
                    continue
                for order in (list(range(nparts)), list(reversed(range(nparts)))):
                    for k in range(len(set(leaders))):
                        for kind in (PL_K("K_CONNLOST"), "silent"):
                            c2 = dict(cfg, script={})
                            run = D.scenario(c2, [(0, p) for p in order], pol_fail_kth(k, [kind]))
                            out.append(("fail broker #%d in send order (%s), leaders %r, order %r, acks %d" % (k, kind, leaders, order, acks), run))
    return out


def PL_K(name):
    return getattr(L, name)


def cfg_wire(rnd):
    from props import producer_c01_lib as CL
    cfg = CL.gen_cfg2(rnd)
    cfg["nbrokers"] = rnd.choice([2, 2, 3])
    cfg["ntop"] = rnd.choice([1, 2])
    cfg["nparts"] = {t: rnd.choice([2, 3]) for t in range(cfg["ntop"])}
    cfg["known"] = list(range(cfg["ntop"]))
    cfg["acks"] = rnd.choice([1, 1, -1])
    cfg["batch"] = True
    cfg["n"], cfg["b"], cfg["t"] = rnd.choice([2, 3, 4]), 0, rnd.choice([None, 5])
    cfg["max"] = rnd.choice([2, 3, 4])
    cfg["profile"] = rnd.choice(["drops", "mixed", "silent", "errcodes", "drops"])
    cfg["partitioner"] = rnd.choice(["rr", "scripted", "hashed"])
    cfg.pop("acks0_faults", None)
    return cfg


def check_wire(ck, rnd, nrandom):
    """driver-2 stream of C09: directed multi-leader fault scenarios + seeded random histories; the wire monitor on
    every run, every history also replayed on the extracted producer model"""
    from props import producer_c01_lib as CL
    runs, labels = [], []
    for label, run in wire_scenarios():
        runs.append(run)
        labels.append(label)
        ck.hist("wire_directed_scenarios")
    for _ in range(nrandom):
        run = CL.gen_run2(rnd, cfg_wire(rnd))
        runs.append(run)
        labels.append("random")
        ck.hist("wire_random_histories")
    nbad = 0
    for run, label in zip(runs, labels):
        ck.hist("wire_broker_requests", len(run.handed))
        if len({n for (_h, n, _e, _a, _p) in run.handed}) > 1:
            ck.hist("wire_runs_with_two_brokers")
        msgs = wire_monitor(run)
        if label != "random":
            # the directed scenarios run to quiescence: a payload whose broker request failed must have been retried
            unfired = [sid for sid, d in sorted(run.send_d.items()) if not d.called]
            if unfired:
                msgs.append((len(run.trace), "retry-exact: the batch is over, sends %r never fired: their failed payload was never retried" % (unfired,)))
        if msgs:
            nbad += 1
            if nbad <= 3:
                ck.violation({"kind": "C09 wire monitor failed (real Producer over the real KafkaClient, scripted brokers)", "scenario": label,
                              "monitor": [list(m) for m in msgs[:5]], "theorems": ["C09_never_resent", "C09_retry_exact", "C09_order", "C09_one_payload"],
                              "handed": [(h, n, [(t, p, CL.kv_mids(run, kv)) for (t, p, kv) in pls]) for (h, n, _e, _a, pls) in run.handed],
                              "acknowledged": [(a[0], a[1], a[2], a[3], a[4], CL.kv_mids(run, a[5])) for a in run.cluster.appends],
                              "cfg": CL.jsonable(run.cfg), "pyevents": CL.jsonable(run.pyevents), "replay_op": "wire"})
            else:
                ck.nviol = getattr(ck, "nviol", 0) + 1
    cases = [r.case_line() for r in runs]
    impl = [r.flat_trace() for r in runs]
    label = "driver 2: Producer over the real KafkaClient with scripted brokers vs Model.Producer.run_case"
    diffs, mo = ck.correspond(PC.MODEL, PC.MODULE, cases, impl, label, nontrivial=PC.nontrivial, describe=lambda c: {"line": c[:80]})
    if diffs and not nbad:
        i = diffs[0]
        ck.violation({"kind": "correspondence broken: the Producer over the real KafkaClient no longer behaves like the proved model",
                      "correspondence": "corr:producer:" + label, "theorems_no_longer_tied": THEOREMS, "scenario": labels[i],
                      "cfg": CL.jsonable(runs[i].cfg), "pyevents": CL.jsonable(runs[i].pyevents), "impl_trace": runs[i].trace,
                      "model_trace": PC.unflatten(mo[i]), "replay_op": "wire"}, no_input=True)


def check_runs(ck, runs, label):
    nviol = 0
    flagged = set()
    for k, run in enumerate(runs):
        msgs = monitor(run)
        if run.problems:
            msgs = msgs + [(0, "driver: " + p) for p in run.problems[:3]]
        if msgs:
            flagged.add(k)
            nviol += 1
            if nviol <= 3:
                PC.report(ck, run, "C09 monitor failed on the implementation trace", msgs, monitor, THEOREMS)
            else:
                ck.nviol = getattr(ck, "nviol", 0) + 1
        nretry = sum(1 for st in run.trace for o in st if o[0] == 1 and o[1] > 1)
        if nretry:
            ck.hist("runs_with_retry")
            ck.hist("retry_requests", nretry)
        if any(o[0] == 1 and o[3] > 1 for st in run.trace for o in st):
            ck.hist("runs_with_multi_payload_request")
    diffs, mo = PC.correspond(ck, runs, label)
    for i in [d for d in diffs if d not in flagged][:2]:
        PC.report_diff(ck, runs[i], mo[i], label, THEOREMS, monitor)
    return diffs


def run(ck):
    vlib.import_repo()
    ck.build([PC.MODEL])
    ck.props()
    rnd = random.Random(ck.seed)
    scale = 1 if ck.tier == "quick" else 25
    runs = PC.gen_runs(rnd, 600 * scale, hist=ck.hist)
    check_runs(ck, runs, "Producer vs Model.Producer.run_case (general generator)")
    runs = PC.gen_runs(rnd, 1000 * scale, hist=ck.hist, cfg_fn=cfg_c09)
    check_runs(ck, runs, "Producer vs Model.Producer.run_case (retry generator: metadata ready, mixed per-partition outcomes)")
    runs = PC.gen_runs(rnd, 500 * scale, hist=ck.hist, cfg_fn=cfg_c09_sync)
    for r in runs:
        ck.hist("sync_results_(already-fired_Deferred_from_send_produce_request)", sum(1 for e in r.pyevents if e[0] == "syncnext"))
    check_runs(ck, runs, "Producer vs Model.Producer.run_case (retry generator with synchronous client results: already-fired Deferreds)")
    depth = 4 if ck.tier == "quick" else 6
    chunk, total = [], 0
    label = "Producer vs Model.Producer.run_case (all sequences up to depth %d over an 8-letter retry alphabet)" % depth
    for cfg, word in small_scope(depth):
        chunk.append(run_word(cfg, word))
        if len(chunk) >= 20000:
            total += len(chunk)
            check_runs(ck, chunk, label)
            chunk = []
    total += len(chunk)
    if chunk:
        check_runs(ck, chunk, label)
    ck.hist("small_scope_sequences", total)
    # driver 2: what reaches the brokers through the real KafkaClient (several leaders, transport failures)
    check_wire(ck, rnd, 100 * scale)
    if ck.tier == "thorough":
        ck.coqchk(["AV.Props.C09"])
    ck.cov["rule"] = ("seeded state-aware generator (random.Random(VERIF_SEED)) of event sequences over the real Producer (see C19) with a second "
                      "stream biased to retries: metadata ready, 1-3 topics x 1-3 partitions, per-attempt per-partition outcome in {acknowledged, each "
                      "error-code class, broker request failed, whole-request Kafka / non-Kafka failure, empty result}, sends and cancels while a "
                      "retry is pending, attempt limits 1-5, acks 0/1/-1, gzip or no codec, magic 0/1; plus every sequence up to the stated depth over an "
                      "8-letter retry alphabet.  Produce requests are decoded from the Message objects the producer really built (create_message_set, "
                      "gzip wrapper included) back to (send id, message index).  Non-trivial = the trace contains a produce request or an outcome.")
    ck.assumptions += [
        "hand-written Gallina model Model/Producer.v stands for afkak/producer.py (send_messages, stop, _next_partition, _send_requests, _complete_batch_send, "
        "_check_send_batch, _send_batch, _cancel_send_messages, _handle_send_response and inner functions) and for create_message_set as 'the messages of the "
        "requests of a payload in request order' (kafkacodec.py:1214-1249; its bytes are C04/C05's subject); tie checked by this run's correspondence only",
        "the client below the producer is a scripted stand-in ranging over the contract of send_produce_request with fail_on_error=False "
        "(Model.Producer.result_ok: every payload of the request is answered or failed exactly once); that the real KafkaClient honours it is exercised by C01's driver 2",
        "send ids are submission order (the model numbers sends 0,1,2,..), so 'increasing send ids' is 'submission order'",
        "the retry delay is modelled by its index k; the float passed to callLater is compared bit for bit with init*F*..*F (k multiplications, the "
        "implementation's own RETRY_INTERVAL_FACTOR and retry_interval) by the driver; the closed form init*F^k is proved over Q with F a parameter",
        "the attempt counter and the back-off are shared with the partition lookups of the same batch (producer.py:310-328): the bound proved is on produce "
        "requests per batch, max(1, max_req_attempts)",
        "Twisted Deferred/DeferredList/inlineCallbacks and task.Clock are exercised, not verified; intra-step output order is not compared",
    ]
    ck.cov["trusted_base"] += ["correspondence harness harness/props/C09.py + producer_check.py + producer_lib.py + harness/vlib.py",
                               "extracted OCaml runner (ExtrOcamlBasic) cross-checked by vm_compute sample"]


def replay(rp):
    if rp.get("replay_op") == "wire":
        from props import producer_c01_lib as CL
        run = CL.replay_run2(rp["cfg"], rp["pyevents"])
        for (h, n, _e, _a, pls) in run.handed:
            print("step %3d broker %d got %r" % (h, n, [(t, p, CL.kv_mids(run, kv)) for (t, p, kv) in pls]))
        for a in run.cluster.appends:
            print("step %3d broker %d acknowledged (%d,%d) at offset %d: %r" % (a[0], a[1], a[2], a[3], a[4], CL.kv_mids(run, a[5])))
        msgs = wire_monitor(run)
        for m in msgs:
            print("MONITOR step %s: %s" % (m[0], m[1]))
        unfired = [sid for sid, d in sorted(run.send_d.items()) if not d.called]
        print("unfired sends:", unfired)
        return 1 if msgs else 0
    return PC.replay(rp, monitor)
