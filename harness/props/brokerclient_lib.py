# Shared by C06.py and C10.py: runs event sequences through the real afkak.brokerclient._KafkaBrokerClient
# (harness/drv_brokerclient.py) and through the extracted model coq/Model/BrokerClient.v, compares the canonical
# traces, runs the monitors, turns failures into replays.
import multiprocessing
import os
import random
import subprocess

import vlib
import drv_brokerclient as D

MODEL = "brokerclient"
MODULE = "Model.BrokerClient"
# "+cc": a cancelled connection attempt fails with ConnectingCancelledError as Twisted's stock endpoints do (drv CcNet)
POLICIES = ["const", "twisted", "twisted_fast+cc", "table:11", "table:12+cc", "const+cc", "twisted+cc"]
ENUM_POLICY = "const+cc"
NATIVE_READY = True

F1 = D.reply(1)
F2 = D.reply(2, b"x")

# Hand-written sequences, run first: the Examples of Props/C06.v / C10.v and histories no unit test has.
CORPUS = [
    ("props-run_nonvacuous",
     [("make", 1, True), ("make", 2, True), ("make", 3, False), ("ok",), ("cancel", 0), ("frame", D.reply(1, b"F")),
      ("frame", D.reply(9)), ("frame", D.reply(2)), ("make", 4, True), ("lost",), ("fail",), ("fire",), ("ok",), ("close",), ("lost",)]),
    ("props-resend_nonvacuous",
     [("make", 1, True), ("make", 2, True), ("make", 3, True), ("ok",), ("make", 4, False), ("cancel", 0), ("frame", D.reply(3)),
      ("make", 5, True), ("lost",), ("fail",), ("fire",), ("fail",), ("fire",), ("ok",)]),
    ("props-idle_nonvacuous", [("make", 1, True), ("ok",), ("cancel", 0), ("lost",), ("make", 7, True)]),
    ("props-close_nonvacuous",
     [("make", 1, True), ("make", 2, True), ("fail",), ("close",), ("fire",), ("ok",), ("make", 3, True), ("frame", D.reply(1))]),
    ("answer-order-reversed",
     [("make", 1, True), ("make", 2, True), ("make", 3, True), ("ok",), ("frame", D.reply(3)), ("frame", D.reply(1)), ("frame", D.reply(2))]),
    ("duplicate-and-late-replies",
     [("make", 1, True), ("make", 2, True), ("ok",), ("frame", F1), ("frame", F1), ("cancel", 1), ("frame", F2), ("frame", F2), ("make", 2, True), ("frame", F2)]),
    ("tombstone-blocks-id-until-loss",
     [("make", 1, True), ("ok",), ("cancel", 0), ("make", 1, True), ("lost",), ("make", 1, True), ("ok",), ("frame", F1)]),
    ("cancel-unsent-frees-id", [("make", 1, True), ("cancel", 0), ("make", 1, True), ("ok",), ("frame", F1), ("cancel", 0), ("cancel", 1)]),
    ("two-frames-one-chunk-split-in-id",
     [("make", 1, True), ("make", 2, True), ("ok",), ("data", (D.simnet.frame(F1) + D.simnet.frame(F2))[:6]),
      ("data", (D.simnet.frame(F1) + D.simnet.frame(F2))[6:])]),
    ("loss-inside-frame-drops-partial-bytes",
     [("make", 1, True), ("ok",), ("data", D.simnet.frame(F1)[:5]), ("lost",), ("ok",), ("data", D.simnet.frame(F1)[5:]), ("frame", F1)]),
    ("length-limit", [("make", 1, True), ("ok",), ("data", b"\x80\x00\x00\x00"), ("frame", F1), ("lost",), ("ok",), ("frame", F1)]),
    ("length-max-is-legal", [("make", 1, True), ("ok",), ("data", b"\x7f\xff\xff\xff" + F1), ("data", F1)]),
    ("short-frame-raises", [("make", 1, True), ("ok",), ("data", b"\x00\x00\x00\x02ab"), ("frame", F1)]),
    ("negative-and-extreme-ids",
     [("make", -1, True), ("make", -2 ** 31, True), ("make", 2 ** 31 - 1, True), ("ok",), ("frame", D.reply(-2 ** 31)),
      ("frame", D.reply(2 ** 31 - 1)), ("frame", D.reply(-1))]),
    ("lost-twice-mixed-table",
     [("make", 1, True), ("make", 2, True), ("make", 3, False), ("make", 4, True), ("ok",), ("frame", D.reply(2)), ("cancel", 0),
      ("make", 5, True), ("lost",), ("ok",), ("make", 6, False), ("cancel", 3), ("lost",), ("fail",), ("fire",), ("ok",)]),
    ("only-tombstones-left-idle", [("make", 1, True), ("make", 2, True), ("ok",), ("cancel", 0), ("cancel", 1), ("lost",), ("fire",), ("ok",), ("make", 3, True)]),
    ("cancel-while-connecting-keeps-attempt", [("make", 1, True), ("cancel", 0), ("ok",), ("lost",), ("make", 2, True), ("ok",)]),
    ("cancel-during-backoff-then-timer", [("make", 1, True), ("fail",), ("cancel", 0), ("fire",), ("ok",), ("lost",), ("make", 2, True)]),
    ("backoff-counts-then-reset",
     [("make", 1, True), ("fail",), ("fire",), ("fail",), ("fire",), ("fail",), ("fire",), ("ok",), ("lost",), ("fail",), ("fire",), ("fail",)]),
    ("update-metadata-used-by-next-attempt",
     [("make", 1, True), ("update", True, 2), ("fail",), ("update", True, 3), ("fire",), ("ok",), ("update", True, 1), ("lost",), ("update", False, 1)]),
    ("close-connected-then-lost", [("make", 1, True), ("ok",), ("make", 2, False), ("close",), ("make", 3, True), ("frame", F1), ("lost",), ("close",)]),
    ("close-while-attempt-pending", [("make", 1, True), ("make", 2, True), ("close",), ("ok",), ("fail",), ("fire",), ("make", 3, True)]),
    ("close-idle", [("close",), ("make", 1, True), ("ok",), ("close",)]),
    ("close-with-tombstone", [("make", 1, True), ("make", 2, True), ("ok",), ("cancel", 0), ("close",), ("frame", F1), ("lost",)]),
    ("disconnect-then-data-then-lost", [("make", 1, True), ("make", 2, True), ("ok",), ("disc",), ("frame", F1), ("lost",), ("ok",)]),
    ("no-reply-request-never-resent", [("make", 1, False), ("make", 2, True), ("ok",), ("lost",), ("ok",), ("make", 3, False), ("lost",), ("ok",)]),
    ("reuse-id-of-no-reply-request", [("make", 1, False), ("ok",), ("make", 1, True), ("frame", F1), ("make", 1, True), ("lost",), ("ok",)]),
]


def nontrivial_c06(events, records):
    """at least two requests and a Deferred completed by received data or by cancel/close"""
    makes = sum(1 for (ev, _c, outs, en) in records if ev[0] == "make" and ("raised", 1) not in outs)
    fired = sum(1 for (ev, _c, outs, en) in records for o in outs if o[0] == "def")
    return makes >= 2 and fired >= 1


def nontrivial_c10(events, records):
    """a connection was lost with a request outstanding, or an attempt failed, or close() with something pending"""
    for (ev, _c, outs, en) in records:
        if not en:
            continue
        if ev[0] == "lost" and any(o[0] == "connect" for o in outs):
            return True
        if ev[0] == "fail" and outs:
            return True
        if ev[0] == "close" and any(o[0] == "def" for o in outs):
            return True
    return False


def generate(ck, rnd, n, profiles, lengths, end_close_p=0.15):
    items = []
    for _ in range(n):
        pk = rnd.choice(POLICIES)
        g = D.Gen(rnd, profile=rnd.choice(profiles), length=rnd.choice(lengths), policy_kind=pk, end_close=rnd.random() < end_close_p)
        events, records = g.run()
        for k, v in g.hist.items():
            ck.hist(k, v)
        ck.hist("policy_" + pk.split(":")[0])
        items.append((events, records, pk))
    return items


def first_diff_event(records, impl_trace, model_trace):
    """index of the event in whose segment the two traces first differ"""
    i = next((j for j, (a, b) in enumerate(zip(impl_trace, model_trace)) if a != b), min(len(impl_trace), len(model_trace)))
    pos, idx = 0, 0
    for idx, rec in enumerate(records):
        seg = 2 + sum(len(D.enc_out(o)) for o in rec[2])
        if i < pos + seg:
            return idx
        pos += seg
    return idx


def failing_fn(thm, which, pk):
    def failing(evs):
        return any(b[0] == thm for b in D.monitor(D.run_impl(evs, pk), which))
    return failing


def search_around(events, pk, which, rnd, upto, tries=300):
    """a correspondence difference without a monitor failure: look for a concrete failing input near it"""
    rids = sorted({ev[1] for ev in events if ev[0] == "make"}) or [1]
    nh = sum(1 for ev in events if ev[0] == "make")
    alpha = ([("frame", D.reply(r)) for r in rids] + [("cancel", h) for h in range(nh + 1)] +
             [("make", rids[-1] + 1, True), ("make", rids[0], True), ("make", rids[-1] + 2, False),
              ("ok",), ("fail",), ("fire",), ("lost",), ("close",), ("disc",)])
    base = list(events[:upto + 1])
    for t in range(tries):
        cand = (base if t % 2 else list(events)) + [rnd.choice(alpha) for _ in range(rnd.randint(1, 6))]
        bad = D.monitor(D.run_impl(cand, pk), which)
        if bad:
            return cand, bad
    return None, None


def evaluate(ck, label, items, which, tied, nontrivial, rnd):
    """items: [(events, records, policy_kind)].  Monitors + correspondence + violation protocol."""
    cases = [D.enc_case(evs) for evs, _r, _p in items]
    impl = [D.enc_trace(recs) for _e, recs, _p in items]
    nt = {tuple(c) for c, (evs, recs, _p) in zip(cases, items) if nontrivial(evs, recs)}
    mon_bad = {}
    for i, (evs, recs, pk) in enumerate(items):
        b = D.monitor(recs, which)
        if b:
            mon_bad[i] = b
    describe = lambda c: {"events(case line)": c[:60]}
    diffs, mo = ck.correspond(MODEL, MODULE, cases, impl, label, nontrivial=lambda c, o: tuple(c) in nt, describe=describe)
    ck.hist("sequences", len(items))
    ck.hist("events", sum(len(e) for e, _r, _p in items))
    reported = set()
    for i in sorted(mon_bad)[:6]:
        evs, recs, pk = items[i]
        thm, msg, idx = mon_bad[i][0]
        if thm in reported:
            continue
        reported.add(thm)
        small = D.shrink(evs, failing_fn(thm, which, pk))
        srecs = D.run_impl(small, pk)
        sb = [b for b in D.monitor(srecs, which) if b[0] == thm] or mon_bad[i]
        ck.violation({"kind": "monitor: the implementation's own trace contradicts the theorem", "theorem": thm,
                      "message": sb[0][1], "at_event": sb[0][2], "events": D.jsonable(small), "policy": pk,
                      "impl_outputs": [[D.jsonable([o])[0] for o in r[2]] for r in srecs], "replay_op": "bc"})
    if diffs and not mon_bad:
        i = diffs[0]
        evs, recs, pk = items[i]
        at = first_diff_event(recs, impl[i], mo[i])
        cand, bad = search_around(evs, pk, which, rnd, at)
        if cand:
            thm = bad[0][0]
            small = D.shrink(cand, failing_fn(thm, which, pk))
            sb = [b for b in D.monitor(D.run_impl(small, pk), which) if b[0] == thm] or bad
            ck.violation({"kind": "monitor (found by searching around a correspondence difference)", "theorem": thm,
                          "message": sb[0][1], "events": D.jsonable(small), "policy": pk, "replay_op": "bc"})
        else:
            small = D.shrink(evs, lambda e: D.enc_trace(D.run_impl(e, pk)) != ck.model(MODEL, [D.enc_case(e)])[0], budget=150)
            ck.violation({"kind": "correspondence broken", "correspondence": "corr:brokerclient:" + label,
                          "theorems_no_longer_tied": tied, "first_differing_event": at,
                          "events": D.jsonable(small), "policy": pk,
                          "impl": D.enc_trace(D.run_impl(small, pk)), "model": ck.model(MODEL, [D.enc_case(small)])[0],
                          "differing_cases": len(diffs), "replay_op": "bc"}, no_input=True)
    return diffs, mon_bad


# ------------------------------------------------------------------ exhaustive small scope, sharded over processes
def alphabet(kind):
    a = D.small_alphabet()
    if kind == "split":      # the reply to request 1 arrives in two pieces: loss / cancel / close possible inside a frame
        fr = D.simnet.frame(F1)
        a = [e for e in a if e != ("make", 2, False)] + [("data", fr[:5]), ("data", fr[5:])]
    if kind.startswith("hook"):      # plain events; the user code is in the hook table HOOK_TABLES[kind] (Model/BrokerClientHook.v)
        a = [("make", 1, False), ("make", 2, True), ("make", 3, False), ("make", 2, False), ("cancel", 0), ("cancel", 1),
             ("frame", D.reply(2)), ("ok",), ("fail",), ("lost",), ("fire",), ("close",)]
    return a


# hook tables of the exhaustive enumeration: what the callback/errback of the n-th request does when its Deferred fires
HOOK_TABLES = {
    "hook-a": {0: [("cancel", 1)], 1: [("make", 9, True)], 2: [("close",)], 3: [("cancel", 0), ("make", 2, True)]},
    "hook-b": {0: [("close",)], 1: [("cancel", 0), ("cancel", 2)], 2: [("make", 2, False), ("disc",)], 3: [("cancel", 1)]},
    "hook-c": {0: [("cancel", 1), ("make", 2, True)], 1: [("cancel", 2), ("close",)], 2: [("cancel", 0)], 3: [("make", 1, True)]},
}


def _expand(seq, alpha, hook=None):
    im = TreeImpl(ENUM_POLICY, HOOK_TABLES[hook]) if hook else D.Impl(ENUM_POLICY)
    for ev in seq:
        im.apply(ev)
    nxt = [ev for ev in alpha if im.enabled(ev) and not (ev[0] == "close" and im.closed)]
    return (im if hook else im.records), nxt


def _shard(args):
    prefixes, depth, alpha, which, exe, hook = args
    lines, traces, seqs, cnts, _mevents = [], [], [], [], []
    nmon, mon_first = 0, None
    stack = [list(p) for p in prefixes]
    while stack:
        seq = stack.pop()
        recs, nxt = _expand(seq, alpha, hook)
        if hook:
            im = recs
            recs = im.records
            case, counts = enc_icase(im.mevents)
            lines.append(vlib.encode_line(case))
            cnts.append(counts if im.order_ok else None)
            _mevents.append(None if im.order_ok else im.mevents)
            g = tree_monitor(im, which[0])
            b = [g] if g else []
        else:
            lines.append(vlib.encode_line(D.enc_case(seq)))
            b = D.monitor(recs, which)
        if not hook:
            _mevents.append(None)
        traces.append(vlib.encode_line(D.enc_trace(recs)))
        seqs.append(seq)
        if b:
            nmon += 1
            if mon_first is None:
                mon_first = (seq, b[0])
        if len(seq) < depth:
            for ev in nxt:
                stack.append(seq + [ev])
    p = subprocess.run([exe], input=("\n".join(lines) + "\n").encode(), stdout=subprocess.PIPE, stderr=subprocess.PIPE, timeout=3000)
    if p.returncode:
        return {"error": p.stderr.decode()[-500:]}
    out = p.stdout.decode().split("\n")
    ndiff, diff_first, nskip, nskipdiff = 0, None, 0, 0
    for i, t in enumerate(traces):
        if hook:
            if cnts[i] is None:
                # user code ran inside a close() loop whose order of failing cannot be told to be the model's: the
                # difference, if any, is counted and not reported (as in tree_part)
                nskip += 1
                _c, counts_i = enc_icase(_mevents[i])
                if not (i < len(out) and merge_canon([int(x) for x in out[i].split()], counts_i) == split_trace([int(x) for x in t.split()])):
                    nskipdiff += 1
                continue
            same = i < len(out) and merge_canon([int(x) for x in out[i].split()], cnts[i]) == split_trace([int(x) for x in t.split()])
        else:
            same = i < len(out) and out[i] == t
        if not same:
            ndiff += 1
            if diff_first is None:
                diff_first = (seqs[i], t, out[i] if i < len(out) else None)
    k = max(1, len(lines) // 3)
    pairs = [([int(x) for x in lines[i].split()], [int(x) for x in out[i].split()]) for i in range(0, len(lines), k) if i < len(out)][:3]
    return {"n": len(lines), "events": sum(len(s) for s in seqs), "nmon": nmon, "mon_first": mon_first, "ndiff": ndiff,
            "diff_first": diff_first, "sample": (seqs[len(seqs) // 2], traces[len(seqs) // 2]), "pairs": pairs,
            "nskip": nskip, "nskipdiff": nskipdiff}


def exhaustive(ck, depth, kind, which, tied, rnd, procs=16, split_depth=3):
    """every sequence of enabled events up to `depth` over the small alphabet: implementation vs model vs monitors"""
    alpha = alphabet(kind)
    label = "exhaustive: all enabled sequences up to depth %d over %d events (%s alphabet)" % (depth, len(alpha), kind)
    # the short prefixes serially, the subtrees below depth `split_depth` in parallel
    level, short = [[]], []
    for _ in range(min(split_depth, depth)):
        nl = []
        for s in level:
            _r, nxt = _expand(s, alpha, kind if kind.startswith("hook") else None)
            nl += [s + [ev] for ev in nxt]
        short += level
        level = nl
    hook = kind if kind.startswith("hook") else None
    exe = os.path.join(vlib.OUT, "run_" + (MODEL + "hook" if hook else MODEL))
    short = [s for s in short if s]
    shards = [[] for _ in range(procs * 4)]
    for i, s in enumerate(level):
        shards[i % len(shards)].append(s)
    jobs = [(sh, depth, alpha, which, exe, hook) for sh in shards if sh]
    jobs.append((None, 0, alpha, which, exe, hook))
    results = []
    ctx = multiprocessing.get_context("fork")
    with ctx.Pool(procs) as pool:
        results = pool.map(_shard_or_short, [(j, short) for j in jobs])
    st = ck.cov["correspondence"].setdefault(label, {"cases": 0, "differences": 0, "in_coq_sample": 0})
    for r in results:
        if "error" in r:
            raise vlib.CheckAbort("model runner failed in exhaustive shard: " + r["error"])
        st["cases"] += r["n"]
        st["differences"] += r["ndiff"]
        if hook:
            st["close_order_dependent_cases"] = st.get("close_order_dependent_cases", 0) + r.get("nskip", 0)
            st["close_order_dependent_differences_not_reported"] = st.get("close_order_dependent_differences_not_reported", 0) + r.get("nskipdiff", 0)
        ck.cov["evaluations"] += r["n"]
        ck.hist("exhaustive_sequences_" + kind, r["n"])
        ck.hist("exhaustive_events_" + kind, r["events"])
    pairs = [p for r in results for p in r.get("pairs", [])]
    if pairs:      # a sample of the enumerated lines is re-evaluated inside Coq as well
        nco, nbad = ck.coq_sample(MODEL + "hook" if hook else MODEL, "Model.BrokerClientHook" if hook else MODULE, pairs)
        if nbad:
            raise vlib.CheckAbort("extracted model and vm_compute disagree on %d of %d sampled enumeration lines" % (nbad, nco))
        st["in_coq_sample"] += nco
    mon = [r["mon_first"] for r in results if r["mon_first"]]
    dif = [r["diff_first"] for r in results if r["diff_first"]]
    if hook:
        hk = {str(k): [list(a) for a in v] for k, v in HOOK_TABLES[hook].items()}
        if mon:
            seq, (thm, msg, idx) = min(mon, key=lambda m: len(m[0]))
            ck.violation({"kind": "monitor (exhaustive small-scope enumeration, user code inside the loops)", "theorem": thm,
                          "message": msg, "events": D.jsonable(seq), "hooks": hk, "policy": ENUM_POLICY, "replay_op": "bc-tree"})
        elif dif:
            seq, it, mt = min(dif, key=lambda d: len(d[0]))
            ck.violation({"kind": "correspondence broken", "correspondence": "corr:brokerclienthook:" + label,
                          "theorems_no_longer_tied": tied, "events": D.jsonable(seq), "hooks": hk, "policy": ENUM_POLICY, "impl": it, "model": mt,
                          "differing_cases": st["differences"], "replay_op": "bc-tree"}, no_input=True)
    elif mon:
        seq, (thm, msg, idx) = mon[0]
        small = D.shrink(seq, failing_fn(thm, which, ENUM_POLICY))
        ck.violation({"kind": "monitor (exhaustive small-scope enumeration)", "theorem": thm, "message": msg,
                      "events": D.jsonable(small), "policy": ENUM_POLICY, "replay_op": "bc"})
    elif dif:
        seq, it, mt = min(dif, key=lambda d: len(d[0]))
        cand, bad = search_around(seq, ENUM_POLICY, which, rnd, len(seq) - 1)
        if cand:
            thm = bad[0][0]
            small = D.shrink(cand, failing_fn(thm, which, ENUM_POLICY))
            ck.violation({"kind": "monitor (found by searching around an exhaustive-enumeration difference)", "theorem": thm,
                          "message": bad[0][1], "events": D.jsonable(small), "policy": ENUM_POLICY, "replay_op": "bc"})
        else:
            ck.violation({"kind": "correspondence broken", "correspondence": "corr:brokerclient:" + label,
                          "theorems_no_longer_tied": tied, "events": D.jsonable(seq), "policy": ENUM_POLICY, "impl": it, "model": mt,
                          "differing_cases": st["differences"], "replay_op": "bc"}, no_input=True)
    if len(ck.cov["samples"]) < 8 and results:
        s = results[0]["sample"]
        ck.cov["samples"].append({"correspondence": label, "case": repr(s[0]), "impl": s[1][:200]})
    return st


def _shard_or_short(a):
    (prefixes, depth, alpha, which, exe, hook), short = a
    if prefixes is None:      # the sequences shorter than the split depth, not extended
        return _shard((short, 0, alpha, which, exe, hook)) if short else {"n": 0, "events": 0, "nmon": 0, "mon_first": None, "ndiff": 0, "diff_first": None, "sample": ([], ""), "pairs": []}
    return _shard((prefixes, depth, alpha, which, exe, hook))


# ------------------------------------------------------------------ replay
def replay_bc(rp, which=("C06", "C10")):
    import json
    events = D.unjson(rp["events"])
    pk = rp.get("policy", "const")
    recs = D.run_impl(events, pk)
    print("theorem:", rp.get("theorem"), "|", rp.get("message") or rp.get("kind"))
    for ev, c, outs, en in recs:
        print("  %-40r connected=%d %s%r" % (ev if ev[0] not in ("data", "frame") else (ev[0], list(ev[1])), c, "" if en else "(disabled) ", outs))
    bad = D.monitor(recs, which)
    print("monitor verdict now:", json.dumps(bad, default=repr))
    rc = 1 if bad else 0
    exe = os.path.join(vlib.OUT, "run_" + MODEL)
    if os.path.exists(exe):
        p = subprocess.run([exe], input=(vlib.encode_line(D.enc_case(events)) + "\n").encode(), stdout=subprocess.PIPE)
        mt = [int(x) for x in p.stdout.decode().split()]
        it = D.enc_trace(recs)
        print("implementation trace:", it)
        print("model trace         :", mt)
        if it != mt:
            print("traces differ (correspondence broken)")
            rc = 1
    return rc


# ------------------------------------------------------------------ endpoints whose connect() completes synchronously
# The model has no such event: its header argues that a synchronous outcome equals the asynchronous one delivered by
# the very next event.  This part CHECKS that argument on the real code: the implementation runs with connect()
# completing inside the call that made it (success or failure, chosen at random per attempt), the model runs the same
# history with EConnOk / EConnFail inserted right after the event that made the attempt, and the model's two segments
# are merged before the comparison.
def split_trace(tr):
    """flat model/impl trace -> list of [connected, [output ints...]] per event"""
    segs, i = [], 0
    while i < len(tr):
        t = tr[i]
        if t == 0:
            segs.append([tr[i + 1], []])
            i += 2
            continue
        if t in (1, 3, 9):
            n = 2
        elif t == 2 or t == 10:
            n = 3
        elif t == 7:
            n = 3 + ((1 + tr[i + 3]) if tr[i + 2] == 1 else 0)
        else:
            n = 1
        segs[-1][1] += tr[i:i + n]
        i += n
    return segs


class SyncImpl(D.Impl):
    def __init__(self, policy_kind, rnd, srnd, plan=None):
        D.Impl.__init__(self, policy_kind, rnd)
        self.srnd = srnd
        self.sync_used = []
        self.plan = plan          # fixed outcomes per event (corpus), else random
        self.pre = []             # per event, BEFORE it: (attempt pending, timer armed, transport live, closed)

    def apply(self, ev):
        self.pre.append((self.attempt() is not None, self.timer() is not None, self.transport() is not None, self.closed))
        if self.plan is not None:
            mode = self.plan.pop(0) if self.plan else None
        else:
            mode = self.srnd.choice(["ok", "ok", "fail", None])
        self.net.sync = mode
        n0 = len(self.net.attempts)
        rec = D.Impl.apply(self, ev)
        self.sync_used.append(mode if len(self.net.attempts) > n0 else None)
        self.net.sync = None
        return rec


class SyncGen(D.Gen):
    def _observe(self, rec):
        D.Gen._observe(self, rec)
        if self.im.sync_used and self.im.sync_used[-1] == "ok":
            self.wire = b""
            self.written = [o[2] for o in rec[2] if o[0] == "write"]


def closed_monitor(records, transport_live):
    """C10_close / C10_closed_forever restated for histories whose events cannot be told apart by D.monitor (synchronous
    connect outcomes): after close() returned - no connection attempt, timer or write ever again; every Deferred has
    fired; with no transport left the close Deferred has fired exactly once"""
    closed_at, ncf, fired, nh = None, 0, set(), 0
    for idx, (ev, _c, outs, en) in enumerate(records):
        if ev[0] == "make" and ("raised", 1) not in outs and en:
            nh += 1
        for o in outs:
            if o[0] == "def":
                fired.add(o[1])
            if o[0] == "closefired":
                ncf += 1
            if closed_at is not None and idx > closed_at and o[0] in ("connect", "sched", "write"):
                return ("C10_closed_forever", "%r after close() (event %d: %r)" % (o, idx, ev), idx)
        if ev[0] == "close" and en and ("raised", 2) not in outs and closed_at is None:
            closed_at = idx
    if closed_at is not None:
        left = [h for h in range(nh) if h not in fired]
        if left:
            return ("C10_close", "after close() the Deferreds %r never fired" % left, len(records))
        if not transport_live and ncf != 1:
            return ("C10_close", "no transport is left but the close Deferred fired %d times" % ncf, len(records))
    return None


def idle_monitor(im, pid):
    """a request made on an idle client (no connection, no attempt, no timer, not closed) must be written or start a
    connection attempt in that very call - otherwise it can never complete (C06: completes exactly once;
    C10_idle_connects_on_request / C10_never_stuck)"""
    for idx, ((ev, _c, outs, en), pre) in enumerate(zip(im.records, im.pre)):
        if ev[0] == "make" and en and ("raised", 1) not in outs and not any(pre):
            if not any(o[0] in ("connect", "write") for o in outs) and not any(o[0] == "def" for o in outs):
                return ("C06_exactly_once" if pid == "C06" else "C10_idle_connects_on_request",
                        "makeRequest(%d) on an idle client neither wrote the request nor started a connection attempt: its Deferred can never fire" % ev[1], idx)
    return None


SYNC_CORPUS = [
    # connect succeeds inside makeRequest, the reply comes, the connection drops while idle, then a new request / close()
    ([("make", 1, True), ("frame", D.reply(1)), ("lost",), ("make", 2, True), ("close",)], ["ok", None, None, None, None]),
    ([("make", 1, True), ("frame", D.reply(1)), ("lost",), ("make", 2, True), ("frame", D.reply(2)), ("close",), ("lost",)], ["ok", None, None, "ok", None, None, None]),
    ([("make", 1, True), ("frame", D.reply(1)), ("lost",), ("make", 2, False), ("fire",), ("close",)], ["ok", None, None, "fail", "ok", None]),
    ([("make", 1, True), ("cancel", 0), ("lost",), ("close",)], ["ok", None, None, None]),
    ([("make", 1, True), ("fire",), ("frame", D.reply(1)), ("lost",), ("make", 2, True)], ["fail", "ok", None, None, None]),
    # (events, synchronous outcome of the connect made by each event or None)
    ([("make", 1, True), ("close",), ("fire",), ("make", 2, True)], ["fail", None, None, None]),                 # close during back-off after a synchronous failure
    ([("make", 1, True), ("fire",), ("close",), ("fire",)], ["fail", "fail", None, None]),
    ([("make", 1, True), ("make", 2, False), ("lost",), ("close",), ("fire",)], ["ok", None, "fail", None, None]),
    ([("make", 1, True), ("fire",), ("frame", D.reply(1)), ("close",), ("lost",)], ["fail", "ok", None, None, None]),
]


def sync_connect_part(ck, rnd, n, tied):
    label = ("endpoint.connect() completing synchronously (ok/fail at random) vs Model.BrokerClientSync.srun (connect modes) "
             "and vs the asynchronous model with the outcome as the next event")
    cases, impl, evss = [], [], []
    mon_bad = None
    for i in range(n + 2 * len(SYNC_CORPUS)):
        if i < 2 * len(SYNC_CORPUS):
            pk = ("const", "const+cc")[i % 2]
            events, plan = SYNC_CORPUS[i // 2]
            im = SyncImpl(pk, None, None, list(plan))
            for ev in events:
                im.apply(ev)
            records = im.records

            class _G(object):
                pass
            g = _G()
            g.im = im
        else:
            pk = rnd.choice(POLICIES)
            g = SyncGen(rnd, profile=rnd.choice(["c10", "c06"]), length=rnd.choice([8, 20, 40, 70]), policy_kind=pk, end_close=rnd.random() < 0.3)
            g.im = SyncImpl(pk, rnd, rnd)
            events, records = g.run()
        cm = idle_monitor(g.im, ck.pid) or closed_monitor(records, g.im.transport() is not None)
        if cm and ck.pid == "C06" and cm[0].startswith("C10"):
            cm = ("C06_exactly_once", cm[1], cm[2])
        if cm and mon_bad is None:
            mon_bad = (cm, events, list(g.im.sync_used), pk)
        mev = []
        for ev, used in zip(events, g.im.sync_used):
            mev.append(ev)
            if used:
                mev.append((used,))
                ck.hist("sync_connect_" + used)
        cases.append(D.enc_case(mev))
        impl.append((D.enc_trace(records), g.im.sync_used))
        evss.append((events, pk))
    # (a) directly against the model with connect modes, Model/BrokerClientSync.v (one segment per event, no merging)
    scases = []
    for (events, _pk), (_it, used) in zip(evss, impl):
        line = []
        for ev, u in zip(events, used):
            line += [1 if u == "ok" else (2 if u == "fail" else 0)] + D.enc_event(ev)
        scases.append(line)
    smo = ck.model("brokerclientsync", scases)
    sdiff = [i for i, ((it, _u), mt) in enumerate(zip(impl, smo)) if it != mt]
    nco, nbad = ck.coq_sample("brokerclientsync", "Model.BrokerClientSync", list(zip(scases, smo)))
    if nbad:
        raise vlib.CheckAbort("extracted sync model and vm_compute disagree on %d of %d sampled cases" % (nbad, nco))
    # (b) against the asynchronous model with the outcome inserted as the next event (what C10_sync_run_is_async_run proves equal)
    mo = ck.model(MODEL, cases)
    ndiff, first = len(sdiff), (sdiff[0] if sdiff else None)
    for i, ((it, used), mt) in enumerate(zip(impl, mo)):
        isegs, msegs = split_trace(it), split_trace(mt)
        merged, j = [], 0
        for u in used:
            seg = [msegs[j][0], list(msegs[j][1])] if j < len(msegs) else [-1, []]
            j += 1
            if u and j < len(msegs):
                seg = [msegs[j][0], seg[1] + msegs[j][1]]
                j += 1
            merged.append(seg)
        if merged != isegs:
            ndiff += 1
            if first is None:
                first = i
    st = ck.cov["correspondence"].setdefault(label, {"cases": 0, "differences": 0, "in_coq_sample": 0})
    st["cases"] += len(cases)
    st["differences"] += ndiff
    st["in_coq_sample"] += nco
    ck.cov["evaluations"] += len(cases)
    if mon_bad is not None:
        (thm, msg, idx), events, used, pk = mon_bad
        ck.violation({"kind": "monitor: history with synchronously completing connect()", "theorem": thm, "message": msg,
                      "events": D.jsonable(events), "sync_outcomes": used, "policy": pk, "replay_op": "bc-sync"})
    elif first is not None:
        events, pk = evss[first]
        ck.violation({"kind": "correspondence broken", "correspondence": "corr:brokerclient:" + label, "theorems_no_longer_tied": tied,
                      "events": D.jsonable(events), "sync_outcomes": impl[first][1], "policy": pk, "impl": impl[first][0], "model": mo[first],
                      "differing_cases": ndiff, "replay_op": "bc-sync"}, no_input=True)
    return st


# ------------------------------------------------------------------ metamorphic monitor: C06_client_chunking_two on the implementation
def _flat(records):
    return [o for r in records for o in r[2]]


def rechunk(events, records, rnd):
    """the same history with every maximal run of consecutive (enabled) data/frame events re-cut at random"""
    new, run, have = [], b"", False

    def flush():
        nonlocal run, have
        if have:
            n = rnd.randint(1, 6)
            cuts = sorted(rnd.randint(0, len(run)) for _ in range(n - 1))
            prev = 0
            for c in cuts + [len(run)]:
                new.append(("data", run[prev:c]))
                prev = c
        run, have = b"", False
    for ev, rec in zip(events, records):
        if ev[0] in ("data", "frame") and rec[3]:
            run += bytes(ev[1]) if ev[0] == "data" else D.simnet.frame(bytes(ev[1]))
            have = True
        else:
            flush()
            new.append(ev)
    flush()
    return new


def rechunk_monitor(ck, items, rnd, limit=400):
    """receiving the same bytes in another chunking gives the same outputs in the same order (no abort in the history)"""
    n = 0
    for evs, recs, pk in items:
        if n >= limit:
            break
        if not any(ev[0] in ("data", "frame") for ev in evs):
            continue
        if any((o[0] == "raised" and o[1] == 4) or (o[0] == "lose" and r[0][0] in ("data", "frame")) for r in recs for o in r[2]):
            continue      # the receiver aborted: Twisted re-parses its whole buffer afterwards, chunking matters there (C06_length_limit)
        n += 1
        evs2 = rechunk(evs, recs, rnd)
        recs2 = D.run_impl(evs2, pk)
        if _flat(recs) != _flat(recs2) or (recs and recs2 and recs[-1][1] != recs2[-1][1]):
            ck.violation({"kind": "monitor: the same bytes in another chunking gave other outputs", "theorem": "C06_client_chunking_two",
                          "message": "outputs %r vs %r" % (_flat(recs)[:12], _flat(recs2)[:12]),
                          "events": D.jsonable(evs), "events_rechunked": D.jsonable(evs2), "policy": pk, "replay_op": "bc"})
            break
    ck.hist("rechunked_histories", n)


# ------------------------------------------------------------------ callbacks that re-enter the client
# A user callback on the Deferred of a reply-expecting request may call back into the broker client synchronously
# (close(), makeRequest(), cancel() of another request, disconnect()).  Such a Deferred fires in TAIL position of
# handleResponse (brokerclient.py:361), so by C06_client_chunking the re-entrant call must equal the same call made as
# the next event.  This part checks that on the real code: the implementation runs with hooks, the model runs the
# history with the hooked action inserted after the event in which the Deferred fired, segments are merged.
# (The only non-tail firing - callback(None) of a no-reply request inside _sendQueued - is probed separately: F-C10-1.)
class HookImpl(D.Impl):
    def __init__(self, policy_kind, rnd, hooks):
        D.Impl.__init__(self, policy_kind, rnd)
        self.hooks = hooks            # handle -> action (an event tuple) performed inside the success callback
        self.hook_fired = []          # (index of the event during which it ran, action): translated by insertion
        self.native = set()           # handles whose hook is part of the model's alphabet (HMakeThen): not translated
        self.native_fired = 0

    def apply(self, ev):
        """adds the event ("makethen", rid, action): makeRequest(rid, expectResponse=False) whose success callback
        performs `action` (Model/BrokerClientHook.v HMakeThen)"""
        if ev[0] != "makethen":
            return D.Impl.apply(self, ev)
        h = len(self.handles)
        self.hooks[h] = ev[2]
        self.native.add(h)
        rec = D.Impl.apply(self, ("make", ev[1], False))
        if len(self.handles) == h:
            self.hooks.pop(h, None)
            self.native.discard(h)
        rec = (ev,) + tuple(rec[1:])
        self.records[-1] = rec
        return rec

    def _watch(self, d, h):
        D.Impl._watch(self, d, h)
        act = self.hooks.get(h)
        if act is None:
            return

        def cb(result):
            # Impl._watch's errback returns None, so this runs after failures too: act on successes only
            code = next((e[2] for e in reversed(self.log) if e[0] == "def" and e[1] == h), None)
            if code not in (1, 2):
                return result
            if h in self.native:
                self.native_fired += 1
            else:
                self.hook_fired.append((len(self.records), act))
            try:
                self._dispatch(act, act[0], self.enabled(act), self.log)
            except Exception as e:
                self.last_exc = repr(e)
                self.log.append(("raised", 99))
            return result
        d.addCallback(cb)


def run_hooked(events, hooks, pk="const"):
    im = HookImpl(pk, None, dict(hooks))
    for ev in events:
        im.apply(ev)
    return im


def enc_hcase(events, guard=1):
    """case line of Model/BrokerClientHook.v"""
    out = [guard]
    for ev in events:
        if ev[0] == "makethen":
            a = ev[2]
            out += [12, ev[1], 1, 0] if a[0] == "close" else [12, ev[1], 2, a[1]]
        else:
            out += D.enc_event(ev)
    return out


def hooked_history(rnd, length, native=False):
    hooks = {}
    pk = rnd.choice(["const", "const+cc"])
    im = HookImpl(pk, None, hooks)
    im.pk = pk
    events, nxt, extra = [], 1, 1000
    for _ in range(length):
        opts = [("make", 25.0 if (im.transport() or not native) else 70.0)]
        if im.handles:
            opts.append(("cancel", 8.0))
        if im.attempt():
            opts += [("ok", 30.0), ("fail", 6.0)]
        if im.timer():
            opts.append(("fire", 20.0))
        if im.transport():
            opts += [("frame", 30.0), ("lost", 4.0), ("disc", 1.5)]
        opts.append(("close", 0.8))
        x = rnd.uniform(0, sum(w for _, w in opts))
        for kind, w in opts:
            x -= w
            if x <= 0:
                break
        if kind == "make":
            rid = rnd.choice(im.rids) if im.rids and rnd.random() < 0.05 else nxt
            nxt += 1
            expect = rnd.random() > (0.4 if native else 0.15)
            ev = ("make", rid, expect)
            h = len(im.handles)
            if native and not expect and rnd.random() < 0.75:
                ev = ("makethen", rid, ("close",) if rnd.random() < 0.2 else ("cancel", rnd.randint(0, h + 3)))
            if expect and rnd.random() < (0.2 if native else 0.6):
                r = rnd.random()
                if r < 0.2:
                    act = ("close",)
                elif r < 0.5:
                    extra += 1
                    act = ("make", extra if rnd.random() < 0.8 else rid, rnd.random() > 0.3)
                elif r < 0.85:
                    act = ("cancel", rnd.randint(0, h + 2))
                else:
                    act = ("disc",)
                hooks[h] = act
            im.apply(ev)
            if len(im.handles) == h:
                hooks.pop(h, None)
        elif kind == "cancel":
            ev = ("cancel", rnd.randrange(len(im.handles)))
            im.apply(ev)
        elif kind == "frame":
            rid = rnd.choice(im.rids) if im.rids and rnd.random() < 0.85 else 77
            ev = ("frame", D.reply(rid, bytes(rnd.randint(0, 255) for _ in range(rnd.choice([0, 2, 5])))))
            im.apply(ev)
        else:
            ev = (kind,)
            im.apply(ev)
        events.append(ev)
    return events, dict(hooks), im


def generic_monitor(records, pid="C10"):
    """statements that hold for EVERY history, re-entrant callbacks included: no Deferred fires twice
    (C06_exactly_once), nothing is written for a request whose Deferred has fired (C06_nothing_after_fired /
    C10_never_resent), no exception escapes that no legal behaviour includes"""
    fired = {}
    for idx, (ev, _c, outs, _en) in enumerate(records):
        for o in outs:
            if o[0] == "def":
                if o[1] in fired:
                    return ("C06_exactly_once" if pid == "C06" else "C10_reentrant_reachable", "Deferred %d fired twice" % o[1], idx)
                fired[o[1]] = o[2]
            elif o == ("raised", 5):
                return ("C06_exactly_once" if pid == "C06" else "C10_reentrant_reachable", "cancel() raised KeyError out of the canceller", idx)
            elif o[0] == "write" and o[1] in fired:
                return ("C06_nothing_after_fired" if pid == "C06" else "C10_never_resent", "request of handle %d written after its Deferred fired (code %d: 2 None, 3 cancelled, 4 closed)" % (o[1], fired[o[1]]), idx)
            elif o == ("raised", 99):
                return ("C06_exactly_once" if pid == "C06" else "C10_reentrant_reachable", "an exception escaped that no legal behaviour includes", idx)
    return None


def merge_segments(model_trace, counts):
    msegs, merged, j = split_trace(model_trace), [], 0
    for n in counts:
        seg = [msegs[j][0], list(msegs[j][1])] if j < len(msegs) else [-1, []]
        j += 1
        for _ in range(n):
            if j < len(msegs):
                seg = [msegs[j][0], seg[1] + msegs[j][1]]
                j += 1
        merged.append(seg)
    return merged


def hooked_model_case(events, hook_fired):
    mev, counts = [], []
    for i, ev in enumerate(events):
        mev.append(ev)
        acts = [a for (idx, a) in hook_fired if idx == i]
        mev += acts
        counts.append(len(acts))
    return mev, counts


def reentrant_part(ck, rnd, n, tied, native=False):
    label = "callbacks re-entering the client (close/makeRequest/cancel/disconnect from a reply callback) vs the model with the call as the next event"
    if native:
        label = ("close()/cancel() from the callback of a NO-REPLY request, fired in the middle of _sendQueued (Model/BrokerClientHook.v HMakeThen), "
                 "plus re-entrant reply callbacks")
    cases, metas = [], []
    for _ in range(n):
        events, hooks, im = hooked_history(rnd, rnd.choice([10, 25, 50]), native)
        mev, counts = hooked_model_case(events, im.hook_fired)
        cases.append(enc_hcase(mev) if native else D.enc_case(mev))
        metas.append((events, hooks, im.records, counts, len(im.hook_fired) + im.native_fired, im.pk))
        ck.hist("reentrant_calls", len(im.hook_fired))
        ck.hist("reentrant_calls_from_no_reply_callbacks", im.native_fired)
        for _i, a in im.hook_fired:
            ck.hist("reentrant_" + a[0])
    mo = ck.model("brokerclienthook" if native else MODEL, cases)
    ndiff, first, raised = 0, None, None
    for i, ((events, hooks, records, counts, _nf, _pk), mt) in enumerate(zip(metas, mo)):
        if raised is None and generic_monitor(records, ck.pid):
            raised = i
        if merge_segments(mt, counts) != split_trace(D.enc_trace(records)):
            ndiff += 1
            if first is None:
                first = i
    st = ck.cov["correspondence"].setdefault(label, {"cases": 0, "differences": 0, "in_coq_sample": 0})
    st["cases"] += n
    st["differences"] += ndiff
    ck.cov["evaluations"] += n
    for c, m in zip(cases, metas):
        if m[4]:
            ck._distinct.add(vlib.hashlib.sha1(vlib.encode_line(c).encode()).digest()[:8])
    if raised is not None:
        events, hooks, records, counts, _nf, pk = metas[raised]

        thm0 = generic_monitor(records, ck.pid)[0]

        def failing(evs):
            g = generic_monitor(run_hooked(evs, hooks, pk).records, ck.pid)
            return bool(g) and g[0] == thm0
        # dropping events renumbers handles, so only a suffix is cut off
        small = list(events)
        while len(small) > 1 and failing(small[:-1]):
            small = small[:-1]
        im = run_hooked(small, hooks, pk)
        g = generic_monitor(im.records, ck.pid)
        ck.violation({"kind": "monitor: a call made from inside a Deferred callback breaks the theorem",
                      "theorem": g[0], "message": g[1] + ("; exception %s" % im.last_exc if hasattr(im, "last_exc") else ""),
                      "events": D.jsonable(small), "hooks": {str(k): D.jsonable([v])[0] for k, v in hooks.items() if k < len(im.handles)}, "policy": pk,
                      "impl_outputs": [[D.jsonable([o])[0] for o in r[2]] for r in im.records], "replay_op": "bc-hook"})
    elif first is not None:
        events, hooks, records, counts, _nf, pk = metas[first]
        ck.violation({"kind": "correspondence broken", "correspondence": "corr:brokerclient:" + label, "theorems_no_longer_tied": tied,
                      "events": D.jsonable(events), "hooks": {str(k): D.jsonable([v])[0] for k, v in hooks.items()}, "policy": pk,
                      "impl": D.enc_trace(records), "model": mo[first], "differing_cases": ndiff, "replay_op": "bc-hook"}, no_input=True)
    return st


def replay_hook(rp):
    events = D.unjson(rp["events"])
    hooks = {int(k): tuple(v) for k, v in rp["hooks"].items()}
    im = run_hooked(events, hooks, rp.get("policy", "const"))
    print(rp.get("kind"), "|", rp.get("message", ""))
    print("hooks (handle -> call made inside its success callback):", hooks)
    bad = 0
    for ev, c, outs, en in im.records:
        print("  %-40r connected=%d %r" % (ev if ev[0] not in ("data", "frame") else (ev[0], list(ev[1])), c, outs))
        bad += sum(1 for o in outs if o == ("raised", 99))
    g = generic_monitor(im.records, rp.get("property", "C10"))
    print("monitor verdict now:", g)
    bad += 1 if g else 0
    mev, counts = hooked_model_case(events, im.hook_fired)
    native = False
    exe = os.path.join(vlib.OUT, "run_" + ("brokerclienthook" if native else MODEL))
    if os.path.exists(exe):
        p = subprocess.run([exe], input=(vlib.encode_line(enc_hcase(mev) if native else D.enc_case(mev)) + "\n").encode(), stdout=subprocess.PIPE)
        mt = [int(x) for x in p.stdout.decode().split()]
        if merge_segments(mt, counts) != split_trace(D.enc_trace(im.records)):
            print("differs from the model run with the calls as next events:", mt)
            bad += 1
    return 1 if bad else 0


# ------------------------------------------------------------------ F-C10-1 probe
def probe_f_c10_1():
    """close() from the callback of a no-reply request while _sendQueued flushes the queue: is a request written after
    close() failed its Deferred?  returns (observed, events, hooks, outputs of the connect event)"""
    events = [("make", 1, False), ("make", 2, True), ("ok",)]
    hooks = {"0": [["close"]]}
    im = run_tree(events, hooks, "const")
    outs = im.records[-1][2]
    seen_def = False
    observed = False
    for o in outs:
        if o[0] == "def" and o[1] == 1:
            seen_def = True
        if (o[0] == "write" and o[1] == 1 and seen_def) or o == ("raised", 99):
            observed = True
    return observed, events, hooks, outs


# ------------------------------------------------------------------ user code inside the two loops (Model/BrokerClientHook.v)
# Every request may carry a hook: a list of calls (cancel h / make rid expect / disc / close) its callback AND errback
# make when the Deferred fires, whatever the outcome.  The driver records WHERE each hook ran:
#   - directly inside _sendQueued's loop (a no-reply request completing) or close()'s loop (errback): the calls become the
#     interleaving parameter of the model event IConnOk / IClose (nested: a close() made from inside the flush has a loop
#     of its own);
#   - anywhere else the Deferred fired in tail position: the calls are inserted as the next events (calls made by hooks
#     that fire as a consequence of a call are appended right after that call).
# close() fails the pending requests newest first in the model; the property does not fix the order.  Where no user code
# runs inside close() the driver sorts the firings into the model's order; where user code runs inside the loop the
# outcome legitimately depends on the order, so such a case is compared with the model only if the implementation
# failed the requests newest first, and is always subject to the order-independent monitors.
class TreeImpl(D.Impl):
    def __init__(self, pk, hooks):
        D.Impl.__init__(self, pk, None)
        self.hooks = hooks
        self.frames = []
        self.inserted = []
        self.mevents = []
        self.nloop = {"flush": 0, "close": 0}
        self.ntail = 0
        self.order_ok = True

    def _watch(self, d, h):
        D.Impl._watch(self, d, h)
        acts = self.hooks.get(h)
        if not acts:
            return

        def cb(result):       # Impl._watch's errback returns None, so this runs whatever the outcome was
            self._fire_hook(h, [a for a in acts if a[0] != "raise"])
            if any(a[0] == "raise" for a in acts):
                # user code that RAISES inside its callback: Twisted turns it into a failure of the Deferred's chain;
                # the broker client must be unaffected (the model has no event for it: the traces must still agree)
                self.nraise = getattr(self, "nraise", 0) + 1
                raise RuntimeError("user callback raises")
            return result
        d.addCallback(cb)
        d.addErrback(lambda f: None)      # keep the garbage collector from reporting the unhandled user error

    def _fire_hook(self, h, acts):
        fr = self.frames[-1] if self.frames else None
        if fr is not None and fr["cur"] is None:
            fr["cur"] = []
            fr["groups"].append((h, fr["cur"]))
            self.nloop[fr["kind"]] += 1
            try:
                self._run_acts(acts, fr["cur"])
            finally:
                fr["cur"] = None
        else:
            self.ntail += 1
            self._run_acts(acts, fr["cur"] if fr is not None else self.inserted)

    def _run_acts(self, acts, sink):
        for a in acts:
            try:
                if a[0] == "close" and not any(f["kind"] == "close" for f in self.frames):
                    fr2 = {"kind": "close", "groups": [], "cur": None, "n0": len(self.handles), "i0": len(self.log), "tomb": self._tombs()}
                    sink.append(("closeI", fr2["groups"]))
                    self.frames.append(fr2)
                    try:
                        self._dispatch(a, "close", True, self.log)
                    finally:
                        self.frames.pop()
                        self._check_order(fr2)
                else:
                    sink.append(("close0",) if a[0] == "close" else a)
                    self._dispatch(a, a[0], self.enabled(a), self.log)
            except Exception as e:
                self.last_exc = repr(e)
                self.log.append(("raised", 99))

    def _tombs(self):
        """may the table hold a tombstone now?  (a Deferred cancelled while a connection was up, since that connection came up)"""
        if self.transport() is None:
            return False
        seen = any(e[0] == "def" and e[2] == 3 for e in self.log)
        for ev, _c, outs, en in reversed(self.records):
            if seen:
                break
            if ev[0] == "ok" and en:
                break
            seen = any(o[0] == "def" and o[2] == 3 for o in outs)
        return seen

    def _check_order(self, fr, nrec=None):
        """did this close() (with user code inside its loop) fail the requests newest first?  i.e. whenever the loop
        failed handle h, no newer request that existed when close() started was still pending"""
        if not fr["groups"]:
            return
        if fr["tomb"]:          # a tombstone is popped silently: where it stood in the order cannot be observed
            self.order_ok = False
            return
        recs = self.records if nrec is None else self.records[:nrec]
        fired = {o[1] for r in recs for o in r[2] if o[0] == "def"}
        for k, e in enumerate(self.log):
            if e[0] != "def":
                continue
            if k >= fr["i0"] and e[2] == 4 and e[1] < fr["n0"] and any(h2 not in fired for h2 in range(e[1] + 1, fr["n0"])):
                self.order_ok = False
            fired.add(e[1])

    def _sort_close(self, log, i0):
        fr = self.frames[-1] if self.frames else None
        if fr is not None and fr["kind"] == "close" and fr["groups"]:
            return            # user code ran inside the loop: the order is part of what happened
        D.Impl._sort_close(self, log, i0)

    def apply(self, ev):
        self.inserted = []
        fr = None
        if ev[0] in ("ok", "close") and self.enabled(ev):
            fr = {"kind": "flush" if ev[0] == "ok" else "close", "groups": [], "cur": None, "n0": len(self.handles), "i0": 0, "tomb": self._tombs()}
            self.frames.append(fr)
        try:
            rec = D.Impl.apply(self, ev)
        finally:
            if fr is not None:
                self.frames.pop()
        head = ev
        if fr is not None and fr["groups"]:
            head = ("okI" if ev[0] == "ok" else "closeI", fr["groups"])
            if ev[0] == "close":
                self._check_order(fr, len(self.records) - 1)
        self.mevents.append([head] + self.inserted)
        return rec


def enc_call(c):
    if c[0] == "cancel":
        return [1, c[1]]
    if c[0] == "make":
        return [2, c[1], 1 if c[2] else 0]
    if c[0] == "disc":
        return [3]
    if c[0] == "close0":
        return [4]
    if c[0] == "closeI":
        return [5] + enc_inter(c[1])
    raise ValueError(c)


def enc_inter(groups):
    out = [len(groups)]
    for h, calls in groups:
        out += [h, len(calls)]
        for c in calls:
            out += enc_call(c)
    return out


def enc_icase(mevents, guard=1):
    """case line of Model/BrokerClientHook.v; also returns how many model events follow each driver event"""
    out, counts = [guard], []
    for group in mevents:
        counts.append(len(group) - 1)
        for e in group:
            if e[0] == "okI":
                out += [13] + enc_inter(e[1])
            elif e[0] == "closeI":
                out += [14] + enc_inter(e[1])
            elif e[0] == "close0":
                out += [9]
            else:
                out += D.enc_event(e)
    return out, counts


def tokens(outs):
    """flat output ints of one segment -> list of per-output int lists"""
    toks, i = [], 0
    while i < len(outs):
        t = outs[i]
        if t in (1, 3, 9):
            n = 2
        elif t in (2, 10):
            n = 3
        elif t == 7:
            n = 3 + ((1 + outs[i + 3]) if outs[i + 2] == 1 else 0)
        else:
            n = 1
        toks.append(outs[i:i + n])
        i += n
    return toks


def merge_canon(model_trace, counts):
    """merge the model's segments per driver event; the close Deferred's firing goes last, as in the driver's trace"""
    out = []
    for conn, outs in merge_segments(model_trace, counts):
        tk = tokens(outs)
        out.append([conn, [x for t in tk if t != [8] for x in t] + [x for t in tk if t == [8] for x in t]])
    return out


def gen_hooks(rnd, nmax=48):
    hooks, extra = {}, [2000]

    def call(h):
        r = rnd.random()
        if r < 0.45:
            return ("cancel", rnd.randint(0, h + 4))
        if r < 0.8:
            extra[0] += 1
            return ("make", extra[0] if rnd.random() < 0.7 else rnd.randint(1, 12), rnd.random() < 0.7)
        if r < 0.9:
            return ("disc",)
        return ("close",)
    for h in range(nmax):
        r = rnd.random()
        if r < 0.42:
            hooks[h] = [call(h) for _ in range(rnd.choice([1, 1, 2, 3]))]
        elif r < 0.49:       # user code that raises, alone or after its calls
            hooks[h] = ([call(h)] if rnd.random() < 0.5 else []) + [("raise",)]
        elif r < 0.60:       # cancel a request and re-issue its correlation id (top-level ids are handed out 1, 2, 3, ..)
            h2 = rnd.randint(max(0, h - 3), h + 4)
            hooks[h] = [("cancel", h2), ("make", h2 + 1 + rnd.choice([0, 0, 0, -1, 1]), rnd.random() < 0.8)]
    return hooks


def tree_history(rnd, length, hooks=None, pk=None):
    hooks = gen_hooks(rnd) if hooks is None else hooks
    pk = pk or rnd.choice(["const", "const+cc"])
    im = TreeImpl(pk, hooks)
    im.pk = pk
    events, nxt = [], 1
    for _ in range(length):
        opts = [("make", 25.0 if im.transport() else 60.0)]
        if im.handles:
            opts.append(("cancel", 8.0))
        if im.attempt():
            opts += [("ok", 30.0), ("fail", 6.0)]
        if im.timer():
            opts.append(("fire", 20.0))
        if im.transport():
            opts += [("frame", 30.0), ("lost", 4.0), ("disc", 1.5)]
        opts.append(("close", 3.0 if not im.closed else 0.5))
        x = rnd.uniform(0, sum(w for _, w in opts))
        for kind, w in opts:
            x -= w
            if x <= 0:
                break
        if kind == "make":
            rid = rnd.choice(im.rids) if im.rids and rnd.random() < 0.05 else nxt
            nxt += 1
            ev = ("make", rid, rnd.random() > 0.35)
        elif kind == "cancel":
            ev = ("cancel", rnd.randrange(len(im.handles)))
        elif kind == "frame":
            rid = rnd.choice(im.rids) if im.rids and rnd.random() < 0.85 else 77
            ev = ("frame", D.reply(rid, bytes(rnd.randint(0, 255) for _ in range(rnd.choice([0, 2, 5])))))
        else:
            ev = (kind,)
        im.apply(ev)
        events.append(ev)
    return events, hooks, im


def tree_monitor(im, pid):
    g = generic_monitor(im.records, pid)
    if g:
        return g
    if im.closed:
        fired = {o[1] for r in im.records for o in r[2] if o[0] == "def"}
        left = [h for h in range(len(im.handles)) if h not in fired]
        if left:
            return ("C06_exactly_once" if pid == "C06" else "C10_reentrant_close_all_fired",
                    "after close() the Deferreds %r never fired" % left, len(im.records))
    return None


def run_tree(events, hooks, pk):
    im = TreeImpl(pk, {int(k): [tuple(a) for a in v] for k, v in hooks.items()})
    im.pk = pk
    for ev in events:
        im.apply(ev)
    return im


def tree_part(ck, rnd, n, tied):
    label = ("user callbacks/errbacks calling cancel/makeRequest/disconnect/close from inside _sendQueued's loop, close()'s loop and "
             "from tail positions vs Model.BrokerClientHook.irun (IConnOk / IClose interleavings)")
    cases, metas = [], []
    for _ in range(n):
        events, hooks, im = tree_history(rnd, rnd.choice([8, 15, 30, 50]))
        case, counts = enc_icase(im.mevents)
        cases.append(case)
        metas.append((events, hooks, im, counts))
        ck.hist("calls_inside_sendQueued_loop", im.nloop["flush"])
        ck.hist("calls_inside_close_loop", im.nloop["close"])
        ck.hist("calls_from_tail_callbacks", im.ntail)
        ck.hist("user_callbacks_that_raise", getattr(im, "nraise", 0))
    mo = ck.model("brokerclienthook", cases)
    ndiff, first, bad, skipped, skipdiff = 0, None, None, 0, 0
    for i, ((events, hooks, im, counts), mt) in enumerate(zip(metas, mo)):
        if bad is None and tree_monitor(im, ck.pid):
            bad = i
        same = merge_canon(mt, counts) == split_trace(D.enc_trace(im.records))
        if not im.order_ok:
            # user code ran inside a close() loop whose order of failing cannot be told to be the model's (newest first):
            # the outcome may legitimately depend on that order, so a difference here is recorded, not reported
            skipped += 1
            skipdiff += 0 if same else 1
            continue
        if not same:
            ndiff += 1
            if first is None:
                first = i
    st = ck.cov["correspondence"].setdefault(label, {"cases": 0, "differences": 0, "in_coq_sample": 0,
                                                     "close_order_dependent_cases": 0, "close_order_dependent_differences_not_reported": 0})
    st["cases"] += n
    st["differences"] += ndiff
    st["close_order_dependent_cases"] += skipped
    st["close_order_dependent_differences_not_reported"] += skipdiff
    ck.cov["evaluations"] += n
    for c, m in zip(cases, metas):
        if m[2].nloop["flush"] + m[2].nloop["close"] + m[2].ntail:
            ck._distinct.add(vlib.hashlib.sha1(vlib.encode_line(c).encode()).digest()[:8])
    # a sample of these lines is re-evaluated inside Coq as well
    pairs = [(c, o) for c, o in zip(cases, mo)]
    nco, nbad = ck.coq_sample("brokerclienthook", "Model.BrokerClientHook", pairs)
    if nbad:
        raise vlib.CheckAbort("extracted hook model and vm_compute disagree on %d of %d sampled cases" % (nbad, nco))
    st["in_coq_sample"] += nco

    def used(hooks, im):
        return {str(k): [list(a) for a in v] for k, v in hooks.items() if k < len(im.handles)}
    if bad is not None:
        events, hooks, im, counts = metas[bad]
        thm0 = tree_monitor(im, ck.pid)[0]
        small = list(events)
        while len(small) > 1:
            g = tree_monitor(run_tree(small[:-1], hooks, im.pk), ck.pid)
            if not (g and g[0] == thm0):
                break
            small = small[:-1]
        im2 = run_tree(small, hooks, im.pk)
        g = tree_monitor(im2, ck.pid)
        ck.violation({"kind": "monitor: a call made by user code from inside a Deferred callback breaks the theorem", "theorem": g[0],
                      "message": g[1] + ("; exception %s" % im2.last_exc if hasattr(im2, "last_exc") else ""),
                      "events": D.jsonable(small), "hooks": used(hooks, im2), "policy": im.pk,
                      "impl_outputs": [[D.jsonable([o])[0] for o in r[2]] for r in im2.records], "replay_op": "bc-tree"})
    elif first is not None:
        events, hooks, im, counts = metas[first]
        ck.violation({"kind": "correspondence broken", "correspondence": "corr:brokerclienthook:" + label, "theorems_no_longer_tied": tied,
                      "events": D.jsonable(events), "hooks": used(hooks, im), "policy": im.pk,
                      "impl": D.enc_trace(im.records), "model": mo[first], "differing_cases": ndiff, "replay_op": "bc-tree"}, no_input=True)
    return st


def replay_tree(rp):
    events = D.unjson(rp["events"])
    im = run_tree(events, rp["hooks"], rp.get("policy", "const"))
    print(rp.get("kind"), "|", rp.get("message", ""))
    print("hooks (handle -> calls made by its callback/errback when the Deferred fires):", rp["hooks"])
    for (ev, c, outs, en), me in zip(im.records, im.mevents):
        print("  %-36r connected=%d %r" % (ev if ev[0] not in ("data", "frame") else (ev[0], list(ev[1])), c, outs))
        if me != [ev]:
            print("      model events: %r" % (me,))
    g = tree_monitor(im, rp.get("property", "C10"))
    print("monitor verdict now:", g)
    rc = 1 if g else 0
    exe = os.path.join(vlib.OUT, "run_brokerclienthook")
    if os.path.exists(exe) and im.order_ok:
        case, counts = enc_icase(im.mevents)
        p = subprocess.run([exe], input=(vlib.encode_line(case) + "\n").encode(), stdout=subprocess.PIPE)
        mt = [int(x) for x in p.stdout.decode().split()]
        if merge_canon(mt, counts) != split_trace(D.enc_trace(im.records)):
            print("differs from the model:", mt)
            rc = 1
    return rc


# ------------------------------------------------------------------ the sendString-raises path (brokerclient.py:370-373), outside the model
def probe_send_raises():
    """makeRequest with a payload that makes sendString raise (a str instead of bytes) on a live connection: the entry
    must be dropped and the Deferred must fail with that exception, once; the id is free again; close() still works.
    returns a list of complaints (empty = as expected)"""
    im = D.Impl("const")
    c = im.client
    bad, seen = [], {"d1": [], "d2": [], "d3": []}
    d1 = c.makeRequest(1, im.payload(0, 1), True)
    d1.addBoth(lambda r: seen["d1"].append(type(getattr(r, "value", r)).__name__))
    im.attempt().accept()
    try:
        d2 = c.makeRequest(2, "not bytes", True)
    except Exception as e:
        return ["makeRequest raised %r instead of returning a failed Deferred" % (e,)]
    d2.addBoth(lambda r: seen["d2"].append(type(getattr(r, "value", r)).__name__))
    if seen["d2"] != ["TypeError"]:
        bad.append("Deferred of the unsendable request: outcomes %r, expected one TypeError" % seen["d2"])
    try:
        d3 = c.makeRequest(2, im.payload(2, 2), True)
        d3.addBoth(lambda r: seen["d3"].append(type(getattr(r, "value", r)).__name__))
    except Exception as e:
        bad.append("id of the unsendable request still blocked: %r" % (e,))
    try:
        c.close()
    except Exception as e:
        bad.append("close() raised %r" % (e,))
    if seen["d1"] != ["ClientError"] or (seen["d3"] and seen["d3"] != ["ClientError"]):
        bad.append("after close(): outcomes %r" % seen)
    if len(seen["d2"]) != 1:
        bad.append("unsendable request completed %d times" % len(seen["d2"]))
    return bad


# ------------------------------------------------------------------ sendString raising inside _sendRequest (Model/BrokerClientWrite.v)
class WriteImpl(D.Impl):
    """adds the event ("makebad", rid, expect): makeRequest with a str payload - `pack(..) + string` raises TypeError
    every time the request is written (on a live connection at once, otherwise when the queue is flushed)"""

    def _watch(self, d, h):
        from afkak.common import ClientError
        from twisted.internet.defer import CancelledError

        def cb(result):
            self.log.append(("def", h, 2, None) if result is None else (("def", h, 1, result) if isinstance(result, bytes) else ("def", h, 99, None)))

        def eb(f):
            code = 3 if f.check(CancelledError) else (4 if f.check(ClientError) else (5 if f.check(TypeError) else 99))
            self.log.append(("def", h, code, None))
        d.addCallbacks(cb, eb)

    def apply(self, ev):
        if ev[0] != "makebad":
            return D.Impl.apply(self, ev)
        real = self.payload
        self.payload = lambda h, rid: "unsendable-%d-%d" % (h, rid)        # str, not bytes
        try:
            rec = D.Impl.apply(self, ("make", ev[1], ev[2]))
        finally:
            self.payload = real
        rec = (ev,) + tuple(rec[1:])
        self.records[-1] = rec
        return rec


def enc_wcase(events):
    out = []
    for ev in events:
        out += [15, ev[1], 1 if ev[2] else 0] if ev[0] == "makebad" else D.enc_event(ev)
    return out


def write_history(rnd, length, pk):
    im = WriteImpl(pk, None)
    events, nxt = [], 1
    for _ in range(length):
        opts = [("make", 25.0 if im.transport() else 50.0)]
        if im.handles:
            opts.append(("cancel", 8.0))
        if im.attempt():
            opts += [("ok", 30.0), ("fail", 6.0)]
        if im.timer():
            opts.append(("fire", 20.0))
        if im.transport():
            opts += [("frame", 30.0), ("lost", 6.0), ("disc", 1.5)]
        opts.append(("close", 1.0))
        x = rnd.uniform(0, sum(w for _, w in opts))
        for kind, w in opts:
            x -= w
            if x <= 0:
                break
        if kind == "make":
            rid = rnd.choice(im.rids) if im.rids and rnd.random() < 0.08 else nxt
            nxt += 1
            ev = ("makebad" if rnd.random() < 0.3 else "make", rid, rnd.random() > 0.25)
        elif kind == "cancel":
            ev = ("cancel", rnd.randrange(len(im.handles)))
        elif kind == "frame":
            rid = rnd.choice(im.rids) if im.rids and rnd.random() < 0.85 else 77
            ev = ("frame", D.reply(rid, bytes(rnd.randint(0, 255) for _ in range(rnd.choice([0, 2, 5])))))
        else:
            ev = (kind,)
        im.apply(ev)
        events.append(ev)
    return events, im


def write_monitor(records, pid):
    """generic discipline + what the write failure must look like: the Deferred of an unsendable request fails with the
    exception exactly once, is never written, and nothing else fires in its place"""
    g = generic_monitor(records, pid)
    if g:
        return g
    bad_handles, nh = set(), 0
    for idx, (ev, _c, outs, en) in enumerate(records):
        if ev[0] in ("make", "makebad") and ("raised", 1) not in outs:
            if ev[0] == "makebad":
                bad_handles.add(nh)
            nh += 1
        for o in outs:
            if o[0] == "write" and o[1] in bad_handles:
                return ("C06_write_failure" if pid == "C06" else "C10_write_failure_never_resent", "bytes of an unsendable request (handle %d) were written" % o[1], idx)
            if o[0] == "def" and o[2] == 5 and o[1] not in bad_handles:
                return ("C06_write_failure" if pid == "C06" else "C10_write_failure_never_resent", "a sendable request (handle %d) failed with the write exception" % o[1], idx)
    return None


def write_part(ck, rnd, n, tied):
    label = "sendString raising inside _sendRequest (str payload), on a live connection and during the queue flush, vs Model.BrokerClientWrite.wrun"
    cases, impl, metas, bad = [], [], [], None
    for _ in range(n):
        pk = rnd.choice(["const", "const+cc"])
        events, im = write_history(rnd, rnd.choice([8, 15, 30, 60]), pk)
        cases.append(enc_wcase(events))
        impl.append(D.enc_trace(im.records))
        metas.append((events, pk, im.records))
        ck.hist("unsendable_requests", sum(1 for e in events if e[0] == "makebad"))
        ck.hist("write_failures", sum(1 for r in im.records for o in r[2] if o[0] == "def" and o[2] == 5))
        if bad is None and write_monitor(im.records, ck.pid):
            bad = len(metas) - 1
    mo = ck.model("brokerclientwrite", cases)
    diffs = [i for i, (a, b) in enumerate(zip(impl, mo)) if a != b]
    nco, nbad = ck.coq_sample("brokerclientwrite", "Model.BrokerClientWrite", list(zip(cases, mo)))
    if nbad:
        raise vlib.CheckAbort("extracted write model and vm_compute disagree on %d of %d sampled cases" % (nbad, nco))
    st = ck.cov["correspondence"].setdefault(label, {"cases": 0, "differences": 0, "in_coq_sample": 0})
    st["cases"] += n
    st["differences"] += len(diffs)
    st["in_coq_sample"] += nco
    ck.cov["evaluations"] += n
    for c, m in zip(cases, metas):
        if any(o[0] == "def" and o[2] == 5 for r in m[2] for o in r[2]):
            ck._distinct.add(vlib.hashlib.sha1(vlib.encode_line(c).encode()).digest()[:8])

    def rerun(evs, pk):
        im = WriteImpl(pk, None)
        for ev in evs:
            im.apply(ev)
        return im.records
    if bad is not None:
        events, pk, recs = metas[bad]
        thm0 = write_monitor(recs, ck.pid)[0]
        small = D.shrink(events, lambda e: (write_monitor(rerun(e, pk), ck.pid) or [None])[0] == thm0)
        g = write_monitor(rerun(small, pk), ck.pid)
        ck.violation({"kind": "monitor: request whose write raises", "theorem": g[0], "message": g[1], "events": D.jsonable(small),
                      "policy": pk, "impl_outputs": [[D.jsonable([o])[0] for o in r[2]] for r in rerun(small, pk)], "replay_op": "bc-write"})
    elif diffs:
        events, pk, recs = metas[diffs[0]]
        small = D.shrink(events, lambda e: D.enc_trace(rerun(e, pk)) != ck.model("brokerclientwrite", [enc_wcase(e)])[0], budget=150)
        ck.violation({"kind": "correspondence broken", "correspondence": "corr:brokerclientwrite:" + label, "theorems_no_longer_tied": tied,
                      "events": D.jsonable(small), "policy": pk, "impl": D.enc_trace(rerun(small, pk)),
                      "model": ck.model("brokerclientwrite", [enc_wcase(small)])[0], "differing_cases": len(diffs), "replay_op": "bc-write"}, no_input=True)
    return st


def replay_write(rp):
    events = D.unjson(rp["events"])
    im = WriteImpl(rp.get("policy", "const"), None)
    for ev in events:
        im.apply(ev)
    print(rp.get("kind"), "|", rp.get("message", ""))
    for ev, c, outs, en in im.records:
        print("  %-36r connected=%d %r" % (ev if ev[0] not in ("data", "frame") else (ev[0], list(ev[1])), c, outs))
    g = write_monitor(im.records, rp.get("property", "C10"))
    print("monitor verdict now:", g)
    rc = 1 if g else 0
    exe = os.path.join(vlib.OUT, "run_brokerclientwrite")
    if os.path.exists(exe):
        p = subprocess.run([exe], input=(vlib.encode_line(enc_wcase(events)) + "\n").encode(), stdout=subprocess.PIPE)
        mt = [int(x) for x in p.stdout.decode().split()]
        if mt != D.enc_trace(im.records):
            print("differs from the model:", mt)
            rc = 1
    return rc


def replay_sync(rp):
    events = D.unjson(rp["events"])
    im = SyncImpl(rp.get("policy", "const"), None, None, list(rp.get("sync_outcomes", [])))
    for ev in events:
        im.apply(ev)
    print(rp.get("kind"), "|", rp.get("message", ""))
    for (ev, c, outs, en), u in zip(im.records, im.sync_used):
        print("  %-30r connect() completes synchronously: %-5r connected=%d %r" % (ev if ev[0] not in ("data", "frame") else (ev[0], list(ev[1])), u, c, outs))
    cm = idle_monitor(im, rp.get("property", "C10")) or closed_monitor(im.records, im.transport() is not None)
    print("monitor verdict now:", cm)
    return 1 if cm else 0
