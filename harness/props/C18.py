# C18 - partitioners: correspondence of afkak/partitioner.py with coq/Model/{Murmur,Partitioner}.v,
# implementation-side monitors, evidence.  Exemplar driver: every other property follows this shape.
#
# Two ties connect the theorems of Props/C18.v to the code; the property is shown when EITHER is intact:
#   (A) translator tie: pure_murmur2 is translated from the source of THIS run (harness/py2coq.py) and proved equal to
#       the hand-written model and to Java's murmur2 (harness/murmur_tie.py, generic proof Proofs/MurmurGenTac.v,
#       compiled in coq/Run/out/gen/<id>/ - nothing tracked is written);
#   (B) the hand-written model (proved equal to the Java reference) + a differential correspondence with the real code
#       without a single difference on this run.  When (A) is unavailable the key sample of (B) is multiplied by 20
#       and every length 0..64 is covered with high bytes.
# (A) down and (B) clean => no alarm, evidence says `translator_tie: unavailable: <reason>` and counts only the
# obligations really checked.  Any difference in (B) => search for a concrete key => VIOLATION.
import json
import os
import random
import sys

import vlib
from vlib import lp

MODEL = "partitioner"
MODULE = "Model.Partitioner"
HERE = os.path.dirname(os.path.abspath(__file__))
VECTORS = os.path.join(os.path.dirname(HERE), "corpus", "C18", "java_murmur2_vectors.json")


# ------------------------------------------------------------------ generators
def gen_key(rnd):
    kind = rnd.random()
    if kind < 0.08:
        n = rnd.choice([0, 1, 2, 3, 4, 5, 6, 7, 8])
    elif kind < 0.85:
        n = rnd.randint(0, 40)
    else:
        n = rnd.randint(41, 600)
    return key_of_len(rnd, n)


def key_of_len(rnd, n):
    style = rnd.random()
    if style < 0.3:
        return [rnd.choice([0, 1, 0x7F, 0x80, 0x81, 0xFE, 0xFF]) for _ in range(n)]
    if style < 0.6:
        return [rnd.randint(0x80, 0xFF) for _ in range(n)]
    return [rnd.randint(0, 255) for _ in range(n)]


def all_lengths_high(rnd, upto=64, per=6):
    """every length 0..upto, several keys each, heavy in bytes >= 0x80 (used when tie (A) is unavailable)"""
    out = []
    for n in range(upto + 1):
        for j in range(per):
            if j % 3 == 0:
                out.append([rnd.randint(0x80, 0xFF) for _ in range(n)])
            elif j % 3 == 1:
                out.append([rnd.choice([0x7F, 0x80, 0xFF]) for _ in range(n)])
            else:
                k = [rnd.randint(0, 255) for _ in range(n)]
                for t in range(1, min(3, n) + 1):        # the trailing 1..3 bytes high
                    k[-t] = rnd.choice([0x80, 0xFF, rnd.randint(0x80, 0xFF)])
                out.append(k)
    return out


def gen_parts(rnd, allow_empty=True, ascending=False):
    r = rnd.random()
    if allow_empty and r < 0.03:
        return []
    n = rnd.choice([1, 1, 2, 3, 4, 5, 7, 8, 12, 16, 31, 32, 33, 50]) if r < 0.8 else rnd.randint(1, 200)
    style = rnd.random()
    if style < 0.5:
        return list(range(n))
    if style < 0.8 or ascending:
        return sorted(rnd.sample(range(0, 1000), n))
    ps = [rnd.randint(0, 1000) for _ in range(n)]  # unsorted, duplicates possible
    return ps


def gen_text(rnd):
    n = rnd.randint(0, 24)
    out = []
    for _ in range(n):
        r = rnd.random()
        if r < 0.4:
            out.append(rnd.randint(0x20, 0x7E))
        elif r < 0.6:
            out.append(rnd.choice([0, 0x7F, 0x80, 0x7FF, 0x800, 0xD7FF, 0xE000, 0xFFFF, 0x10000, 0x10FFFF]))
        elif r < 0.63:
            out.append(rnd.randint(0xD800, 0xDFFF))  # lone surrogate: encode raises
        else:
            out.append(rnd.randint(0, 0x10FFFF))
    return out


def gen_rr(rnd):
    """(random_start, init, calls, mode).  60% of the histories use ascending lists only (compared exactly);
    mode: 'copy' = a fresh list object per call, 'same' = one list object while the list is unchanged
    (with an occasional equal-but-distinct object in the middle of a run)."""
    random_start = rnd.random() < 0.5
    asc = rnd.random() < 0.6
    init = gen_parts(rnd, allow_empty=False, ascending=asc)
    calls = []
    cur = init
    for _ in range(rnd.randint(1, 40)):
        r = rnd.random()
        if r < 0.12:
            cur = gen_parts(rnd, allow_empty=False, ascending=asc)
        elif r < 0.2:
            cur = sorted(cur)
        calls.append(list(cur))
    return random_start, init, calls, rnd.choice(["copy", "same"])


# ------------------------------------------------------------------ references
def java_murmur2(data, seed=0x9747B28C):
    """Independent transcription of org.apache.kafka.common.utils.Utils.murmur2 with int32 wrap (used to label a
    replay, as the monitor of the client stream, and as the stand-in for the C extension; it is itself compared
    with the JVM-produced vectors on every run; the proved reference is Model.Partitioner.murmur2_java)."""
    def i32(x):
        x &= 0xFFFFFFFF
        return x - (1 << 32) if x >= (1 << 31) else x
    sdata = [b - 256 if b > 127 else b for b in data]
    length = len(sdata)
    m, r = i32(0x5BD1E995), 24
    h = i32(i32(seed) ^ length)
    for i in range(length // 4):
        i4 = i * 4
        k = i32((sdata[i4] & 0xFF) + ((sdata[i4 + 1] & 0xFF) << 8) + ((sdata[i4 + 2] & 0xFF) << 16) + ((sdata[i4 + 3] & 0xFF) << 24))
        k = i32(k * m)
        k ^= (k & 0xFFFFFFFF) >> r
        k = i32(k * m)
        h = i32(h * m)
        h ^= k
    rem = length % 4
    base = length & ~3
    if rem == 3:
        h ^= i32((sdata[base + 2] & 0xFF) << 16)
    if rem >= 2:
        h ^= i32((sdata[base + 1] & 0xFF) << 8)
    if rem >= 1:
        h ^= sdata[base] & 0xFF
        h = i32(h * m)
    h ^= (h & 0xFFFFFFFF) >> 13
    h = i32(h * m)
    h ^= (h & 0xFFFFFFFF) >> 15
    return h


def java_partition(key, n):
    return (java_murmur2(key) & 0x7FFFFFFF) % n


def load_vectors():
    v = json.load(open(VECTORS))
    return v["n_list"], [(list(bytes.fromhex(h)), val, parts) for h, val, parts in v["vectors"]], v["produced_by"]


# ------------------------------------------------------------------ implementation drivers
def impl_murmur(key):
    from afkak.partitioner import pure_murmur2
    try:
        return [pure_murmur2(bytearray(key))]
    except Exception as e:     # noqa: BLE001 - a hash that raises on a byte string is a difference, not a crash of the check
        return [-7, len(type(e).__name__)]


def impl_hashed(key, parts, form, cls=None):
    if cls is None:
        from afkak.partitioner import HashedPartitioner as cls
    # constructed with a DIFFERENT list than the one passed to partition(): the result may depend only on
    # the key and the list supplied with the call
    hp = cls("t", list(range(len(key) % 7 + 1)))
    try:
        if form == "text":
            k = "".join(chr(c) for c in key)
        elif form == "bytes":
            k = bytes(key)
        else:
            k = bytearray(key)
        lst = list(parts)
        p = hp.partition(k, lst)
        p2 = hp.partition(k, list(parts))
        if p != p2:
            return [-2]
        if lst != list(parts):
            return [-4]     # the caller's list was modified
        return [1, p]
    except (ZeroDivisionError, UnicodeEncodeError):
        return [0]
    except IndexError:
        return [-3]     # never a legal outcome for a non-empty list: shows up as a difference
    except Exception as e:      # noqa: BLE001 - any other exception out of partition() is an observable, not a crash of the check
        return [-5] + [ord(c) for c in type(e).__name__[:24]]


def exc_name(o):
    return "".join(chr(c) for c in o[1:]) if o and o[0] == -5 else None


def impl_utf8(cps):
    """what the pure-Python path does to a text key: bytearray(key, "UTF-8") (partitioner.py:200)"""
    try:
        s = "".join(chr(c) for c in cps)
        b = bytearray(s, "UTF-8")
        if bytes(b) != s.encode("UTF-8"):
            return [-2]
        return [1] + list(b)
    except UnicodeEncodeError:
        return [0]


class Draws(object):
    """randint stand-in: draws from rnd and records, or replays a recorded list"""

    def __init__(self, rnd=None, replay=None):
        self.rnd, self.replay, self.drawn = rnd, (list(replay) if replay is not None else None), []

    def __call__(self, a, b):
        if self.replay is not None:
            v = self.replay.pop(0) if self.replay else a
            v = min(max(v, a), b)
        else:
            v = self.rnd.randint(a, b)
        self.drawn.append(v)
        return v


def impl_rr(random_start, init, calls, draws, mode="copy"):
    """returns (outputs, start0, starts actually drawn, note or None)"""
    import afkak.partitioner as P
    old_r, old_flag = P.randint, P.RoundRobinPartitioner.randomStart
    P.randint = draws
    drawn = draws.drawn
    outs, starts, note = [], [], None
    try:
        P.RoundRobinPartitioner.set_random_start(random_start)
        n0 = len(drawn)
        first = list(init)
        rr = P.RoundRobinPartitioner("t", first)
        start0 = drawn[-1] if len(drawn) > n0 else 0
        if first != list(init):
            note = "constructor modified the caller's list"
        obj, prev = None, None
        for i, c in enumerate(calls):
            n0 = len(drawn)
            if mode == "same" and prev == c and obj is not None and i % 7 != 5:
                arg = obj                       # the very same list object again
            else:
                arg = list(c)                   # an equal but distinct object
            obj, prev = arg, list(c)
            try:
                outs.append(rr.partition(None, arg))
            except (StopIteration, ValueError):
                outs.append(-1)
                starts.append(0)
                break
            if arg != c and note is None:
                note = "partition() modified the caller's list at call %d" % i
            starts.append(drawn[-1] if len(drawn) > n0 else 0)
    finally:
        P.randint = old_r
        P.RoundRobinPartitioner.randomStart = old_flag
    return outs, start0, starts, note


def rr_case(init, start0, calls, starts, op=6):
    c = [op] + lp(init) + [start0]
    for parts, st in zip(calls, starts):
        c += lp(parts) + [st]
    return c


def rr_canon(init, calls, outs):
    """the canonical trace of Model.Partitioner.rr_run_canon: exact selections up to the first non-ascending list,
    then -2 (member of the supplied list) / -3 (not a member)"""
    exact = list(init) == sorted(init)
    res = []
    for parts, o in zip(calls, outs):
        exact = exact and list(parts) == sorted(parts)
        if o == -1:
            res.append(-1)
            break
        res.append(o if exact else (-2 if o in parts else -3))
    return res


# ------------------------------------------------------------------ end-to-end through Producer
def producer_history(rnd):
    """list of (topic index, key bytes or None, partition list of that topic at call time)"""
    kind = rnd.choice(["rr", "rr", "hashed"])
    random_start = rnd.random() < 0.4
    ntopics = rnd.randint(1, 3)
    cur = {t: sorted(gen_parts(rnd, allow_empty=False)) for t in range(ntopics)}
    calls = []
    for _ in range(rnd.randint(3, 30)):
        t = rnd.randrange(ntopics)
        if rnd.random() < 0.12:
            cur[t] = sorted(gen_parts(rnd, allow_empty=False))
        key = gen_key(rnd)[:12] if kind == "hashed" else None
        calls.append((t, key, list(cur[t])))
    # broker errors with retries left: the produce request of these calls is answered NotLeaderForPartition (6) /
    # UnknownTopicOrPartition (3) once, the retry succeeds (producer.py:590-631 resets the topic's metadata)
    errors = {}
    for i in range(len(calls)):
        if rnd.random() < 0.12:
            errors[str(i)] = rnd.choice([6, 3])
    # topic-metadata outages at arbitrary cycle positions: before these calls metadata_error_for_topic(topic) turns non-zero
    # and stays so across 1..3 reloads (>= 2: the back-off branch of Producer._next_partition, producer.py:316-334),
    # then clears with the same list (or with the changed list the history has at that call)
    outages = {}
    for i in range(1, len(calls)):
        if rnd.random() < 0.15 and str(i) not in errors:
            outages[str(i)] = rnd.choice([1, 2, 2, 3])
    return {"kind": kind, "random_start": random_start, "calls": calls, "errors": errors, "outages": outages}


class StandInClient(object):
    def __init__(self):
        from twisted.internet import task
        self.reactor = task.Clock()
        self.topic_partitions = {}
        self._api_versions = 0
        self.sent = []
        self.outage = {}
        self.reloads_during_outage = 0

    def metadata_error_for_topic(self, topic):
        # a topic-metadata OUTAGE: the error (LeaderNotAvailable) persists until `outage[topic]` reloads have been made
        return 5 if self.outage.get(topic, 0) > 0 else 0

    def load_metadata_for_topics(self, *topics):
        from twisted.internet import defer
        for t in topics:
            if self.outage.get(t, 0) > 0:
                self.outage[t] -= 1
                self.reloads_during_outage += 1
        return defer.succeed(True)

    def reset_topic_metadata(self, *topics):
        pass

    fail_next = 0       # errno answered ONCE for the next produce request (6 NotLeaderForPartition, 3 UnknownTopicOrPartition)

    def send_produce_request(self, payloads, **kw):
        from twisted.internet import defer
        from afkak.common import ProduceResponse
        self.sent.append([(p.topic, p.partition) for p in payloads])
        err, self.fail_next = self.fail_next, 0
        return defer.succeed([ProduceResponse(p.topic, p.partition, err, 0 if not err else -1) for p in payloads])


def impl_producer(hist, draws):
    """Drive the real Producer (unbatched) over a stand-in client; observe the partition of each payload."""
    import afkak.partitioner as P
    from afkak.producer import Producer
    drawn = draws.drawn
    client = StandInClient()
    old_r, old_flag = P.randint, P.RoundRobinPartitioner.randomStart
    P.randint = draws
    per_topic = {}
    try:
        P.RoundRobinPartitioner.set_random_start(hist["random_start"])
        cls = P.RoundRobinPartitioner if hist["kind"] == "rr" else P.HashedPartitioner
        prod = Producer(client, partitioner_class=cls)
        for ci, (t, key, parts) in enumerate(hist["calls"]):
            topic = "topic%d" % t
            client.topic_partitions[topic] = list(parts)
            n0, s0 = len(drawn), len(client.sent)
            client.fail_next = int(hist.get("errors", {}).get(str(ci), 0))
            out_n = int(hist.get("outages", {}).get(str(ci), 0))
            if out_n:
                client.outage[topic] = out_n
            prod.send_messages(topic, key=(bytes(key) if key is not None else None), msgs=[b"m"])
            for _ in range(8):                      # the back-off timers of the metadata retry loop
                if len(client.sent) > s0:
                    break
                client.reactor.advance(60.0)
            client.outage.pop(topic, None)
            chosen = client.sent[s0][0][1] if len(client.sent) > s0 else -1
            client.fail_next = 0
            client.reactor.advance(120.0)           # the retry (callLater(retry_interval)) goes out and succeeds
            rec = per_topic.setdefault(t, [hist["kind"], hist["random_start"], None, 0, [], [], [], []])
            if rec[2] is None:                      # first call for the topic constructs the partitioner
                rec[2] = list(parts)
                rec[3] = drawn[n0] if len(drawn) > n0 else 0
                st = drawn[n0 + 1] if len(drawn) > n0 + 1 else 0
            else:
                st = drawn[n0] if len(drawn) > n0 else 0
            rec[4].append(list(parts))
            rec[5].append(st)
            rec[6].append(key)
            rec[7].append(chosen)
    finally:
        P.randint = old_r
        P.RoundRobinPartitioner.randomStart = old_flag
    return {t: tuple(v) for t, v in per_topic.items()}


# ------------------------------------------------------------------ end-to-end through the real KafkaClient metadata path
def metadata_response(correlation_id, brokers, topics):
    """MetadataResponse v0 bytes.  topics: [(name, [partition ids IN THE ORDER TO PUT ON THE WIRE])]"""
    import struct
    out = [struct.pack(">ii", correlation_id, len(brokers))]
    for node, host, port in brokers:
        hb = host.encode()
        out.append(struct.pack(">ih", node, len(hb)) + hb + struct.pack(">i", port))
    out.append(struct.pack(">i", len(topics)))
    for name, parts in topics:
        nb = name.encode()
        out.append(struct.pack(">hh", 0, len(nb)) + nb + struct.pack(">i", len(parts)))
        for p in parts:
            out.append(struct.pack(">hiii", 0, p, 1, 1) + struct.pack(">i", 1) + struct.pack(">ii", 1, 1))
    return b"".join(out)


def client_history(rnd):
    """sends through a real Producer over a REAL KafkaClient whose metadata responses list partitions out of order"""
    kind = rnd.choice(["rr", "rr", "hashed"])
    ntopics = rnd.randint(1, 2)

    def wire_order(n):
        ids = list(range(n)) if rnd.random() < 0.8 else sorted(rnd.sample(range(0, 64), n))
        r = rnd.random()
        if r < 0.4:
            ids = ids[::-1]
        elif r < 0.9:
            rnd.shuffle(ids)
        return ids
    topics = {t: wire_order(rnd.choice([2, 3, 4, 5, 8, 12])) for t in range(ntopics)}
    steps = []
    for _ in range(rnd.randint(6, 36)):
        t = rnd.randrange(ntopics)
        if rnd.random() < 0.1:
            n = len(topics[t]) if rnd.random() < 0.5 else rnd.choice([2, 3, 4, 6, 9])
            steps.append(("refresh", t, wire_order(n)))
        else:
            steps.append(("send", t, gen_key(rnd)[:12] if kind == "hashed" else None, rnd.choice([6, 3]) if rnd.random() < 0.1 else 0))
    return {"kind": kind, "random_start": rnd.random() < 0.4, "topics": {str(t): v for t, v in topics.items()}, "steps": steps}


def impl_client(hist, draws):
    """returns {topic: (kind, random_start, init, start0, calls(list at call time = client.topic_partitions), starts,
    keys, outs)}, plus the lists client.topic_partitions held after every metadata response"""
    from twisted.internet import defer, task
    import afkak.partitioner as P
    from afkak.client import KafkaClient
    from afkak.producer import Producer
    from afkak.common import ProduceResponse

    drawn = draws.drawn
    wire = {int(t): list(v) for t, v in hist["topics"].items()}
    client = KafkaClient("kafka1:9092", reactor=task.Clock(), enable_protocol_version_discovery=False)
    sent, seen_lists = [], []

    def unaware(request_id, request):
        resp = metadata_response(request_id, [(1, "kafka1", 9092)], [("topic%d" % t, wire[t]) for t in sorted(wire)])
        return defer.succeed(resp)

    fail = {"next": 0}

    def send_produce_request(payloads=None, **kw):
        sent.append([(p.topic, p.partition) for p in payloads])
        err, fail["next"] = fail["next"], 0
        return defer.succeed([ProduceResponse(p.topic, p.partition, err, 0 if not err else -1) for p in payloads])
    client._send_broker_unaware_request = unaware
    client.send_produce_request = send_produce_request
    old_r, old_flag = P.randint, P.RoundRobinPartitioner.randomStart
    P.randint = draws
    per_topic = {}
    try:
        P.RoundRobinPartitioner.set_random_start(hist["random_start"])
        cls = P.RoundRobinPartitioner if hist["kind"] == "rr" else P.HashedPartitioner
        prod = Producer(client, partitioner_class=cls)
        for step in hist["steps"]:
            if step[0] == "refresh":
                wire[step[1]] = list(step[2])
                client.load_metadata_for_topics("topic%d" % step[1])
                seen_lists.append((step[1], list(client.topic_partitions.get("topic%d" % step[1], []))))
                continue
            t, key = step[1], step[2]
            topic = "topic%d" % t
            n0, s0 = len(drawn), len(sent)
            fail["next"] = int(step[3]) if len(step) > 3 else 0
            prod.send_messages(topic, key=(bytes(key) if key is not None else None), msgs=[b"m"])
            chosen = sent[s0][0][1] if len(sent) > s0 else -1
            fail["next"] = 0
            client.reactor.advance(120.0)           # the retry goes out (the real client re-loads the reset metadata first)
            if topic in client.topic_partitions:
                parts = list(client.topic_partitions[topic])
                seen_lists.append((t, parts))
            else:       # an injected broker error made the producer reset the topic's metadata right after the selection
                parts = sorted(wire[t])
            rec = per_topic.setdefault(t, [hist["kind"], hist["random_start"], None, 0, [], [], [], []])
            if rec[2] is None:
                rec[2] = list(parts)
                rec[3] = drawn[n0] if len(drawn) > n0 else 0
                st = drawn[n0 + 1] if len(drawn) > n0 + 1 else 0
            else:
                st = drawn[n0] if len(drawn) > n0 else 0
            rec[4].append(parts)
            rec[5].append(st)
            rec[6].append(key)
            rec[7].append(chosen)
    finally:
        P.randint = old_r
        P.RoundRobinPartitioner.randomStart = old_flag
    return {t: tuple(v) for t, v in per_topic.items()}, seen_lists


def monitor_client(hist, per_topic, seen_lists):
    """the property, restated over what the producer did: the list handed to the partitioner is the topic's partition
    set ascending; round robin is fair over it; a keyed message goes where the Java client would send it"""
    for t, lst in seen_lists:
        if lst != sorted(lst):
            return "client.topic_partitions['topic%d'] is not ascending: %r" % (t, lst)
    for t, (kind, _rs, _init, _s0, calls, _starts, keys, outs) in sorted(per_topic.items()):
        if kind == "rr":
            bad = monitor_rr([sorted(c) for c in calls], outs)
            if bad:
                return "topic%d: %s" % (t, bad)
        else:
            for k, c, o in zip(keys, calls, outs):
                ids = sorted(c)
                if ids and ids == list(range(len(ids))) and o != java_partition(k, len(ids)):
                    return "topic%d: key %r sent to partition %r, the Java client picks %r of %d" % (t, k, o, java_partition(k, len(ids)), len(ids))
                if o not in ids:
                    return "topic%d: partition %r is not one of %r" % (t, o, ids)
    return None


# ------------------------------------------------------------------ the C-extension coercion path (partitioner.py:171-186)
def load_cpath_module():
    """afkak/partitioner.py imported a second time with a stand-in `murmurhash2` module, so that the branch
    `if _c_murmur2:` (key coercion for the C extension) is executed.  The C function itself is NOT exercised:
    the stand-in is the reference transcription java_murmur2."""
    import importlib.util
    import types
    fake = types.ModuleType("murmurhash2")

    def murmurhash2(key, seed):
        if not isinstance(key, bytes):
            raise TypeError("a bytes-like object is required, not %r" % type(key))
        return java_murmur2(list(key), seed) & 0xFFFFFFFF
    fake.murmurhash2 = murmurhash2
    saved = sys.modules.get("murmurhash2")
    sys.modules["murmurhash2"] = fake
    try:
        spec = importlib.util.spec_from_file_location("_c18_cpath_partitioner", os.path.join(vlib.REPO, "afkak", "partitioner.py"))
        mod = importlib.util.module_from_spec(spec)
        spec.loader.exec_module(mod)
    finally:
        if saved is None:
            sys.modules.pop("murmurhash2", None)
        else:
            sys.modules["murmurhash2"] = saved
    return mod


# ------------------------------------------------------------------ monitors (theorem statements over impl traces)
def monitor_rr(calls, outs):
    """C18_rr_fair on the implementation's own trace: inside every maximal run of calls with an unchanged ascending
    list, EVERY window of n consecutive selections (sliding, not only aligned) selects each partition exactly as
    often as it occurs in the list; every selection is a member of the list supplied with the call."""
    i = 0
    while i < len(outs):
        parts = calls[i]
        j = i
        while j < len(outs) and calls[j] == parts:
            j += 1
        if any(o not in parts for o in outs[i:j] if o != -1):
            return "selection outside the list at call %d" % i
        if parts == sorted(parts) and parts:
            n = len(parts)
            want = sorted(parts)
            for w in range(i, j - n + 1):
                win = outs[w:w + n]
                if sorted(win) != want:
                    return "unfair window calls[%d:%d] list=%r selections=%r" % (w, w + n, parts, win)
        i = j
    return None


# ------------------------------------------------------------------ the check
def translator_tie(ck):
    """tie (A).  Returns (intact, reason)."""
    import murmur_tie
    import py2coq
    src = os.path.join(vlib.REPO, "afkak/partitioner.py") + ":pure_murmur2"
    ok, text, msg = py2coq.translate_repo(vlib.REPO)
    info = {"source": src, "translated": ok, "message": msg}
    ck.cov["translator"] = info
    if not ok:
        return False, "translation refused (%s)" % msg
    try:
        snap = open(py2coq.SNAPSHOT).read()
    except OSError:
        snap = None
    info["same_as_committed_snapshot_Model/MurmurGen.v"] = (snap == text)
    okb, log = murmur_tie.make_base()
    if not okb:
        raise vlib.CheckAbort("coq build of the generic translator proof failed:\n" + log)
    r = murmur_tie.compile_scratch(text)
    info["scratch_dir"] = os.path.relpath(r["dir"], vlib.ROOT)
    if not r["ok"]:
        info["proof"] = r["log"][-1500:]
        first = r["log"].strip().splitlines()[0] if r["log"].strip() else r["stage"]
        return False, "proof obligation broken: " + first
    ck.cov["obligations"] += r["obligations"]
    ck.cov["discharged"] += r["discharged"]
    ck.cov["theorems"] += r["theorems"]
    ck.cov["checker_cmd"] += " ; " + r["cmd"]
    ck.cov["trusted_base"].append("translator harness/py2coq.py (Python int operators read as Z operators; indexing as Model.MurmurPy.py_index, range as py_range)")
    return True, "intact"


def run(ck):
    vlib.import_repo()
    ck.build([MODEL])
    ck.props()
    tie_a, tie_reason = translator_tie(ck)
    ck.cov["translator_tie"] = "intact" if tie_a else "unavailable: " + tie_reason
    # tie (A) part 2: the partitioner classes (HashedPartitioner.partition/_hash, RoundRobinPartitioner) - independent of part 1;
    # when it is not intact the class streams below (tie B) carry those clauses alone, as they did before
    import part_tie
    st2, why2 = part_tie.partitioner_tie(ck)
    ck.cov["translator_tie_classes"] = "intact" if st2 == "intact" else "%s: %s" % (st2, why2)
    rnd = random.Random(ck.seed)
    scale = 1 if ck.tier == "quick" else 20
    kscale = scale * (1 if tie_a else 20)        # tie (A) down: tie (B) must carry the hash alone
    describe = lambda c: {"op": c[0], "line": c[:40]}
    ndiff = [0]

    def correspond(cases, impl, label, nontrivial):
        diffs, mo = ck.correspond(MODEL, MODULE, cases, impl, label, nontrivial=nontrivial, describe=describe)
        ndiff[0] += len(diffs)
        return diffs, mo

    # --- 0. the Java reference: JVM-produced vectors (harness/corpus/C18, real OpenJDK, Kafka's Utils.murmur2 verbatim)
    n_list, vectors, produced_by = load_vectors()
    ck.cov["java_vectors"] = {"file": os.path.relpath(VECTORS, vlib.ROOT), "count": len(vectors), "produced_by": produced_by, "n_list": n_list}
    casesv = [[8] + lp(k) + list(n_list) for k, _, _ in vectors]
    javav = [[h] + list(ps) for _, h, ps in vectors]
    diffs, mo = correspond(casesv, javav, "JVM vectors (Utils.murmur2, toPositive(murmur2)%n) vs Model.Partitioner.murmur2_java / java_partition",
                           lambda c, o: c[1] > 0)
    for i in diffs[:2]:
        ck.violation({"kind": "the Coq transcription murmur2_java / java_partition disagrees with the real JVM", "key_bytes": vectors[i][0],
                      "jvm": javav[i], "model": mo[i], "theorems_no_longer_tied": ["C18_murmur_java", "C18_partition_java_ids"], "replay_op": "vector"})
    from afkak.partitioner import HashedPartitioner
    hp = HashedPartitioner("t", [0])
    nbad = 0
    for k, h, ps in vectors:
        ck.hist("vector_keylen%%4=%d" % (len(k) % 4))
        got = impl_murmur(k)[0]
        if java_murmur2(k) != h:
            raise vlib.CheckAbort("harness transcription java_murmur2 disagrees with the JVM vector for %r" % (k,))
        ids = None
        if got == h & 0xFFFFFFFF:
            try:
                ids = [hp.partition(bytes(k), list(range(n))) for n in n_list]
            except Exception as e:      # noqa: BLE001
                ids = "partition() raised %s: %s" % (type(e).__name__, str(e)[:120])
        if got != h & 0xFFFFFFFF or ids != list(ps):
            nbad += 1
            ndiff[0] += 1
            if nbad <= 2:
                kk = shrink_key(k, lambda x: impl_murmur(x)[0] != (java_murmur2(x) & 0xFFFFFFFF)) if got != h & 0xFFFFFFFF else k
                ck.violation({"kind": ("HashedPartitioner.partition() raises for a key the Java client partitions normally" if isinstance(ids, str)
                                       else "pure_murmur2 / HashedPartitioner differs from the real JVM (Kafka Utils.murmur2, toPositive % n)"),
                              "key_bytes": kk, "impl": impl_murmur(kk)[0], "java": java_murmur2(kk) & 0xFFFFFFFF,
                              "partition_ids_impl": ids, "partition_ids_java": list(ps), "n_list": n_list, "replay_op": "murmur"})
    ck.cov["correspondence"]["real pure_murmur2 and HashedPartitioner ids on [0..n-1] vs JVM vectors"] = {
        "cases": len(vectors) * (1 + len(n_list)), "differences": nbad, "in_coq_sample": 0}
    ck.cov["evaluations"] += len(vectors)

    # --- 1. murmur2 on byte strings (ops 1 and 5: impl vs python-model and vs Java-model)
    keys = [[], [0], [255], [0x80] * 3, list(b"abc"), list(b"21"), list(b"foobar"),
            list(b"a-little-bit-long-string"), list(range(256))]
    keys += [gen_key(rnd) for _ in range(700 * scale)]
    if not tie_a:
        # x20 keys; the additional ones are short (the structure of the hash is exhausted by lengths 0..64: whole blocks,
        # every tail length, empty input) so that the run stays within the time budget
        keys += [key_of_len(rnd, rnd.randint(0, 64)) for _ in range(700 * (kscale - scale))]
        keys += all_lengths_high(rnd)
        ck.hist("keys_added_because_translator_tie_is_down", len(keys))
    for k in keys:
        ck.hist("keylen%%4=%d" % (len(k) % 4))
        if any(b >= 0x80 for b in k):
            ck.hist("key_has_high_byte")
    cases1 = [[1] + lp(k) for k in keys]
    cases5 = [[5] + lp(k) for k in keys]
    impl1 = [impl_murmur(k) for k in keys]
    for label, cases in (("pure_murmur2 vs Model.Murmur.pure_murmur2", cases1),
                         ("pure_murmur2 vs Model.Partitioner.murmur2_java (Java int32 reference)", cases5)):
        diffs, mo = correspond(cases, impl1, label, lambda c, o: c[1] > 0)
        for i in diffs[:3]:
            k = shrink_key(keys[i], lambda kk: impl_murmur(kk)[0] != (java_murmur2(kk) & 0xFFFFFFFF))
            ck.violation({"kind": "murmur2 differs from the Java reference", "key_bytes": k,
                          "impl": impl_murmur(k)[0], "java": java_murmur2(k) & 0xFFFFFFFF, "replay_op": "murmur"})

    # --- 2. hashed partitioner on bytes / bytearray / text; the UTF-8 encoder itself
    cases, impl, meta = [], [], []
    fixed = [([], [0, 1, 2], "bytes"), ([], [0, 1, 2, 3, 4], "bytearray"), ([], [0, 1], "text"), ([0], [0, 1, 2], "bytes")]
    cscale = scale if st2 == "intact" else 4 * scale      # classes tie down: tie (B) carries the class clauses alone
    for j in range(500 * cscale + len(fixed)):
        if j < len(fixed):
            k, parts, form = fixed[j]               # the EMPTY key (Java hashes it like any other) in every form
            cases.append([3 if form == "text" else 2] + lp(k) + lp(parts))
        elif rnd.random() < 0.5:
            parts = gen_parts(rnd)
            k = gen_key(rnd)
            form = rnd.choice(["bytes", "bytearray"])
            cases.append([2] + lp(k) + lp(parts))
        else:
            parts = gen_parts(rnd)
            k = gen_text(rnd)
            form = "text"
            cases.append([3] + lp(k) + lp(parts))
        ck.hist("hashed_" + form)
        if not parts:
            ck.hist("hashed_empty_list")
        impl.append(impl_hashed(k, parts, form))
        meta.append((k, parts, form))
    diffs, mo = correspond(cases, impl, "HashedPartitioner.partition vs Model.Partitioner.hashed_partition[_text]", lambda c, o: o[0] == 1)
    for i in diffs[:3]:
        k, parts, form = meta[i]
        ck.violation({"kind": "hashed partition differs from the proved model (Java-compatible index)",
                      "key": k, "form": form, "partitions": parts, "impl": impl[i], "model": mo[i], "replay_op": "hashed"})
    # monitors: membership, determinism, caller's list untouched, text == utf-8 bytes
    for (k, parts, form), o in zip(meta, impl):
        if o[0] == 1 and o[1] not in parts:
            ck.violation({"kind": "result outside partition list", "key": k, "form": form, "partitions": parts, "impl": o, "replay_op": "hashed"})
        if o == [-2]:
            ck.violation({"kind": "non-deterministic partition()", "key": k, "form": form, "partitions": parts, "replay_op": "hashed"})
        if o and o[0] == -5:
            ck.violation({"kind": "HashedPartitioner.partition() raised %s for a key the Java client partitions normally" % exc_name(o),
                          "key": k, "form": form, "partitions": parts, "java_partition_if_list_is_0..n-1":
                          (java_partition(k if form != "text" else list("".join(chr(c) for c in k).encode("utf-8", "replace")), len(parts)) if parts else None),
                          "replay_op": "hashed"})
        if o == [-4]:
            ck.violation({"kind": "partition() modified the caller's partition list", "key": k, "form": form, "partitions": parts, "replay_op": "hashed"})
        if form == "text" and o[0] == 1:
            kb = list("".join(chr(c) for c in k).encode("utf-8"))
            if impl_hashed(kb, parts, "bytes") != o:
                ck.violation({"kind": "text and UTF-8 byte forms disagree", "key": k, "partitions": parts, "replay_op": "hashed"})
    texts = [[], [0x41], [0x7F], [0x80], [0x7FF], [0x800], [0xFFFF], [0x10000], [0x10FFFF], [0xD7FF], [0xD800], [0xDFFF], [0xE000]]
    texts += [gen_text(rnd) for _ in range(250 * scale)]
    cases7 = [[7] + lp(t) for t in texts]
    impl7 = [impl_utf8(t) for t in texts]
    for t in texts:
        ck.hist("utf8_text_with_non_bmp" if any(c >= 0x10000 for c in t) else "utf8_text_bmp_only")
    diffs, mo = correspond(cases7, impl7, "bytearray(text, 'UTF-8') / str.encode vs Model.Partitioner.utf8 (proved against the RFC 3629 decoder)",
                           lambda c, o: c[1] > 0)
    for i in diffs[:2]:
        ck.violation({"kind": "UTF-8 encoding of a text key differs from the model encoder", "code_points": texts[i], "impl": impl7[i], "model": mo[i],
                      "replay_op": "utf8"})

    # --- 3. round robin histories (exact up to the first non-ascending list, then membership only)
    cases, impl, meta = [], [], []
    for _ in range(250 * cscale):
        random_start, init, calls, mode = gen_rr(rnd)
        draws = Draws(rnd)
        outs, start0, starts, note = impl_rr(random_start, init, calls, draws, mode)
        ck.hist("rr_random_start" if random_start else "rr_fixed_start")
        ck.hist("rr_all_lists_ascending" if init == sorted(init) and all(c == sorted(c) for c in calls) else "rr_some_list_not_ascending")
        ck.hist("rr_mode_" + mode)
        ck.hist("rr_calls", len(outs))
        cases.append(rr_case(init, start0, calls, starts))
        impl.append(rr_canon(init, calls, outs))
        rp = {"random_start": random_start, "init": init, "calls": calls, "mode": mode, "draws": list(draws.drawn),
              "start0": start0, "starts": starts, "outputs": outs, "replay_op": "rr"}
        meta.append(rp)
        bad = monitor_rr(calls, outs) or note
        if bad:
            ck.violation(dict(rp, kind="round-robin fairness monitor", what=bad))
    diffs, mo = correspond(cases, impl, "RoundRobinPartitioner history vs Model.Partitioner.rr_run (exact while every list is ascending)",
                           lambda c, o: len(o) >= 3)
    if diffs and not ck.violations:
        i = diffs[0]
        ck.violation(dict(meta[i], kind="correspondence broken", correspondence="corr:partitioner:rr_run",
                          theorems_no_longer_tied=["C18_rr_fair", "C18_rr_restart"], impl=impl[i], model=mo[i]), no_input=True)

    # --- 4. end to end through the real Producer (producer.py:327-335: one partitioner per topic,
    #        the CURRENT partition list of the client passed on every call)
    cases, impl, meta = [], [], []
    for _ in range(120 * scale):
        hist = producer_history(rnd)
        draws = Draws(rnd)
        per_topic = impl_producer(hist, draws)
        ck.hist("producer_histories")
        ck.hist("producer_calls_answered_NotLeader_or_UnknownTopic_then_retried", len(hist.get("errors", {})))
        ck.hist("producer_calls_during_a_topic_metadata_outage", len(hist.get("outages", {})))
        ck.hist("producer_outages_outlasting_the_first_reload", sum(1 for v in hist.get("outages", {}).values() if v >= 2))
        for topic, (kind, random_start, init, start0, calls, starts, hkeys, outs) in sorted(per_topic.items()):
            rp = {"history": hist, "draws": list(draws.drawn), "topic": topic, "outputs": outs, "replay_op": "producer"}
            if kind == "rr":
                cases.append(rr_case(init, start0, calls, starts))
                impl.append(rr_canon(init, calls, outs))
                meta.append(rp)
                bad = monitor_rr(calls, outs)
                if bad:
                    ck.violation(dict(rp, kind="round-robin fairness monitor (through Producer)", what=bad))
            else:
                for k, parts, o in zip(hkeys, calls, outs):
                    cases.append([2] + lp(k) + lp(parts))
                    impl.append([1, o] if o >= 0 else [0])
                    meta.append(rp)
    diffs, mo = correspond(cases, impl, "partitions chosen by the real Producer vs Model.Partitioner (per-topic rr_run / hashed_partition)",
                           lambda c, o: len(o) >= 2)
    if diffs and not ck.violations:
        i = diffs[0]
        ck.violation(dict(meta[i], kind="producer does not drive its partitioner as the model says (one partitioner per topic, current list)",
                          impl=impl[i], model=mo[i]))

    # --- 5. end to end through the REAL KafkaClient metadata path (client.py:529-569): metadata responses list the
    #        partitions out of order; the list that reaches the real Producer's partitioner must be ascending
    cases, impl, meta = [], [], []
    for _ in range(50 * scale):
        hist = client_history(rnd)
        draws = Draws(rnd)
        per_topic, seen = impl_client(hist, draws)
        ck.hist("client_histories")
        ck.hist("client_sends_answered_NotLeader_or_UnknownTopic_then_retried", sum(1 for st in hist["steps"] if st[0] == "send" and len(st) > 3 and st[3]))
        ck.hist("client_metadata_responses_out_of_order", sum(1 for v in hist["topics"].values() if v != sorted(v)))
        rp = {"history": hist, "draws": list(draws.drawn), "replay_op": "client"}
        bad = monitor_client(hist, per_topic, seen)
        if bad:
            ck.violation(dict(rp, kind="partition list / selection through the real KafkaClient metadata path", what=bad))
        for topic, (kind, random_start, init, start0, calls, starts, hkeys, outs) in sorted(per_topic.items()):
            if kind == "rr":
                # the model is given the topic's partition set ASCENDING: that is what the client must hand over
                cases.append(rr_case(sorted(init), start0, [sorted(c) for c in calls], starts))
                impl.append(rr_canon(sorted(init), [sorted(c) for c in calls], outs))
            else:
                for k, parts, o in zip(hkeys, calls, outs):
                    cases.append([2] + lp(k) + lp(sorted(parts)))
                    impl.append([1, o] if o >= 0 else [0])
                    meta.append(rp)
                continue
            meta.append(rp)
    diffs, mo = correspond(cases, impl, "real KafkaClient metadata (partitions out of order on the wire) -> real Producer -> partitioner vs model on the ascending list",
                           lambda c, o: len(o) >= 2)
    if diffs and not ck.violations:
        i = diffs[0]
        ck.violation(dict(meta[i], kind="through the real KafkaClient the partitioner is not driven with the ascending partition list",
                          impl=impl[i], model=mo[i]))

    # --- 6. the key coercions of the C-extension path (dead code in this sandbox: murmurhash2 is not installed)
    try:
        cmod = load_cpath_module()
        cpath_ok = bool(getattr(cmod, "_c_murmur2", None))
    except Exception as e:      # noqa: BLE001
        cmod, cpath_ok = None, False
        ck.cov["c_extension_path"] = "could not be loaded with a stand-in module: %r" % (e,)
    if cpath_ok:
        cases, impl, meta = [], [], []
        for _ in range(150 * scale):
            parts = gen_parts(rnd, allow_empty=False)
            if rnd.random() < 0.5:
                k, form = gen_key(rnd)[:40], rnd.choice(["bytes", "bytearray"])
                cases.append([2] + lp(k) + lp(parts))
            else:
                k, form = gen_text(rnd), "text"
                cases.append([3] + lp(k) + lp(parts))
            impl.append(impl_hashed(k, parts, form, cls=cmod.HashedPartitioner))
            meta.append((k, parts, form))
        diffs, mo = correspond(cases, impl, "HashedPartitioner with the C-extension coercions (murmurhash2 replaced by a reference stand-in) vs model",
                               lambda c, o: o[0] == 1)
        for i in diffs[:2]:
            k, parts, form = meta[i]
            ck.violation({"kind": "C-extension coercion path: partition differs from the model", "key": k, "form": form, "partitions": parts,
                          "impl": impl[i], "model": mo[i], "replay_op": "hashed_cpath"})
        ck.cov["c_extension_path"] = "coercion code partitioner.py:171-186 executed with a stand-in murmurhash2 (the C function itself is not installed here and not exercised)"

    # --- verdict of the two ties
    if not tie_a:
        ck.cov["translator"]["consequence"] = (
            "tie (B) carried the hash alone: %d differences over all correspondences of this run, key sample x20 + every length 0..64"
            % ndiff[0])
        if ndiff[0] and not ck.violations:
            ck.violation({"kind": "translator tie unavailable and the differential correspondence is not clean",
                          "translator_tie": ck.cov["translator_tie"], "differences": ndiff[0]}, no_input=True)
    if ck.tier == "thorough":
        libs = ["AV.Props.C18"]
        ok, _ = ck.make_soft("Props/C18gen.vo")
        if ok:
            libs.append("AV.Props.C18gen")
        ck.coqchk(libs)
    ck.cov["rule"] = ("seeded generator (random.Random(VERIF_SEED)): byte keys of every length mod 4 incl. bytes>=0x80 and up to 600 bytes, "
                      "3690 JVM-produced vectors, text keys incl. non-BMP and lone surrogates, partition lists (contiguous, sparse, unsorted, "
                      "duplicated, empty), round-robin histories with list changes and random/fixed start (randint values read back; same / "
                      "fresh list objects), histories through the real Producer and through the real KafkaClient metadata path with "
                      "out-of-order metadata responses. A case is non-trivial if the key is non-empty / a partition was returned / the "
                      "history has >=3 selections; distinct = distinct canonical case lines.")
    ck.assumptions += [
        "tie (A): pure_murmur2 is translated from the source by harness/py2coq.py on every run and proved equal to the hand model by the generic tactic Proofs/MurmurGenTac.v (trusted: the translator's reading of Python ints as Z, //,% as Z.div/Z.modulo with non-zero constant divisors, shifts by non-negative constants, indexing as py_index; validated against CPython by harness/py2coq_selftest.py); this run: " + ck.cov["translator_tie"],
        "tie (A) part 2: HashedPartitioner.partition/_hash and RoundRobinPartitioner.__init__/_set_partitions/partition are translated from the source by harness/py2part.py on every run and proved equal to hashed_partition[_text] / rr_set / rr_partition (Props/C18genp.v; randint is an oracle input, the Producer's use of the classes is NOT translated); this run: " + ck.cov.get("translator_tie_classes", "?"),
        "tie (B): hand-written Gallina models Model/Murmur.v, Model/Partitioner.v stand for afkak/partitioner.py:29-99,131-219 (HashedPartitioner/RoundRobinPartitioner tie checked by this run's correspondence only)",
        "murmur2_java / java_partition are transcriptions of org.apache.kafka.common.utils.Utils.murmur2 / toPositive(..) % n with two's-complement int32 semantics, compared on every run with 3690 values produced once by a real JVM (harness/corpus/C18)",
        "CPython's UTF-8 encoder modelled by Model.Partitioner.utf8, proved against the RFC 3629 decoder utf8_decode, tied to CPython by correspondence",
        "behaviour for NON-ascending partition lists is outside the property: selections after the first non-ascending list of a history are compared only as members of the supplied list",
        "extraction: Require Extraction ExtrOcamlBasic only (bool, option, unit, list, prod, sumbool, sumor to OCaml natives); Z/positive/nat stay Coq datatypes; OCaml 4.13.1 ocamlopt; sample re-evaluated in Coq by vm_compute",
        "the C murmurhash2 extension is not installed in this sandbox: partitioner.py:171-186 is dead code here; its key coercions are executed with a stand-in module, the C hash itself is not",
    ]
    ck.cov["trusted_base"] += ["correspondence harness harness/props/C18.py + harness/vlib.py", "extracted OCaml runner (ExtrOcamlBasic) cross-checked by vm_compute sample"]


def shrink_key(key, bad):
    key = list(key)
    changed = True
    while changed and len(key) > 0:
        changed = False
        for i in range(len(key)):
            cand = key[:i] + key[i + 1:]
            if bad(cand):
                key, changed = cand, True
                break
    return key


# ------------------------------------------------------------------ replay: re-run the stored case on the implementation
def run_model(cases):
    exe = os.path.join(vlib.OUT, "run_" + MODEL)
    if not os.path.exists(exe):
        return None
    import subprocess
    inp = "\n".join(vlib.encode_line(c) for c in cases) + "\n"
    p = subprocess.run([exe], input=inp.encode(), stdout=subprocess.PIPE, timeout=120)
    return [[int(t) for t in l.split()] for l in p.stdout.decode().splitlines()]


def verdict(label, impl, model, monitor):
    print(label)
    print("  implementation now:", impl)
    if model is not None:
        print("  model             :", model)
    print("  monitor           :", monitor or "ok")
    bad = bool(monitor) or (model is not None and list(impl) != list(model))
    print("  verdict           :", "FAIL" if bad else "pass")
    return 1 if bad else 0


def replay(rp):
    op = rp.get("replay_op")
    if op in ("murmur", "vector"):
        k = rp["key_bytes"]
        a, b = impl_murmur(k)[0], java_murmur2(k) & 0xFFFFFFFF
        n_list = rp.get("n_list") or [1, 2, 3, 7, 12, 50]
        from afkak.partitioner import HashedPartitioner
        hp = HashedPartitioner("t", [0])
        try:
            ids = [hp.partition(bytes(k), list(range(n))) for n in n_list]
        except Exception as e:      # noqa: BLE001
            ids = "partition() raised %s: %s" % (type(e).__name__, str(e)[:120])
        jids = [java_partition(k, n) for n in n_list]
        print("key", k, "pure_murmur2", a, "java", b, "partition ids", ids, "java ids", jids, "for n in", n_list)
        return 0 if a == b and ids == jids else 1
    if op in ("hashed", "hashed_cpath"):
        cls = load_cpath_module().HashedPartitioner if op == "hashed_cpath" else None
        form = rp.get("form", "bytes")
        o = impl_hashed(rp["key"], rp["partitions"], form, cls=cls)
        mo = run_model([[3 if form == "text" else 2] + lp(rp["key"]) + lp(rp["partitions"])])
        mon = None
        if o[0] == 1 and o[1] not in rp["partitions"]:
            mon = "result outside the partition list"
        elif o[0] < 0:
            mon = {-2: "non-deterministic", -3: "IndexError", -4: "caller's list modified", -5: "partition() raised %s" % exc_name(o)}.get(o[0], "error")
        return verdict("hashed partition of %r (%s) over %r" % (rp["key"], form, rp["partitions"]), o, mo[0] if mo else None, mon)
    if op == "utf8":
        o = impl_utf8(rp["code_points"])
        mo = run_model([[7] + lp(rp["code_points"])])
        return verdict("UTF-8 of %r" % (rp["code_points"],), o, mo[0] if mo else None, None)
    if op == "rr":
        draws = Draws(replay=rp.get("draws", []))
        outs, start0, starts, note = impl_rr(rp["random_start"], rp["init"], rp["calls"], draws, rp.get("mode", "copy"))
        mo = run_model([rr_case(rp["init"], start0, rp["calls"], starts)])
        return verdict("round-robin history init=%r random_start=%r" % (rp["init"], rp["random_start"]),
                       rr_canon(rp["init"], rp["calls"], outs), mo[0] if mo else None, monitor_rr(rp["calls"], outs) or note)
    if op in ("producer", "client"):
        hist = rp["history"]
        draws = Draws(replay=rp.get("draws", []))
        if op == "producer":
            per_topic, seen = impl_producer(hist, draws), []
            mon = None
        else:
            per_topic, seen = impl_client(hist, draws)
            mon = monitor_client(hist, per_topic, seen)
        rc = 0
        for topic, (kind, random_start, init, start0, calls, starts, hkeys, outs) in sorted(per_topic.items()):
            srt = (lambda l: sorted(l)) if op == "client" else (lambda l: l)
            if kind == "rr":
                cl = [srt(c) for c in calls]
                mo = run_model([rr_case(srt(init), start0, cl, starts)])
                rc |= verdict("topic %s (round robin)" % topic, rr_canon(srt(init), cl, outs), mo[0] if mo else None, monitor_rr(cl, outs) or mon)
            else:
                mo = run_model([[2] + lp(k) + lp(srt(p)) for k, p in zip(hkeys, calls)])
                rc |= verdict("topic %s (hashed)" % topic, [[1, o] if o >= 0 else [0] for o in outs], mo, mon)
        return rc
    print(json.dumps(rp, indent=1, default=repr))
    return 1
