# C18 - partitioners: correspondence of afkak/partitioner.py with coq/Model/{Murmur,Partitioner}.v,
# implementation-side monitors, evidence.  Exemplar driver: every other property follows this shape.
import random

import vlib
from vlib import lp

MODEL = "partitioner"
MODULE = "Model.Partitioner"


# ------------------------------------------------------------------ generators
def gen_key(rnd):
    kind = rnd.random()
    if kind < 0.08:
        n = rnd.choice([0, 1, 2, 3, 4, 5, 6, 7, 8])
    elif kind < 0.85:
        n = rnd.randint(0, 40)
    else:
        n = rnd.randint(41, 600)
    style = rnd.random()
    if style < 0.3:
        return [rnd.choice([0, 1, 0x7F, 0x80, 0x81, 0xFE, 0xFF]) for _ in range(n)]
    if style < 0.6:
        return [rnd.randint(0x80, 0xFF) for _ in range(n)]
    return [rnd.randint(0, 255) for _ in range(n)]


def gen_parts(rnd, allow_empty=True):
    r = rnd.random()
    if allow_empty and r < 0.03:
        return []
    n = rnd.choice([1, 1, 2, 3, 4, 5, 7, 8, 12, 16, 31, 32, 33, 50]) if r < 0.8 else rnd.randint(1, 200)
    style = rnd.random()
    if style < 0.5:
        return list(range(n))
    if style < 0.8:
        return sorted(rnd.sample(range(0, 1000), n))
    ps = [rnd.randint(0, 1000) for _ in range(n)]  # unsorted, duplicates possible
    return ps


def gen_text(rnd):
    n = rnd.randint(0, 24)
    out = []
    for _ in range(n):
        r = rnd.random()
        if r < 0.4:
            out.append(rnd.randint(0x20, 0x7E))
        elif r < 0.6:
            out.append(rnd.choice([0, 0x7F, 0x80, 0x7FF, 0x800, 0xD7FF, 0xE000, 0xFFFF, 0x10000, 0x10FFFF]))
        elif r < 0.63:
            out.append(rnd.randint(0xD800, 0xDFFF))  # lone surrogate: encode raises
        else:
            out.append(rnd.randint(0, 0x10FFFF))
    return out


def gen_rr(rnd):
    random_start = rnd.random() < 0.5
    init = gen_parts(rnd, allow_empty=False)
    calls = []
    cur = init
    for _ in range(rnd.randint(1, 40)):
        r = rnd.random()
        if r < 0.12:
            cur = gen_parts(rnd, allow_empty=False)
        elif r < 0.2:
            cur = sorted(cur)
        calls.append(list(cur))
    return random_start, init, calls


# ------------------------------------------------------------------ implementation drivers
def java_murmur2(data):
    """Independent transcription of org.apache.kafka.common.utils.Utils.murmur2 with int32 wrap
    (used only to label a replay; the proved reference is Model.Partitioner.murmur2_java)."""
    def i32(x):
        x &= 0xFFFFFFFF
        return x - (1 << 32) if x >= (1 << 31) else x
    sdata = [b - 256 if b > 127 else b for b in data]
    length = len(sdata)
    m, r = 0x5BD1E995, 24
    h = i32(0x9747B28C ^ length)
    for i in range(length // 4):
        i4 = i * 4
        k = i32((sdata[i4] & 0xFF) + ((sdata[i4 + 1] & 0xFF) << 8) + ((sdata[i4 + 2] & 0xFF) << 16) + ((sdata[i4 + 3] & 0xFF) << 24))
        k = i32(k * m)
        k ^= (k & 0xFFFFFFFF) >> r
        k = i32(k * m)
        h = i32(h * m)
        h ^= k
    rem = length % 4
    base = length & ~3
    if rem == 3:
        h ^= i32((sdata[base + 2] & 0xFF) << 16)
    if rem >= 2:
        h ^= i32((sdata[base + 1] & 0xFF) << 8)
    if rem >= 1:
        h ^= sdata[base] & 0xFF
        h = i32(h * m)
    h ^= (h & 0xFFFFFFFF) >> 13
    h = i32(h * m)
    h ^= (h & 0xFFFFFFFF) >> 15
    return h


def impl_murmur(key):
    from afkak.partitioner import pure_murmur2
    return [pure_murmur2(bytearray(key))]


def impl_hashed(key, parts, form):
    from afkak.partitioner import HashedPartitioner
    # constructed with a DIFFERENT list than the one passed to partition(): the result may depend only on
    # the key and the list supplied with the call
    hp = HashedPartitioner("t", list(range(len(key) % 7 + 1)))
    try:
        if form == "text":
            k = "".join(chr(c) for c in key)
        elif form == "bytes":
            k = bytes(key)
        else:
            k = bytearray(key)
        p = hp.partition(k, list(parts))
        p2 = hp.partition(k, list(parts))
        if p != p2:
            return [-2]
        return [1, p]
    except (ZeroDivisionError, UnicodeEncodeError):
        return [0]
    except IndexError:
        return [-3]     # never a legal outcome for a non-empty list: shows up as a difference


def impl_rr(random_start, init, calls, rnd):
    """returns (outputs, starts actually drawn)"""
    import afkak.partitioner as P
    drawn = []

    def fake_randint(a, b):
        v = rnd.randint(a, b)
        drawn.append(v)
        return v
    old_r, old_flag = P.randint, P.RoundRobinPartitioner.randomStart
    P.randint = fake_randint
    outs, starts = [], []
    try:
        P.RoundRobinPartitioner.set_random_start(random_start)
        rr = P.RoundRobinPartitioner("t", list(init))
        start0 = drawn[-1] if drawn else 0
        for c in calls:
            n0 = len(drawn)
            try:
                outs.append(rr.partition(None, list(c)))
            except (StopIteration, ValueError):
                outs.append(-1)
                starts.append(0)
                break
            starts.append(drawn[-1] if len(drawn) > n0 else 0)
    finally:
        P.randint = old_r
        P.RoundRobinPartitioner.randomStart = old_flag
    return outs, start0, starts


def rr_case(init, start0, calls, starts):
    c = [4] + lp(init) + [start0]
    for parts, st in zip(calls, starts):
        c += lp(parts) + [st]
    return c



# ------------------------------------------------------------------ end-to-end through Producer
def producer_history(rnd):
    """list of (topic index, key bytes or None, partition list of that topic at call time)"""
    kind = rnd.choice(["rr", "rr", "hashed"])
    random_start = rnd.random() < 0.4
    ntopics = rnd.randint(1, 3)
    cur = {t: sorted(gen_parts(rnd, allow_empty=False)) for t in range(ntopics)}
    calls = []
    for _ in range(rnd.randint(3, 30)):
        t = rnd.randrange(ntopics)
        if rnd.random() < 0.12:
            cur[t] = sorted(gen_parts(rnd, allow_empty=False))
        key = gen_key(rnd)[:12] if kind == "hashed" else None
        calls.append((t, key, list(cur[t])))
    return {"kind": kind, "random_start": random_start, "calls": calls}


def impl_producer(hist, rnd):
    """Drive the real Producer (unbatched) over a stand-in client; observe the partition of each payload."""
    from twisted.internet import defer, task
    import afkak.partitioner as P
    from afkak.producer import Producer
    from afkak.common import ProduceResponse

    drawn = []

    def fake_randint(a, b):
        v = rnd.randint(a, b)
        drawn.append(v)
        return v

    class Client(object):
        def __init__(self):
            self.reactor = task.Clock()
            self.topic_partitions = {}
            self._api_versions = 0
            self.sent = []

        def metadata_error_for_topic(self, topic):
            return 0

        def load_metadata_for_topics(self, *topics):
            return defer.succeed(True)

        def reset_topic_metadata(self, *topics):
            pass

        def send_produce_request(self, payloads, **kw):
            self.sent.append([(p.topic, p.partition) for p in payloads])
            return defer.succeed([ProduceResponse(p.topic, p.partition, 0, 0) for p in payloads])

    client = Client()
    old_r, old_flag = P.randint, P.RoundRobinPartitioner.randomStart
    P.randint = fake_randint
    per_topic = {}
    try:
        P.RoundRobinPartitioner.set_random_start(hist["random_start"])
        cls = P.RoundRobinPartitioner if hist["kind"] == "rr" else P.HashedPartitioner
        prod = Producer(client, partitioner_class=cls)
        for t, key, parts in hist["calls"]:
            topic = "topic%d" % t
            client.topic_partitions[topic] = list(parts)
            n0, s0 = len(drawn), len(client.sent)
            prod.send_messages(topic, key=(bytes(key) if key is not None else None), msgs=[b"m"])
            chosen = client.sent[s0][0][1] if len(client.sent) > s0 else -1
            rec = per_topic.setdefault(t, [hist["kind"], hist["random_start"], None, 0, [], [], [], []])
            if rec[2] is None:                      # first call for the topic constructs the partitioner
                rec[2] = list(parts)
                rec[3] = drawn[n0] if len(drawn) > n0 else 0
                st = drawn[n0 + 1] if len(drawn) > n0 + 1 else 0
            else:
                st = drawn[n0] if len(drawn) > n0 else 0
            rec[4].append(list(parts))
            rec[5].append(st)
            rec[6].append(key)
            rec[7].append(chosen)
    finally:
        P.randint = old_r
        P.RoundRobinPartitioner.randomStart = old_flag
    return {t: tuple(v) for t, v in per_topic.items()}

# ------------------------------------------------------------------ monitors (theorem statements over impl traces)
def monitor_rr(calls, outs):
    """fairness: every maximal run of calls with an unchanged ascending list, cut into windows of n,
    selects each partition exactly (multiplicity) times; every selection is a member of the list."""
    i = 0
    while i < len(outs):
        parts = calls[i]
        j = i
        while j < len(outs) and calls[j] == parts:
            j += 1
        if outs[i:j] and any(o not in parts for o in outs[i:j] if o != -1):
            return "selection outside the list at call %d" % i
        if parts == sorted(parts) and parts:
            n = len(parts)
            w = i
            while w + n <= j:
                win = outs[w:w + n]
                if sorted(win) != sorted(parts):
                    return "unfair window calls[%d:%d] list=%r selections=%r" % (w, w + n, parts, win)
                w += n
        i = j
    return None


# ------------------------------------------------------------------ the check
def run(ck):
    vlib.import_repo()
    # translator tie: regenerate Model/MurmurGen.v from the CURRENT source, then re-check the theorems about it
    import os
    import py2coq
    tr_ok, tr_msg = py2coq.generate_murmur(vlib.REPO, os.path.join(vlib.COQ, "Model", "MurmurGen.v"))
    ck.cov["translator"] = {"source": os.path.join(vlib.REPO, "afkak/partitioner.py") + ":pure_murmur2", "translated": tr_ok, "message": tr_msg}
    ck.build([MODEL])
    ck.props()
    ck.make_soft("Props/C18gen.vo")
    ck.props("C18gen", soft=True)
    rnd = random.Random(ck.seed)
    scale = 1 if ck.tier == "quick" else 20
    describe = lambda c: {"op": c[0], "line": c[:40]}

    # --- 1. murmur2 on byte strings (ops 1 and 5: impl vs python-model and vs Java-model)
    keys = [[], [0], [255], [0x80] * 3, list(b"abc"), list(b"21"), list(b"foobar"),
            list(b"a-little-bit-long-string"), list(range(256))]
    keys += [gen_key(rnd) for _ in range(700 * scale)]
    for k in keys:
        ck.hist("keylen%%4=%d" % (len(k) % 4))
        if any(b >= 0x80 for b in k):
            ck.hist("key_has_high_byte")
    cases1 = [[1] + lp(k) for k in keys]
    cases5 = [[5] + lp(k) for k in keys]
    impl1 = [impl_murmur(k) for k in keys]
    for label, cases in (("pure_murmur2 vs Model.Murmur.pure_murmur2", cases1),
                         ("pure_murmur2 vs Model.Partitioner.murmur2_java (Java int32 reference)", cases5)):
        diffs, mo = ck.correspond(MODEL, MODULE, cases, impl1, label, nontrivial=lambda c, o: c[1] > 0, describe=describe)
        for i in diffs[:3]:
            k = shrink_key(keys[i], lambda kk: impl_murmur(kk)[0] != (java_murmur2(kk) & 0xFFFFFFFF))
            ck.violation({"kind": "murmur2 differs from the Java reference", "key_bytes": k,
                          "impl": impl_murmur(k)[0], "java": java_murmur2(k) & 0xFFFFFFFF, "replay_op": "murmur"})

    # --- 2. hashed partitioner on bytes / bytearray / text
    cases, impl, meta = [], [], []
    for _ in range(500 * scale):
        parts = gen_parts(rnd)
        if rnd.random() < 0.5:
            k = gen_key(rnd)
            form = rnd.choice(["bytes", "bytearray"])
            cases.append([2] + lp(k) + lp(parts))
        else:
            k = gen_text(rnd)
            form = "text"
            cases.append([3] + lp(k) + lp(parts))
        ck.hist("hashed_" + form)
        if not parts:
            ck.hist("hashed_empty_list")
        impl.append(impl_hashed(k, parts, form))
        meta.append((k, parts, form))
    diffs, mo = ck.correspond(MODEL, MODULE, cases, impl, "HashedPartitioner.partition vs Model.Partitioner.hashed_partition[_text]",
                              nontrivial=lambda c, o: o[0] == 1, describe=describe)
    for i in diffs[:3]:
        k, parts, form = meta[i]
        ck.violation({"kind": "hashed partition differs from the proved model (Java-compatible index)",
                      "key": k, "form": form, "partitions": parts, "impl": impl[i], "model": mo[i], "replay_op": "hashed"})
    # monitors: membership, text == utf-8 bytes
    for (k, parts, form), o in zip(meta, impl):
        if o[0] == 1 and o[1] not in parts:
            ck.violation({"kind": "result outside partition list", "key": k, "form": form, "partitions": parts, "impl": o, "replay_op": "hashed"})
        if o == [-2]:
            ck.violation({"kind": "non-deterministic partition()", "key": k, "form": form, "partitions": parts, "replay_op": "hashed"})
        if form == "text" and o[0] == 1:
            kb = list("".join(chr(c) for c in k).encode("utf-8"))
            if impl_hashed(kb, parts, "bytes") != o:
                ck.violation({"kind": "text and UTF-8 byte forms disagree", "key": k, "partitions": parts, "replay_op": "hashed"})

    # --- 3. round robin histories
    cases, impl, meta = [], [], []
    for _ in range(250 * scale):
        random_start, init, calls = gen_rr(rnd)
        outs, start0, starts = impl_rr(random_start, init, calls, rnd)
        ck.hist("rr_random_start" if random_start else "rr_fixed_start")
        ck.hist("rr_calls", len(outs))
        cases.append(rr_case(init, start0, calls, starts))
        impl.append(outs)
        meta.append((random_start, init, calls, start0, starts))
        bad = monitor_rr(calls, outs)
        if bad:
            ck.violation({"kind": "round-robin fairness monitor", "what": bad, "random_start": random_start, "init": init,
                          "calls": calls, "start0": start0, "starts": starts, "outputs": outs, "replay_op": "rr"})
    diffs, mo = ck.correspond(MODEL, MODULE, cases, impl, "RoundRobinPartitioner history vs Model.Partitioner.rr_run",
                              nontrivial=lambda c, o: len(o) >= 3, describe=describe)
    if diffs and not ck.violations:
        i = diffs[0]
        ck.violation({"kind": "correspondence broken", "correspondence": "corr:partitioner:rr_run",
                      "theorems_no_longer_tied": ["C18_rr_fair", "C18_rr_restart"],
                      "case": meta[i], "impl": impl[i], "model": mo[i], "replay_op": "rr"}, no_input=True)

    # --- 4. end to end through the real Producer (producer.py:327-335: one partitioner per topic,
    #        the CURRENT partition list of the client passed on every call)
    cases, impl, meta = [], [], []
    for _ in range(60 * scale):
        hist = producer_history(rnd)
        per_topic = impl_producer(hist, rnd)
        ck.hist("producer_histories")
        for topic, (kind, random_start, init, start0, calls, starts, keys, outs) in sorted(per_topic.items()):
            if kind == "rr":
                cases.append(rr_case(init, start0, calls, starts))
                impl.append(outs)
                meta.append((hist, topic))
                bad = monitor_rr(calls, outs)
                if bad:
                    ck.violation({"kind": "round-robin fairness monitor (through Producer)", "what": bad, "history": hist,
                                  "topic": topic, "outputs": outs, "replay_op": "producer"})
            else:
                for k, parts, o in zip(keys, calls, outs):
                    cases.append([2] + lp(k) + lp(parts))
                    impl.append([1, o] if o >= 0 else [0])
                    meta.append((hist, topic))
    diffs, mo = ck.correspond(MODEL, MODULE, cases, impl, "partitions chosen by the real Producer vs Model.Partitioner (per-topic rr_run / hashed_partition)",
                              nontrivial=lambda c, o: len(o) >= 2, describe=describe)
    if diffs and not ck.violations:
        i = diffs[0]
        ck.violation({"kind": "producer does not drive its partitioner as the model says (one partitioner per topic, current list)",
                      "history": meta[i][0], "topic": meta[i][1], "impl": impl[i], "model": mo[i], "replay_op": "producer"})

    ck.resolve_soft()   # broken translator-tied theorem and no concrete failing input found above => still a violation
    if ck.tier == "thorough":
        ck.coqchk(["AV.Props.C18"] + ([] if getattr(ck, "soft_broken", None) else ["AV.Props.C18gen"]))
    ck.cov["rule"] = ("seeded generator (random.Random(VERIF_SEED)): byte keys of every length mod 4 incl. bytes>=0x80 and up to 600 bytes, "
                      "text keys incl. non-BMP and lone surrogates, partition lists (contiguous, sparse, unsorted, duplicated, empty), "
                      "round-robin histories with list changes and random/fixed start (randint values read back). "
                      "A case is non-trivial if the key is non-empty / a partition was returned / the history has >=3 selections; "
                      "distinct = distinct canonical case lines.")
    ck.assumptions += [
        "pure_murmur2: Model/MurmurGen.v is regenerated from the source by the translator harness/py2coq.py (trusted: the translator's reading of Python ints as Z, //,% as Z.div/Z.modulo on non-negative operands, indexing as nth) and proved equal to the hand model on every run",
        "hand-written Gallina models Model/Murmur.v, Model/Partitioner.v stand for afkak/partitioner.py:29-99,131-219 (HashedPartitioner/RoundRobinPartitioner tie checked by this run's correspondence only)",
        "murmur2_java is a transcription of org.apache.kafka.common.utils.Utils.murmur2 with two's-complement int32 semantics (validated against Kafka's UtilsTest vectors in Props/C18.v)",
        "CPython str.encode('UTF-8') modelled by Model.Partitioner.utf8 (checked by correspondence)",
        "extraction: Require Extraction ExtrOcamlBasic only (bool, option, unit, list, prod, sumbool, sumor to OCaml natives); Z/positive/nat stay Coq datatypes; OCaml 4.13.1 ocamlopt; sample re-evaluated in Coq by vm_compute",
        "the C murmurhash2 extension is not installed in this sandbox; only the pure-Python path is exercised",
    ]
    ck.cov["trusted_base"] += ["correspondence harness harness/props/C18.py + harness/vlib.py", "extracted OCaml runner (ExtrOcamlBasic) cross-checked by vm_compute sample"]


def shrink_key(key, bad):
    key = list(key)
    changed = True
    while changed and len(key) > 0:
        changed = False
        for i in range(len(key)):
            cand = key[:i] + key[i + 1:]
            if bad(cand):
                key, changed = cand, True
                break
    return key


def replay(rp):
    op = rp.get("replay_op")
    if op == "murmur":
        k = rp["key_bytes"]
        a, b = impl_murmur(k)[0], java_murmur2(k) & 0xFFFFFFFF
        print("key", k, "impl", a, "java", b)
        return 0 if a == b else 1
    if op == "hashed":
        print(rp)
        print("impl now:", impl_hashed(rp["key"], rp["partitions"], rp.get("form", "bytes")))
        return 1
    if op == "rr":
        print(json_dump(rp))
        return 1
    print(rp)
    return 1


def json_dump(x):
    import json
    return json.dumps(x, indent=1, default=repr)
