# C12 - corrupted or truncated data is never delivered; hostile length/count fields cannot buy work.
#
#   part A  valid message sets (flat and gzip-nested, both formats): real decoder == model == what was encoded
#   part B  corruption: EVERY single-bit flip of one entry of a valid set (offset field, size field, CRC field, body)
#           and random bursts (<= 32 bits in the CRC's bit order, <= 4 bytes) inside the checksummed region.
#           monitor = C12_flip_detected / C12_crc_field_detected / C12_corrupt_in_set restated on the implementation:
#           the messages before the damaged entry, then ChecksumError; the damaged entry is never returned.
#           Hits on the size field: never the damaged entry, one of the listed outcomes.  Hits on the offset field (not
#           covered by the CRC in formats 0/1): contents unaltered.
#   part C  every truncation point of valid sets: exactly the complete entries before the cut, else FetchTooSmall
#           (C12_truncation), directly and through decode_fetch_response.
#   part D  a SEPARATE malformed stream (hostile counts and lengths, mutated valid responses, random bytes, count
#           bombs, a decompression bomb) into every decode_* function and the message-set decoder, with a work monitor
#           on the implementation: executed source lines of afkak (sys.settrace), wall time and tracemalloc peak must be
#           bounded by constants times (input bytes + decompressed bytes).  Correspondence with the models `resp`
#           (Model.Responses, owned by C05) and `codec`.
#   part E  the real Consumer over really truncated fetch responses vs Model.FetchGrow (C12_consumer_*).
#   plus    the selftest of the shared codec models (harness/props/codec_lib.py).
import random
import struct
import sys
import time
import tracemalloc
import zlib

import vlib
from vlib import lp

from props import codec_lib as CL

CODEC, CODEC_MOD = "codec", "Model.CodecRun"
RESP, RESP_MOD = "resp", "Model.RespRun"
GROW, GROW_MOD = "fetchgrow", "Model.FetchGrow"

# work bounds (implementation side).  n = input bytes + bytes returned by the decompressor
LINES_BASE, LINES_PER_BYTE = 400, 8           # executed afkak source lines (worst ratio on the unchanged tree: 2.6/byte)
COPY_BASE, COPY_PER_BYTE = 4096, 12           # bytes copied out of the input by slicing (unchanged tree: about 3/byte)
SCALE_RATIO = 10.0                            # wall time of a 4x larger input / wall time of the input (linear: 4, quadratic: 16)
MEM_BASE, MEM_PER_BYTE = 256 * 1024, 512      # tracemalloc peak above the level before the call
TIME_BASE, TIME_PER_BYTE = 2.0, 50e-6         # seconds (generous on purpose: wall time on a shared machine must never raise a false alarm; the line and copy counters are the sharp bounds)


# ====================================================================== structured valid messages
class Plain(object):
    """an uncompressed message; fields() is what the decoder must report"""

    def __init__(self, magic, attr, key, value, ts):
        self.magic, self.attr, self.key, self.value, self.ts = magic, attr, key, value, (ts if magic == 1 else None)

    def raw(self):
        return CL.raw_msg(self.magic, self.attr, self.key, self.value, self.ts)

    def fields(self):
        return (self.magic, self.attr, self.key, self.value, self.ts)


def gen_plain(rnd, maxlen=14):
    magic = rnd.choice([0, 1])
    ts = rnd.choice([0, 1, -1, 1500000000000, 2 ** 63 - 1, -2 ** 63, rnd.getrandbits(40)])
    attr = rnd.choice([0, 0, 0, 8, 0xF0, 0xFC])
    return Plain(magic, attr, CL.gen_ob(rnd, 6), CL.gen_ob(rnd, maxlen), ts)


def wrapper_entry(rnd, offset, magic, inner):
    """a gzip wrapper entry around [Plain] as a broker stores it; returns (offset, bytes, expected [(off, fields)])"""
    k = len(inner)
    first = offset - k + 1
    if magic == 0:
        ents = [(first + i, m.raw()) for i, m in enumerate(inner)]
    else:
        ents = [(i, m.raw()) for i, m in enumerate(inner)]
    raw = CL.raw_msg(magic, 1, None, CL.gz(CL.raw_set(ents)), 5 if magic == 1 else None)
    return offset, raw, [(first + i, m.fields()) for i, m in enumerate(inner)]


def gen_set(rnd, n, base, wrappers=0.0, maxlen=14):
    """returns (entries [(offset, bytes)], expected per entry [[(off, fields)]])"""
    entries, expect, off = [], [], base
    for _ in range(n):
        if rnd.random() < wrappers:
            k = rnd.randint(1, 3)
            o, raw, exp = wrapper_entry(rnd, off + k - 1, rnd.choice([0, 1]), [gen_plain(rnd, maxlen) for _ in range(k)])
            entries.append((o, raw))
            expect.append(exp)
            off += k
        else:
            m = gen_plain(rnd, maxlen)
            entries.append((off, m.raw()))
            expect.append([(off, m.fields())])
            off += 1
    return entries, expect


def decode_impl(data):
    """(trace, oracle ints, [(off, fields)], outcome) of the REAL KafkaCodec._decode_message_set_iter"""
    tr, orc = CL.impl_decode_set(data)
    msgs, outcome = CL.decoded_messages(tr)
    return tr, orc, msgs, outcome


def err_name(code):
    return "exhausted" if code == 0 else CL.ERR_NAMES.get(code, "code%d" % code)


# ====================================================================== part B: corruption
def burst_pattern(rnd, nbits_total):
    """a non-zero error pattern whose set bits span <= 32 consecutive positions of the CRC's bit order
    (byte by byte, least significant bit first); returns sorted bit positions"""
    width = rnd.choice([1, 2, 3, 8, 9, 16, 17, 31, 32, 32, rnd.randint(2, 32)])
    width = min(width, nbits_total)
    start = rnd.randrange(nbits_total - width + 1)
    bits = {start, start + width - 1}
    for i in range(start + 1, start + width - 1):
        if rnd.random() < 0.5:
            bits.add(i)
    return sorted(bits)


def apply_bits(data, base_byte, bits):
    b = bytearray(data)
    for i in bits:
        b[base_byte + i // 8] ^= 1 << (i % 8)
    return bytes(b)


def corruption_verdict(region, victim_index, expect, msgs, outcome):
    """the theorem statements over the implementation's result.  expect = per-entry expected messages of the
    undamaged set; returns None or a description of the failure."""
    before = [x for e in expect[:victim_index] for x in e]
    if region in ("crc", "body"):
        if msgs != before or outcome != CL.E_CHECKSUM:
            return "damage in the %s of entry %d: expected the %d message(s) before it and ChecksumError, got %d message(s) and %s" % (
                "CRC field" if region == "crc" else "checksummed bytes", victim_index, len(before), len(msgs), err_name(outcome))
        return None
    if region == "size":
        allowed = {CL.E_CHECKSUM, 0, CL.E_PROTOCOL, CL.E_TYPE} if before else {CL.E_CHECKSUM, CL.E_FETCHSMALL, CL.E_PROTOCOL, CL.E_TYPE}
        if msgs != before:
            return "damage in the size field of entry %d: messages other than the %d before it were returned (%d)" % (victim_index, len(before), len(msgs))
        if outcome not in allowed:
            return "damage in the size field of entry %d: outcome %s not in the listed ones" % (victim_index, err_name(outcome))
        return None
    # offset field: outside the checksum in formats 0 and 1; the contents must still be the original ones
    want = [x[1] for e in expect for x in e]
    if [m[1] for m in msgs] != want or outcome != 0:
        return "damage in the offset field of entry %d altered message contents or the outcome (%s)" % (victim_index, err_name(outcome))
    return None


# ====================================================================== part C: truncation
def truncation_verdict(entries, expect, cut, msgs, outcome):
    pos, whole = 0, []
    for (o, raw), exp in zip(entries, expect):
        pos += 12 + len(raw)
        if pos <= cut:
            whole += exp
        else:
            break
    want_outcome = 0 if (whole or cut == 0) else CL.E_FETCHSMALL
    if msgs != whole or outcome != want_outcome:
        return "cut at %d: expected %d complete message(s) then %s, got %d then %s" % (cut, len(whole), err_name(want_outcome), len(msgs), err_name(outcome))
    return None


def fetch_response_bytes(records, corr=7, topic=b"t", partition=0, error=0, hwm=1000):
    """a v0 FetchResponse holding one partition (built by hand from the protocol guide)"""
    rs = struct.pack(">i", -1) if records is None else struct.pack(">i", len(records)) + bytes(records)
    return (struct.pack(">ii", corr, 1) + struct.pack(">h", len(topic)) + topic + struct.pack(">i", 1)
            + struct.pack(">ihq", partition, error, hwm) + rs)


# ====================================================================== part D: work monitor
class WorkBudgetExceeded(BaseException):
    pass


class CountingBytes(bytes):
    """a bytes object that counts how many bytes the code copies out of it (and out of its slices) by indexing with a
    slice: the deterministic measure of byte-level work (re-slicing the remaining buffer on every iteration is
    quadratic in it while executing the same source lines)"""
    copied = [0]

    def __getitem__(self, k):
        r = bytes.__getitem__(self, k)
        if isinstance(k, slice):
            CountingBytes.copied[0] += len(r)
            return CountingBytes(r)
        return r


def copied_bytes(f, data):
    """(result, bytes copied by slicing) of f(CountingBytes(data))"""
    CountingBytes.copied[0] = 0
    res = f(CountingBytes(data))
    return res, CountingBytes.copied[0]


def best_time(f, reps):
    best = None
    for _ in range(reps):
        t0 = time.perf_counter()
        f()
        dt = time.perf_counter() - t0
        best = dt if best is None or dt < best else best
    return best


class Meter(object):
    """counts executed source lines of files under <repo>/afkak while active; aborts the call when over budget"""

    def __init__(self):
        import os
        self.prefix = os.path.join(os.path.abspath(vlib.REPO), "afkak") + os.sep
        self.lines = 0
        self.budget = 0
        self._known = {}

    def _local(self, frame, event, arg):
        if event == "line":
            self.lines += 1
            if self.lines > self.budget:
                raise WorkBudgetExceeded()
        return self._local

    def _global(self, frame, event, arg):
        fn = frame.f_code.co_filename
        k = self._known.get(fn)
        if k is None:
            k = self._known[fn] = fn.startswith(self.prefix)
        return self._local if k else None

    def run(self, f, budget):
        """returns (result or None, lines, seconds, peak bytes, aborted)"""
        self.lines, self.budget = 0, budget
        tracemalloc.reset_peak()
        base = tracemalloc.get_traced_memory()[0]
        old = sys.gettrace()
        t0 = time.perf_counter()
        sys.settrace(self._global)
        try:
            res, aborted = f(), False
        except WorkBudgetExceeded:
            res, aborted = None, True
        finally:
            sys.settrace(old)
        dt = time.perf_counter() - t0
        peak = tracemalloc.get_traced_memory()[1] - base
        return res, self.lines, dt, max(peak, 0), aborted


def oracle_out_bytes(orc):
    """sum of the lengths of the answers in an ORACLE int list (codec_lib.Recorder.oracle)"""
    if not orc:
        return 0
    n, i, total = orc[1], 2, 0
    for _ in range(n):
        i += 1                      # kind
        i += 1 + orc[i]             # LP(input)
        i += 1                      # status
        total += orc[i]
        i += 1 + orc[i]             # LP(output)
    return total


HOSTILE32 = [-1, -2, -3, -2 ** 31, -2 ** 31 + 1, 2 ** 31 - 1, 2 ** 31 - 2, 10 ** 7, 10 ** 6, 65536, 65535, 1025, 1024, 256, 0, 1, 2]
HOSTILE16 = [-1, -2, -3, -2 ** 15, 2 ** 15 - 1, 2 ** 15 - 2, 1024, 256, 0, 1]


def hostile_mutations(rnd, data, n):
    """length/count oriented mutations of a valid response"""
    data, out = bytes(data), []
    for _ in range(n):
        b = bytearray(data)
        r = rnd.random()
        if r < 0.45 and len(b) >= 4:
            p = rnd.randrange(len(b) - 3)
            b[p:p + 4] = struct.pack(">i", rnd.choice(HOSTILE32))
            out.append(("count32", bytes(b)))
        elif r < 0.65 and len(b) >= 2:
            p = rnd.randrange(len(b) - 1)
            b[p:p + 2] = struct.pack(">h", rnd.choice(HOSTILE16))
            out.append(("len16", bytes(b)))
        elif r < 0.75 and len(b) >= 8:     # two hostile fields at once (count, then the length of its first item)
            p = rnd.randrange(len(b) - 7)
            b[p:p + 4] = struct.pack(">i", rnd.choice(HOSTILE32))
            b[p + 4:p + 6] = struct.pack(">h", rnd.choice(HOSTILE16))
            out.append(("count32+len16", bytes(b)))
        elif r < 0.85 and len(b) > 0:
            out.append(("truncated", bytes(b[:rnd.randrange(len(b))])))
        elif r < 0.92:
            out.append(("extended", bytes(b) + CL.rbytes(rnd, rnd.randint(1, 9))))
        elif len(b) > 0:
            for _ in range(rnd.randint(1, 3)):
                b[rnd.randrange(len(b))] = rnd.choice([0, 0xFF, 0x7F, 0x80, rnd.getrandbits(8)])
            out.append(("bytes", bytes(b)))
    return out


def count_bombs():
    """hand-made inputs: a huge count followed by almost nothing, by items that make no progress (length fields below
    -1: the F-C12-1 shape), or by a few good items.  yields (api, ver, bytes, label)"""
    big = [10 ** 7, 2 ** 31 - 1, 10 ** 6]
    i32 = lambda v: struct.pack(">i", v)
    i16 = lambda v: struct.pack(">h", v)
    i64 = lambda v: struct.pack(">q", v)
    s = lambda b: i16(len(b)) + b
    neg16 = [i16(-2), i16(-3), i16(-2 ** 15), i16(-2) * 4]
    neg32 = [i32(-2), i32(-2 ** 31), i32(-6)]
    for n in big:
        for tail in [b"", b"\x00", s(b"a"), s(b"a") * 3] + neg16:
            yield "subscription", 0, i16(0) + i32(n) + tail, "bomb_subscriptions"
            yield "join", 0, i32(1) + i16(0) + i32(1) + s(b"p") + s(b"l") + s(b"m") + i32(n) + tail, "bomb_members"
            yield "assignment", 0, i16(0) + i32(n) + tail, "bomb_assignments"
            for api in ("produce", "fetch", "offsets", "commit", "ofetch"):
                yield api, 0, i32(1) + i32(n) + tail, "bomb_topics"
                yield api, 0, i32(1) + i32(1) + s(b"t") + i32(n) + tail, "bomb_partitions"
            yield "produce", 2, i32(1) + i32(n) + tail, "bomb_topics"
            yield "fetch", 2, i32(1) + i32(0) + i32(n) + tail, "bomb_topics"
            yield "metadata", 0, i32(1) + i32(0) + i32(n) + tail, "bomb_topic_metadata"
            yield "metadata", 0, i32(1) + i32(min(n, 1024)) + tail, "bomb_brokers_1024"
            yield "metadata", 0, i32(1) + i32(n) + tail, "bomb_brokers"
            yield "metadata", 0, i32(1) + i32(0) + i32(1) + i16(0) + s(b"t") + i32(n) + tail, "bomb_partition_metadata"
            yield "metadata", 0, i32(1) + i32(0) + i32(1) + i16(0) + s(b"t") + i32(1) + i16(0) + i32(0) + i32(0) + i32(n) + tail, "bomb_replicas"
            yield "metadata", 0, i32(1) + i32(0) + i32(1) + i16(0) + s(b"t") + i32(1) + i16(0) + i32(0) + i32(0) + i32(0) + i32(n) + tail, "bomb_isr"
            yield "offsets", 0, i32(1) + i32(1) + s(b"t") + i32(1) + i32(0) + i16(0) + i32(n) + tail, "bomb_offsets"
            yield "apiversions", 0, i32(1) + i16(0) + i32(n) + tail, "bomb_api_versions"
            yield "assignment", 0, i16(0) + i32(1) + s(b"t") + i32(n) + tail, "bomb_assigned_partitions"
        for tail in neg32:
            yield "join", 0, i32(1) + i16(0) + i32(1) + s(b"p") + s(b"l") + s(b"m") + i32(n) + s(b"x") + tail, "bomb_member_metadata_neg"
            yield "sync", 0, i32(1) + i16(0) + tail, "neg_assignment"
            yield "fetch", 0, i32(1) + i32(1) + s(b"t") + i32(n) + i32(0) + i16(0) + i64(0) + tail, "bomb_partitions_neg_records"
            yield "ofetch", 0, i32(1) + i32(1) + s(b"t") + i32(n) + i32(0) + i64(0) + i16(-2), "bomb_partitions_neg_metadata"
    # negative counts: no iteration at all
    for n in (-1, -2, -2 ** 31):
        yield "subscription", 0, i16(0) + i32(n) + i32(-1), "negative_count"
        yield "produce", 0, i32(1) + i32(n), "negative_count"
        yield "metadata", 0, i32(1) + i32(n) + i32(0), "negative_count"
        yield "metadata", 0, i32(1) + i32(0) + i32(1) + i16(0) + s(b"t") + i32(1) + i16(0) + i32(0) + i32(0) + i32(n), "negative_replicas"


def run_decoder(api, ver, data):
    """the REAL decoder run to completion on `data` (any bytes-like), results discarded; exceptions propagate"""
    from afkak.kafkacodec import KafkaCodec as K
    if api == "msgset":
        for _ in K._decode_message_set_iter(data):
            pass
    elif api == "fetch":
        for x in K.decode_fetch_response(data, ver):
            for _ in x.messages:
                pass
    elif api == "produce":
        for _ in K.decode_produce_response(data, ver):
            pass
    elif api in ("offsets", "commit", "ofetch"):
        f = {"offsets": K.decode_offset_response, "commit": K.decode_offset_commit_response, "ofetch": K.decode_offset_fetch_response}[api]
        for _ in f(data):
            pass
    else:
        {"metadata": K.decode_metadata_response, "apiversions": K.decode_api_versions_response, "join": K.decode_join_group_response,
         "subscription": K.decode_join_group_protocol_metadata, "assignment": K.decode_sync_group_member_assignment,
         "coordinator": K.decode_consumermetadata_response, "sync": K.decode_sync_group_response,
         "heartbeat": K.decode_heartbeat_response, "leave": K.decode_leave_group_response, "corr": K.get_response_correlation_id}[api](data)


def scaling_inputs(R, n):
    """valid inputs whose size grows linearly with n (n = number of repeated small items); yields (api, ver, bytes)"""
    tiny = lambda k: CL.raw_set([(i, CL.raw_msg(i % 2, 0, None, b"", 3)) for i in range(k)])
    yield "msgset", 0, tiny(n)
    yield "msgset", 0, CL.raw_set([(n - 1, CL.raw_msg(0, 1, None, CL.gz(tiny(n))))])          # the same inside one wrapper
    yield "fetch", 0, R.spec_bytes("fetch", (1, 0, [(b"t", [(p, 0, 5, tiny(20)) for p in range(n // 20)])]), 0)
    yield "produce", 2, R.spec_bytes("produce", (2, [(b"t%d" % t, [(p, 0, p, p) for p in range(50)]) for t in range(n // 50)], 7), 2)
    yield "metadata", 0, R.spec_bytes("metadata", (9, [(i, b"host", 9092) for i in range(min(n // 50, 1024))],
                                                   [(0, b"t%d" % t, [(0, p, 1, [1, 2, 3], [1, 2]) for p in range(20)]) for t in range(n // 40)]), 0)
    yield "offsets", 0, R.spec_bytes("offsets", (1, [(b"t", [(p, 0, list(range(40))) for p in range(n // 20)])]), 0)
    yield "commit", 0, R.spec_bytes("commit", (1, [(b"t%d" % t, [(p, 0) for p in range(40)]) for t in range(n // 20)]), 0)
    yield "ofetch", 0, R.spec_bytes("ofetch", (1, [(b"t%d" % t, [(p, p, b"md", 0) for p in range(40)]) for t in range(n // 30)]), 0)
    yield "apiversions", 0, R.spec_bytes("apiversions", (1, 0, [(k % 30000, 0, 9) for k in range(n * 2)]), 0)
    yield "join", 0, R.spec_bytes("join", (1, 0, 3, b"p", b"l", b"m", [(b"member-%d" % i, b"x" * 20) for i in range(n // 2)]), 0)
    yield "subscription", 0, R.spec_bytes("subscription", (0, [b"topic-%d" % i for i in range(n)], b"ud"), 0)
    yield "assignment", 0, R.spec_bytes("assignment", (0, [(b"t%d" % t, list(range(30))) for t in range(n // 10)], None), 0)


# ====================================================================== part E: the consumer
def entry_bytes(off, size_hint, rnd):
    m = CL.raw_msg(rnd.choice([0, 1]), 0, None, CL.rbytes(rnd, max(0, size_hint)), 3)
    return struct.pack(">qi", off, len(m)) + m


def impl_consumer(off, buf, maxbuf, replies):
    """Drive the REAL Consumer.  replies = list of record-set byte strings, the i-th answers the i-th fetch request,
    or a function (i, offset, max_bytes) -> record-set bytes | None (None = stop).
    Returns the trace (1 off max_bytes | 2 | 3 n offsets*n | 8 | 9 code)* in order of occurrence."""
    from twisted.internet import defer, task
    from afkak.common import ConsumerFetchSizeTooSmall
    from afkak.consumer import Consumer
    from afkak.kafkacodec import KafkaCodec
    out = []

    class Client(object):
        def __init__(self):
            self.reactor = task.Clock()
            self.pending = None
            self.last = None

        def send_fetch_request(self, payloads, fail_on_error=True, callback=None, max_wait_time=None, min_bytes=None):
            (p,) = payloads
            out.extend([1, p.offset, p.max_bytes])
            self.last = (p.offset, p.max_bytes)
            self.pending = defer.Deferred()
            return self.pending

    def processor(consumer, msgs):
        out.extend([3, len(msgs)] + [m.offset for m in msgs])

    client = Client()
    c = Consumer(client, "t", 0, processor, buffer_size=buf, max_buffer_size=maxbuf)
    d = c.start(off)

    def failed(f):
        out.extend([2] if f.check(ConsumerFetchSizeTooSmall) else [9, CL.exc_code(f.value)])
    d.addCallbacks(lambda v: out.extend([8]), failed)
    i = 0
    while client.pending is not None:
        if callable(replies):
            rec = replies(i, client.last[0], client.last[1])
        else:
            rec = replies[i] if i < len(replies) else None
        if rec is None:
            break
        i += 1
        p, client.pending = client.pending, None
        p.callback(list(KafkaCodec.decode_fetch_response(fetch_response_bytes(rec))))
        client.reactor.advance(100)          # callLater(0) after an answer; the retry delay (<= 30 s) after a decoding error
    return out


def parse_ctrace(trace):
    """[("fetch", off, max_bytes) | ("deliver", [offsets]) | ("failed",) | ("other", code...)]"""
    items, i = [], 0
    while i < len(trace):
        if trace[i] == 1:
            items.append(("fetch", trace[i + 1], trace[i + 2]))
            i += 3
        elif trace[i] == 3:
            n = trace[i + 1]
            items.append(("deliver", list(trace[i + 2:i + 2 + n])))
            i += 2 + n
        elif trace[i] == 2:
            items.append(("failed",))
            i += 1
        else:
            items.append(("other",) + tuple(trace[i:i + 2]))
            i += 2 if trace[i] == 9 else 1
    return items


CLEAN, TOOSMALL, CORRUPT = 0, 1, 2


def grow_case(off, buf, maxbuf, events):
    """events = [(offsets the decoder yields, tail)]"""
    c = [1, off, buf, 0 if maxbuf is None else 1, 0 if maxbuf is None else maxbuf, len(events)]
    for offs, tail in events:
        c += [tail] + lp(offs)
    return c


def small_entry(off, rnd, size=None):
    m = CL.raw_msg(rnd.choice([0, 1]), 0, None, CL.rbytes(rnd, rnd.randint(0, 12) if size is None else size), 3)
    return struct.pack(">qi", off, len(m)) + m


def reply_for(offs, tail, rnd):
    """a record set for which the real set decoder yields exactly the offsets `offs` and then ends as `tail` says"""
    rec, i = b"", 0
    while i < len(offs):
        # now and then a real gzip wrapper (format 0: absolute inner offsets) around a stretch of the offsets
        k = rnd.randint(2, 3)
        if rnd.random() < 0.25 and i + k <= len(offs):
            inner = b"".join(small_entry(o, rnd) for o in offs[i:i + k])
            w = CL.raw_msg(0, 1, None, CL.gz(inner))
            rec += struct.pack(">qi", offs[i + k - 1], len(w)) + w
            i += k
        else:
            rec += small_entry(offs[i], rnd)
            i += 1
    nxt = (offs[-1] + 1) if offs else 0
    if tail == CLEAN:
        if offs and rnd.random() < 0.5:           # a cut entry behind complete ones is dropped silently
            e = small_entry(nxt, rnd, 10)
            rec += e[:rnd.randint(1, len(e) - 1)]
    elif tail == TOOSMALL:
        e = small_entry(nxt, rnd, 10)
        cut = e[:rnd.randint(1, len(e) - 1)]
        if offs or rnd.random() < 0.3:            # after messages only a wrapper whose INNER set is cut can raise it
            w = CL.raw_msg(rnd.choice([0, 1]), 1, None, CL.gz(cut), 5)
            rec += struct.pack(">qi", nxt, len(w)) + w
        else:
            rec += cut
    else:
        kind = rnd.choice(["crc", "crc", "codec", "gzip", "neglen"])
        if kind == "crc":
            m = CL.raw_msg(rnd.choice([0, 1]), 0, None, b"damaged", 3, crc=rnd.getrandbits(32))
            if struct.unpack(">I", m[:4])[0] == (zlib.crc32(m[4:]) & 0xFFFFFFFF):
                m = bytes([m[0] ^ 1]) + m[1:]
        elif kind == "codec":
            m = CL.raw_msg(0, 3, None, b"zz")
        elif kind == "gzip":
            m = CL.raw_msg(0, 1, None, b"not gzip at all")
        else:
            body = struct.pack(">BB", 0, 0) + struct.pack(">i", -5) + struct.pack(">i", 0)
            m = struct.pack(">I", zlib.crc32(body) & 0xFFFFFFFF) + body
        rec += struct.pack(">qi", nxt, len(m)) + m
    return rec


def py_accept(fo, offs):
    """the rule of consumer.py:941-957 restated (used only to steer the generator, never as an oracle)"""
    kept = []
    for o in offs:
        if o >= fo:
            kept.append(o)
            fo = o + 1
    return kept, fo


def consumer_monitor(trace, events, start, maxbuf):
    """C12_consumer_grows / C12_consumer_no_repeat over the implementation trace.
    events[i] = (offsets yielded, tail) answers the i-th fetch request."""
    items = parse_ctrace(trace)
    for x in items:
        if x[0] == "other":
            return "unexpected outcome of the start Deferred: %r" % (x[1:],)
    if not items or items[0][0] != "fetch":
        return "the first output is not a fetch request"
    if items[0][1] != start:
        return "first request asks for %r, not the start offset %r" % (items[0][1], start)
    delivered = [o for x in items if x[0] == "deliver" for o in x[1]]
    if any(b <= a for a, b in zip(delivered, delivered[1:])):
        return "offsets handed to the processor are repeated or out of order: %r" % (delivered,)
    if delivered and delivered[0] < start:
        return "offset %d below the start offset %d handed to the processor" % (delivered[0], start)
    # segment: what happens between the i-th fetch and the next one belongs to the i-th answer
    segs, cur = [], None
    for x in items:
        if x[0] == "fetch":
            cur = {"fetch": x, "after": []}
            segs.append(cur)
        else:
            cur["after"].append(x)
    last = None     # last offset handed over so far
    for i, seg in enumerate(segs):
        _, fo, buf = seg["fetch"]
        want = start if last is None else last + 1
        if fo != want:
            return "request %d asks for offset %d but the last message handed over is %r (start %d): %s" % (
                i, fo, last, start, "skipped" if fo > want else "re-requested")
        if i >= len(events):
            if seg["after"]:
                return "activity without an answer"
            break
        offs, tail = events[i]
        kept = [o for x in seg["after"] if x[0] == "deliver" for o in x[1]]
        # every yielded offset at or after the (running) fetch offset must be handed over, nothing else
        run_fo, must = fo, []
        for o in offs:
            if o >= run_fo:
                must.append(o)
                run_fo = o + 1
        failed = ("failed",) in seg["after"]
        if failed and tail == TOOSMALL:
            must = []       # once the start Deferred has failed nothing more is handed over (consumer.py:1015-1021)
        if kept != must:
            return "answer %d yielded offsets %r at fetch offset %d: handed over %r, expected %r" % (i, offs, fo, kept, must)
        if kept:
            last = kept[-1]
        nxt = segs[i + 1]["fetch"] if i + 1 < len(segs) else None
        if tail == TOOSMALL:
            if failed:
                if maxbuf is None or buf < maxbuf:
                    return "start failed although the buffer %d is below the maximum %r" % (buf, maxbuf)
                if nxt is not None:
                    return "a request was sent after the start Deferred failed"
                return None
            if nxt is None:
                return "a too-small answer produced neither a new request nor a failure"
            if not nxt[2] > buf:
                return "buffer not enlarged after a too-small answer (%d -> %d)" % (buf, nxt[2])
            if maxbuf is not None and nxt[2] > maxbuf:
                return "buffer %d above max_buffer_size %d" % (nxt[2], maxbuf)
        else:
            if failed:
                return "start failed on an answer that is not too small"
            if nxt is None:
                return "no new request after answer %d" % i
            if nxt[2] != buf:
                return "buffer changed (%d -> %d) without a too-small answer" % (buf, nxt[2])
    return None


# ====================================================================== translator tie for afkak/_util.py (tie A)
def translator_tie(ck):
    """Props/C12gen.v (what the committed _util terms compute: obligations about committed files) and, per run,
    source -> symbolic execution -> term -> equal to the committed term.  Returns the functions whose tie is NOT intact
    (tie B, the correspondence, then gets a larger sample).  Never a violation by itself (two-ties rule)."""
    import os
    import py2util
    import util_tie
    ok, log = ck.make_soft("Props/C12gen.vo")
    if not ok:
        ck.cov["translator_tie"] = {"state": "unavailable: Props/C12gen.v does not build", "log": log[-800:]}
        return set(py2util.FUNCTIONS)
    ck.props("C12gen")
    try:
        r = util_tie.check(vlib.REPO)
    except Exception as e:  # noqa
        ck.cov["translator_tie"] = {"state": "unavailable: %r" % (e,)}
        return set(py2util.FUNCTIONS)
    intact = sorted(fn for fn, st in r["status"].items() if st == "intact")
    ck.cov["translator_tie"] = {
        "state": "intact for %d of %d functions of afkak/_util.py" % (len(intact), len(r["status"])),
        "source": os.path.join(vlib.REPO, "afkak/_util.py"), "per_function": r["status"],
        "dropped_by_translator": r["notes"], "scratch_dir": os.path.relpath(r["dir"], vlib.ROOT),
        "cached_result": r.get("cached", False)}
    ck.cov["obligations"] += len(intact)
    ck.cov["discharged"] += len(intact)
    ck.cov["theorems"] += [{"name": "gen_%s_is_ast (per run, %s)" % (fn, os.path.relpath(r["dir"], vlib.ROOT)),
                            "axioms": [], "accepted": True} for fn in intact]
    ck.cov["trusted_base"].append("translator harness/py2util.py (symbolic execution of afkak/_util.py: evaluation order, integers as Z, struct "
                                  "formats as Prim.pack_list / per-field Prim.unpack, slices with non-negative bounds, encode/decode as the model's "
                                  "ASCII/UTF-8 predicates, isinstance tests taken to hold, messages ignored, arithmetic normalised to linear forms)")
    down = {fn for fn in py2util.FUNCTIONS if r["status"].get(fn) != "intact"}
    # the consumer's pure arithmetic (growth handler, retry-delay update, reset sites): same scheme, harness/py2grow.py
    try:
        import grow_tie
        import py2grow
        g = grow_tie.check(vlib.REPO)
        gi = sorted(p for p, st in g["status"].items() if st == "intact")
        ck.cov["translator_tie"]["consumer_arithmetic"] = {
            "state": "intact for %d of %d parts (growth handler, delay update, reset sites)" % (len(gi), len(g["status"])),
            "source": os.path.join(vlib.REPO, "afkak/consumer.py"), "per_part": g["status"],
            "scratch_dir": os.path.relpath(g["dir"], vlib.ROOT), "cached_result": g.get("cached", False)}
        ck.cov["obligations"] += len(gi)
        ck.cov["discharged"] += len(gi)
        ck.cov["theorems"] += [{"name": "gen_%s_is_ast (per run, %s)" % (p, os.path.relpath(g["dir"], vlib.ROOT)),
                                "axioms": [], "accepted": True} for p in gi]
        ck.cov["trusted_base"].append("translator harness/py2grow.py (symbolic execution of the ConsumerFetchSizeTooSmall handler and of the retry-delay "
                                      "update: logging and Failure construction ignored, attribute reads as variables, float constant read as the exact decimal)")
        down |= {"consumer:" + p for p in py2grow.PARTS if g["status"].get(p) != "intact"}
    except Exception as e:  # noqa
        ck.cov["translator_tie"]["consumer_arithmetic"] = {"state": "unavailable: %r" % (e,)}
        down |= {"consumer:growth", "consumer:delay", "consumer:resets"}
    return down


def describe(c):
    return {"op": c[0], "line": c[:48]}


def run(ck):
    vlib.import_repo()
    ck.build([CODEC, RESP, GROW])
    ck.props()
    # optional extra tie C12 <-> C14: Model.FetchGrow.grow is Model.Consumer.grow_buffer.  Model/Consumer.v belongs to the
    # consumer properties; when it does not build (work in progress there) the tie is recorded as absent, nothing more.
    ok, log = ck.make_soft("Props/C12bridge.vo")
    ck.cov["bridge_to_Model.Consumer"] = "checked" if ok else "not checked: Props/C12bridge.vo does not build (%s)" % log[-300:]
    if ok:
        ck.props("C12bridge")
    from props import C05 as R          # implementation runners / generators of the response decoders (read-only use)
    rnd = random.Random(ck.seed)
    thorough = ck.tier == "thorough"
    scale = 12 if thorough else 1

    per_kind, suppressed = {}, [0]

    def violation(kind, what, data, extra=None, op="msgset", no_input=False):
        per_kind[kind] = per_kind.get(kind, 0) + 1
        if per_kind[kind] > 2:          # at most two replays per kind of failure, so that every kind gets one of the five slots
            suppressed[0] += 1
            return
        r = {"kind": kind, "what": what, "replay_op": op, "data_hex": bytes(data).hex() if data is not None else None}
        if extra and len(str(extra.get("original_hex", ""))) > 400000:      # keep replay files small: the damaged set is enough
            extra = dict(extra, original_hex=None, original_omitted="larger than 200 kB")
        r.update(extra or {})
        ck.violation(r, no_input=no_input)

    # summed cost bound for the response decoders, stated on C05's decoder language (Model/DecDSL.v, Model/DecAst.v: not ours);
    # when those do not build (work in progress there) the bound is recorded as absent, nothing more
    ok, log = ck.make_soft("Props/C12cost.vo")
    ck.cov["summed_decoder_cost_bound"] = "checked (Props/C12cost.v)" if ok else "not checked: Props/C12cost.vo does not build (%s)" % log[-300:]
    if ok:
        ck.props("C12cost")
    tie_down = translator_tie(ck)
    # ============================================================ 0. shared codec models still match the code
    # (two-ties rule: where the translator tie for _util.py is not intact the correspondence carries those functions
    # alone and gets a four times larger sample)
    util_down = {f for f in tie_down if not f.startswith("consumer:")}
    growth_down = "consumer:growth" in tie_down
    if util_down:
        ck.hist("selftest_enlarged_because_translator_tie_is_down_for_%d_functions" % len(util_down))
    n, diffs, hist, _ = CL.selftest(ck, ck.seed, (1 if not thorough else 4) * (4 if util_down else 1))
    ck.cov["correspondence"]["codec_lib.selftest: _util / struct / crc32 / message-set encoder+decoder vs Model.Prim/Crc/MsgSet"] = {
        "cases": n, "differences": len(diffs)}
    ck.cov["evaluations"] += n
    selftest_diffs = diffs       # reported at the end: replay slots go to concrete failing inputs first

    set_cases, set_impl, set_meta = [], [], []     # everything that goes to the model runner `codec`, op 8

    def add_set(label, data, tr, orc):
        set_cases.append(CL.case_decode_set(data, orc))
        set_impl.append(tr)
        set_meta.append((label, data))
        ck.hist("msgset/%s -> %s" % (label.split(":")[0], err_name(tr[-1])))

    # ============================================================ A. valid sets
    for i in range(80 * scale):
        ents, exp = gen_set(rnd, rnd.randint(1, 5), rnd.choice([0, 1, 100, 2 ** 40, rnd.getrandbits(30)]), wrappers=rnd.choice([0, 0, 0.4]))
        data = CL.raw_set(ents)
        tr, orc, msgs, outcome = decode_impl(data)
        add_set("valid", data, tr, orc)
        want = [x for e in exp for x in e]
        if msgs != want or outcome != 0:
            violation("valid message set not decoded to what was encoded", "got %d message(s) then %s, expected %d" % (len(msgs), err_name(outcome), len(want)),
                      data, {"expected": want[:20], "got": msgs[:20]})
    for i in range(20 * scale):      # deeper nesting: correspondence only
        data = CL.raw_set(CL.gen_tree(rnd, rnd.choice([1, 2, 3]), rnd.getrandbits(20)))
        tr, orc, msgs, outcome = decode_impl(data)
        add_set("valid_nested", data, tr, orc)

    # ============================================================ B. corruption
    nflip = nburst = 0
    region_hist = {}

    def corrupt_case(ents, exp, vi, damaged, region, what, to_model=True):
        tr, orc, msgs, outcome = decode_impl(damaged)
        if to_model:
            add_set("corrupt_" + region, damaged, tr, orc)
        else:
            ck.hist("msgset/corrupt_%s(large, implementation only) -> %s" % (region, err_name(tr[-1])))
        region_hist[(region, err_name(outcome))] = region_hist.get((region, err_name(outcome)), 0) + 1
        bad = corruption_verdict(region, vi, exp, msgs, outcome)
        if bad:
            violation("corrupted message data delivered or not reported as a checksum error", bad + " (" + what + ")", damaged,
                      {"original_hex": CL.raw_set(ents).hex(), "victim_entry": vi, "region": region, "delivered": msgs[:10], "outcome": err_name(outcome),
                       "messages_per_entry": [len(e) for e in exp]})

    nbase = 6 * scale + 2
    for i in range(nbase):
        # victim in the middle / first / a gzip wrapper / last / the smallest format-0 / format-1 message there is
        shape = i % 6
        ents, exp = gen_set(rnd, 3, rnd.choice([0, 5, 1000]), wrappers=0.0, maxlen=10 if not thorough else 40)
        vi = {0: 1, 1: 0, 2: 1, 3: 2, 4: rnd.choice([0, 1, 2]), 5: rnd.choice([0, 1, 2])}[shape]
        if shape >= 4:
            tiny = Plain(shape - 4, 0, None, rnd.choice([None, None, b""]), 7)
            ents[vi], exp[vi] = (ents[vi][0], tiny.raw()), [(ents[vi][0], tiny.fields())]
        if shape == 2:
            o, raw, e = wrapper_entry(rnd, ents[1][0] + 1, rnd.choice([0, 1]), [gen_plain(rnd, 6), gen_plain(rnd, 6)])
            ents[1], exp[1] = (o, raw), e
            ents[2] = (o + 1, ents[2][1])
            exp[2] = [(o + 1, exp[2][0][1])]
        data = CL.raw_set(ents)
        start = sum(12 + len(r) for _, r in ents[:vi])
        vlen = 12 + len(ents[vi][1])
        # the undamaged set decodes completely (otherwise the verdicts below mean nothing)
        tr0, orc0, msgs0, out0 = decode_impl(data)
        if msgs0 != [x for e in exp for x in e] or out0 != 0:
            violation("valid message set not decoded to what was encoded", "base set of the corruption campaign", data)
            continue
        bits = range(vlen * 8)
        if shape == 2 and not thorough:      # the compressed payload is long: every bit of the first 40 bytes, a sample of the rest
            bits = list(range(40 * 8)) + rnd.sample(range(40 * 8, vlen * 8), min(300, vlen * 8 - 320))
        for bit in bits:
            byte = bit // 8
            region = "offset" if byte < 8 else "size" if byte < 12 else "crc" if byte < 16 else "body"
            corrupt_case(ents, exp, vi, apply_bits(data, start, [bit]), region, "bit %d of the entry flipped" % bit)
            nflip += 1
        # bursts inside the checksummed bytes, and inside the CRC field
        body0, blen = start + 16, vlen - 16
        for _ in range(60 if not thorough else 200):
            pat = burst_pattern(rnd, blen * 8)
            damaged = apply_bits(data, body0, pat)
            corrupt_case(ents, exp, vi, damaged, "body", "burst of %d bit(s) spanning %d" % (len(pat), pat[-1] - pat[0] + 1))
            d0, d1 = data[body0:body0 + blen], damaged[body0:body0 + blen]
            if zlib.crc32(d0) == zlib.crc32(d1):
                violation("zlib.crc32 does not detect a burst of at most 32 bits", "pattern %r" % pat, d1, {"original_hex": d0.hex()}, op="crc")
            nburst += 1
        for _ in range(20):
            p = rnd.randrange(blen)
            w = min(rnd.randint(1, 4), blen - p)
            new = CL.rbytes(rnd, w)
            if new == data[body0 + p:body0 + p + w]:
                continue
            damaged = data[:body0 + p] + new + data[body0 + p + w:]
            corrupt_case(ents, exp, vi, damaged, "body", "%d consecutive byte(s) replaced" % w)
            nburst += 1
        for _ in range(10):
            new = CL.rbytes(rnd, 4)
            if new != data[start + 12:start + 16]:
                corrupt_case(ents, exp, vi, data[:start + 12] + new + data[start + 16:], "crc", "CRC field replaced")
    # ---- the bit order of "burst <= 32 bits" (C12_crc_burst_msb_order_refuted): 0a 1e e9 d5 e0 xored into five consecutive
    # bytes spans 31 bit positions when each byte is numbered most significant bit first (39 in the CRC's own LSB-first
    # order).  It is a multiple of the generator polynomial: zlib.crc32 cannot see it and the decoder DELIVERS the altered
    # message.  Inherent to CRC-32; recorded (never a violation), so that nobody reads the burst theorem for more than it says.
    vm = Plain(1, 0, b"key", b"hello world, this is a test of the checksum", 7)
    vdata = CL.raw_set([(3, vm.raw())])
    vpos = vdata.index(b"world")
    vdam = vdata[:vpos] + bytes(a ^ b for a, b in zip(vdata[vpos:vpos + 5], bytes([0x0A, 0x1E, 0xE9, 0xD5, 0xE0]))) + vdata[vpos + 5:]
    _, _, vmsgs, vout = decode_impl(vdam)
    msb_witness = {"pattern_hex": "0a1ee9d5e0", "span_bits_msb_first": 31, "span_bits_crc_order": 39,
                   "zlib_crc32_unchanged": zlib.crc32(vdata[12 + 4:]) == zlib.crc32(vdam[12 + 4:]),
                   "altered_message_delivered": bool(vout == 0 and len(vmsgs) == 1 and vmsgs[0][1][3] != vm.value),
                   "delivered_value": repr(vmsgs[0][1][3]) if vmsgs else None}
    ck.cov["burst_bit_order_witness"] = msb_witness
    ck.hist("msb_order_31bit_burst_undetected_by_crc32" if msb_witness["zlib_crc32_unchanged"] else "msb_order_31bit_burst_detected")

    # ---- large messages: a check that is skipped or shortened for big payloads must not go unnoticed.
    # values of 5000 / 70000 / 2^20 bytes, plain and as the payload of a gzip wrapper; damage at the very start, the
    # middle and the very end of the checksummed bytes, in the CRC field, plus random flips and bursts.
    # The model runs the bitwise CRC: only the 5000-byte cases are also given to it.
    nlarge = 0
    sizes = [5000, 70000, 1 << 20] if not thorough else [4097, 5000, 9000, 70000, 300000, 1 << 20, 3 << 20]
    for size in sizes:
        for kind in ("plain0", "plain1", "wrapper"):
            before, after = gen_plain(rnd, 6), gen_plain(rnd, 6)
            if kind == "wrapper":
                inner = [Plain(rnd.choice([0, 1]), 0, b"k", CL.rbytes(rnd, size // 2), 9), Plain(0, 0, None, CL.rbytes(rnd, size // 2), 9)]
                o, raw, e = wrapper_entry(rnd, 12, rnd.choice([0, 1]), inner)
                ents, exp = [(10, before.raw()), (o, raw), (13, after.raw())], [[(10, before.fields())], e, [(13, after.fields())]]
            else:
                m = Plain(int(kind[-1]), 0, CL.gen_ob(rnd, 8), CL.rbytes(rnd, size), 77)
                ents, exp = [(10, before.raw()), (11, m.raw()), (12, after.raw())], [[(10, before.fields())], [(11, m.fields())], [(12, after.fields())]]
            data = CL.raw_set(ents)
            vi, start = 1, 12 + len(ents[0][1])
            vlen = 12 + len(ents[1][1])
            body0, blen = start + 16, vlen - 16
            to_model = size <= 5000 and kind != "wrapper"
            tr0, orc0, msgs0, out0 = decode_impl(data)
            if msgs0 != [x for e in exp for x in e] or out0 != 0:
                violation("valid message set not decoded to what was encoded", "large base set (%s, %d bytes)" % (kind, size), data if len(data) < 20000 else None)
                continue
            nb = blen * 8
            picks = [0, 1, 7, 8, 15, nb // 2, nb // 2 + 3, nb - 16, nb - 9, nb - 8, nb - 1] + [rnd.randrange(nb) for _ in range(6 if not thorough else 40)]
            # every 4096-byte boundary +-1 byte (block-wise or size-limited checksumming)
            picks += [8 * (4096 * j + d) for j in range(1, min(blen // 4096, 3) + 1) for d in (-17, -1, 0) if 0 <= 8 * (4096 * j + d) < nb]
            for bit in picks:
                corrupt_case(ents, exp, vi, apply_bits(data, body0, [bit]), "body", "bit %d of the %d checksummed bytes flipped (%s)" % (bit, blen, kind), to_model)
                nlarge += 1
            for _ in range(4 if not thorough else 20):
                pat = burst_pattern(rnd, nb)
                corrupt_case(ents, exp, vi, apply_bits(data, body0, pat), "body", "burst spanning %d bit(s) at bit %d of %d bytes (%s)" % (pat[-1] - pat[0] + 1, pat[0], blen, kind), to_model)
                nlarge += 1
            pat = [nb - 32 + j for j in (0, 5, 31)]          # a burst over the last 4 bytes
            corrupt_case(ents, exp, vi, apply_bits(data, body0, pat), "body", "burst over the last 32 bits (%s, %d bytes)" % (kind, blen), to_model)
            for bit in (0, 13, 31):
                corrupt_case(ents, exp, vi, apply_bits(data, start + 12, [bit]), "crc", "bit %d of the CRC field of a %d-byte message flipped (%s)" % (bit, blen, kind), to_model)
                nlarge += 1
    ck.hist("large_message_damage_cases", nlarge)
    ck.hist("single_bit_flips", nflip)
    ck.hist("bursts", nburst)
    for (region, o), c in sorted(region_hist.items()):
        ck.hist("corrupt/%s -> %s" % (region, o), c)

    # ============================================================ C. truncation
    ncut = 0
    fetch_cases, fetch_impl, fetch_meta = [], [], []
    for i in range(8 * scale):
        ents, exp = gen_set(rnd, rnd.randint(2, 4), rnd.choice([0, 77, 2 ** 33]), wrappers=rnd.choice([0, 0, 0.5]), maxlen=12 if not thorough else 60)
        data = CL.raw_set(ents)
        for cut in range(len(data) + 1):
            tr, orc, msgs, outcome = decode_impl(data[:cut])
            add_set("truncated", data[:cut], tr, orc)
            bad = truncation_verdict(ents, exp, cut, msgs, outcome)
            ncut += 1
            if bad:
                violation("truncated message set: not exactly the complete messages before the cut", bad, data[:cut],
                          {"full_set_hex": data.hex(), "cut": cut, "delivered": msgs[:10], "outcome": err_name(outcome),
                           "entry_sizes": [12 + len(r) for _, r in ents], "messages_per_entry": [len(e) for e in exp]})
            if i < 2 * scale and cut % 3 == 0:      # the same through the public decoder (what the consumer sees)
                fb = fetch_response_bytes(data[:cut])
                ftr, forc = R.impl_decode(4, fb, 0)
                fetch_cases.append(R.case_decode(4, fb, 0, forc))
                fetch_impl.append(ftr)
                fetch_meta.append(("fetch", 0, fb, "truncated_set_in_fetch_response"))
                want_pos, whole = 0, []
                for (o, raw), e in zip(ents, exp):
                    want_pos += 12 + len(raw)
                    if want_pos <= cut:
                        whole += e
                want = [1] + lp(b"t") + [0, 0, 1000] + [len(whole)] + sum(([o] + [f[0], f[1]] + CL.olp(f[2]) + CL.olp(f[3]) + ([1, f[4]] if f[0] == 1 else [0, 0])
                                                                                for o, f in whole), []) + [0 if (whole or cut == 0) else CL.E_FETCHSMALL] + [0]
                if ftr != want:
                    violation("truncated message set inside a fetch response: not exactly the complete messages before the cut",
                              "cut at %d" % cut, fb, {"expected_trace": want[:200], "implementation_trace": ftr[:200], "api": "fetch", "ver": 0}, op="decode")
    ck.hist("truncation_points", ncut)

    # ============================================================ D. malformed stream into every decoder + work monitor
    meter = Meter()
    tracemalloc.start()
    worst = {"lines_per_byte": 0.0, "mem_per_byte": 0.0, "time_per_byte_us": 0.0, "max_lines": 0, "max_peak": 0, "max_seconds": 0.0}
    resp_cases, resp_impl, resp_meta = list(fetch_cases), list(fetch_impl), list(fetch_meta)
    nresp_valid = len(resp_cases)

    def measured(api, ver, data, label, depth=CL.DEPTH):
        """run one decoder on hostile bytes under the meter; returns the trace (or None when aborted)"""
        op = 0 if api == "msgset" else R.API_OP[api]
        f = (lambda: CL.impl_decode_set(data)) if op == 0 else (lambda: R.impl_decode(op, data, ver))
        # the budget needs the decompressed volume, known only afterwards: start generous for inputs that contain gzip
        guess = len(data) + ((1 << 18) if b"\x1f\x8b" in data else 0)
        res, lines, dt, peak, aborted = meter.run(f, LINES_BASE + LINES_PER_BYTE * guess)
        tr, orc = res if res is not None else (None, None)
        nbytes = len(data) + oracle_out_bytes(orc)
        over = []
        if aborted or lines > LINES_BASE + LINES_PER_BYTE * nbytes:
            over.append("executed %s%d source lines for %d input bytes (bound %d + %d/byte)" % (">" if aborted else "", lines, nbytes, LINES_BASE, LINES_PER_BYTE))
        if peak > MEM_BASE + MEM_PER_BYTE * nbytes:
            over.append("allocated a peak of %d bytes for %d input bytes (bound %d + %d/byte)" % (peak, nbytes, MEM_BASE, MEM_PER_BYTE))
        if dt > TIME_BASE + TIME_PER_BYTE * nbytes and not aborted:
            best = dt
            for _ in range(3):       # rule out scheduling noise: untraced, best of three
                t0 = time.perf_counter()
                f()
                best = min(best, time.perf_counter() - t0)
            dt = best
            if dt > TIME_BASE + TIME_PER_BYTE * nbytes:
                over.append("took %.3f s for %d input bytes (bound %.2f s + %.0f us/byte)" % (dt, nbytes, TIME_BASE, TIME_PER_BYTE * 1e6))
        worst["max_lines"] = max(worst["max_lines"], lines)
        worst["max_peak"] = max(worst["max_peak"], peak)
        worst["max_seconds"] = max(worst["max_seconds"], dt)
        if nbytes >= 16:
            worst["lines_per_byte"] = max(worst["lines_per_byte"], lines / nbytes)
            worst["mem_per_byte"] = max(worst["mem_per_byte"], peak / nbytes)
            worst["time_per_byte_us"] = max(worst["time_per_byte_us"], dt * 1e6 / nbytes)
        if over:
            violation("decoding work not proportional to the input: hostile length/count fields bought work", "; ".join(over) + " [%s %s]" % (api, label),
                      data, {"api": api, "ver": ver, "lines": lines, "seconds": round(dt, 4), "peak_bytes": peak, "input_bytes": len(data), "label": label}, op="work")
        if tr is not None:
            ck.hist("decode_%s -> %s" % (api, err_name(tr[-1] if (op == 0 or op in (3, 4, 5, 8, 9)) else tr[0])))
            ck.hist("malformed/" + label.split("_")[0] + ("_" + label.split("_")[1] if label.startswith(("mutated", "bomb", "gzip")) and "_" in label else ""))
            if op == 0:
                set_cases.append(CL.case_decode_set(data, orc, depth))
                set_impl.append(tr)
                set_meta.append(("hostile:" + label, data))
            else:
                resp_cases.append(R.case_decode(op, data, ver, orc))
                resp_impl.append(tr)
                resp_meta.append((api, ver, data, label))
        return tr

    g = R.Gen(rnd)
    nmal = 0
    for api, gen in R.GENS.items():
        for i in range(8 * scale):
            r = gen(g)
            ver = rnd.choice(R.VERSIONS.get(api, (0,)))
            data = R.spec_bytes(api, r, min(ver, 2))
            for kind, d in hostile_mutations(rnd, data, 8):
                measured(api, ver, d, "mutated_" + kind)
                nmal += 1
        for i in range(12 * scale):
            measured(api, rnd.choice(R.VERSIONS.get(api, (0,))), CL.rbytes(rnd, rnd.choice([0, 1, 2, 3, 4, 6, 8, 10, 12, 16, 24, 40, 64])), "random_bytes")
            nmal += 1
        # correlation id reader: same inputs
        measured("corr", 0, CL.rbytes(rnd, rnd.randint(0, 6)), "random_bytes")
    bomb_groups = {}
    for api, ver, data, label in count_bombs():
        measured(api, ver, data, label)
        nmal += 1
        # the same bytes with a bigger claimed count must cost exactly the same number of executed lines
        key = data
        for nn in (10 ** 7, 2 ** 31 - 1, 10 ** 6):
            key = key.replace(struct.pack(">i", nn), b"####")
        bomb_groups.setdefault((api, ver, label, key), []).append((meter.lines, data))
    ngroups = 0
    for (api, ver, label, key), members in bomb_groups.items():
        if len(members) > 1:
            ngroups += 1
            if len(set(l for l, _ in members)) > 1:
                worst_l, worst_d = max(members)
                violation("decoding work not proportional to the input: hostile length/count fields bought work",
                          "the same bytes cost %r executed lines depending only on the claimed count [%s %s]" % (sorted(l for l, _ in members), api, label),
                          worst_d, {"api": api, "ver": ver, "label": label, "lines_by_count": sorted(l for l, _ in members)}, op="work")
    ck.hist("count_bomb_groups_same_cost_checked", ngroups)
    # fetch responses carrying damaged / hostile record sets, null record sets, and sets with hostile entry sizes
    for label, data in CL.gen_decode_inputs(rnd, 1 if not thorough else 3):
        if label.startswith(("hostile", "short_message", "random", "mutated", "gzip_value", "bad_magic", "codec_bits", "tail", "burst", "bitflip")):
            measured("msgset", 0, data, label)
            nmal += 1
            if rnd.random() < 0.3:
                fv = rnd.choice([0, 2])
                measured("fetch", fv, R.spec_bytes("fetch", (1, 0, [(b"t", [(0, 0, 5, data)])]), fv), "recordset_" + label)
                nmal += 1
    # a decompression bomb: 64 KiB (1 MiB thorough) of zeros behind a few dozen bytes: work is bounded by the decompressed size
    for mg in (0, 1):
        z = CL.gz(bytes((1 << 20) if thorough else (1 << 16)))
        measured("msgset", 0, CL.raw_set([(1, CL.raw_msg(mg, 1, None, z, 1))]), "gzip_bomb_zeros")
        nsmall = 1500 if thorough else 300                                                  # many tiny messages in 1 wrapper
        inner = CL.raw_set([(i, CL.raw_msg(0, 0, None, b"")) for i in range(nsmall)])     # (the MODEL's runner is quadratic here)
        measured("msgset", 0, CL.raw_set([(nsmall - 1, CL.raw_msg(mg, 1, None, CL.gz(inner), 1))]), "gzip_many_small")
    # wrappers nested 5 deep around 200 tiny messages (every message is handed up through every level)
    for mg in (0, 1):
        nest = CL.raw_set([(i, CL.raw_msg(0, 0, None, b"")) for i in range(200)])
        for _ in range(5):
            nest = CL.raw_set([(199, CL.raw_msg(mg, 1, None, CL.gz(nest), 1))])
        measured("msgset", 0, nest, "gzip_nested5")
    # ... and 30 deep (thorough: 100 deep) around 60 messages, against the model with a matching nesting budget
    # (C12_hops_linear_per_depth: the cost of handing messages up carries the depth as a factor; the only bound on the
    # depth is CPython's recursion limit)
    deep = 100 if thorough else 30
    for mg in (0, 1):
        nest = CL.raw_set([(i, CL.raw_msg(0, 0, None, b"")) for i in range(60)])
        for _ in range(deep):
            nest = CL.raw_set([(59, CL.raw_msg(mg, 1, None, CL.gz(nest), 1))])
        t_deep = measured("msgset", 0, nest, "gzip_nested%d" % deep, depth=deep + 2)
        if t_deep is None or t_deep[0] != 60 or t_deep[-1] != 0:
            violation("valid message set not decoded to what was encoded", "%d nested wrappers around 60 messages" % deep, nest)
    # long valid inputs: the bound is linear, not just "small inputs are cheap"
    big = 3 if thorough else 1
    for api in ("produce", "metadata", "offsets", "apiversions", "join"):
        if api == "produce":
            r = (2, [(b"big", [(p, 0, p * 10, p) for p in range(500 * big)])], 7)
        elif api == "metadata":
            r = (9, [(i, b"host", 9092) for i in range(250 * big)], [(0, b"t%d" % t, [(0, p, 1, [1, 2, 3], [1, 2]) for p in range(10)]) for t in range(10 * big)])
        elif api == "offsets":
            r = (1, [(b"t", [(0, 0, list(range(1000 * big)))])])
        elif api == "apiversions":
            r = (1, 0, [(k, 0, 9) for k in range(700 * big)])
        else:
            r = (1, 0, 3, b"p", b"l", b"m", [(b"member-%d" % i, b"x" * 50) for i in range(150 * big)])
        measured(api, 0, R.spec_bytes(api, r, 0), "long_valid")
    tracemalloc.stop()
    ck.hist("malformed_inputs", nmal)
    ck.cov["notes"] = [
        "bit errors in the 8-byte offset field of a set entry are not under the CRC (message formats 0 and 1): the intact message is delivered under the altered offset (histogram corrupt/offset)",
        "bit errors in the 4-byte size field: never the damaged entry; ChecksumError, ProtocolError (negative), or the entry is taken for a partial trailing message (silent stop / ConsumerFetchSizeTooSmall) (histogram corrupt/size)",
        "bit order: 'burst of at most 32 bits' is proved for positions in the CRC's own order (bytes in stream order, inside a byte the LEAST significant bit first). With the most significant bit of each byte first the same sentence is false (C12_crc_burst_msb_order_refuted; the run replays 0a1ee9d5e0 on the real decoder: coverage.burst_bit_order_witness). In any numbering: single-bit flips and alterations confined to 4 consecutive bytes are always detected",
        "a CRC-valid entry in the middle of a set whose inner key/value lengths overrun the entry raises BufferUnderflowError inside _decode_message and is taken for a partial tail: the rest of the answer is dropped silently (kafkacodec.py:381-396; model identical). Excluded from the statement (no producer writes such an entry); nothing corrupt is delivered",
        "nested compression: every message is handed up through one generator pair per nesting level, so decoding costs (messages x depth): C12_hops_linear_per_depth bounds it by depth * (input + all decompressed bytes)/3 for ANY depth and C12_hops_depth_free_bound_refuted shows the depth factor cannot be dropped (the outer levels decompress to a few dozen bytes each). The only bound on the depth is CPython's recursion limit (RecursionError near 320 levels). Measured on the unchanged tree, untraced: 10 KB on the wire = 200 levels around 4000 empty messages -> 2.0 s. Kafka itself allows one level; the run exercises depth 5 and 30 (100 in the thorough tier)",
    ]
    ck.cov["work_monitor"] = {"bounds": {"lines": [LINES_BASE, LINES_PER_BYTE], "tracemalloc_peak": [MEM_BASE, MEM_PER_BYTE], "seconds": [TIME_BASE, TIME_PER_BYTE]},
                              "worst_observed": {k: (round(v, 3) if isinstance(v, float) else v) for k, v in worst.items()},
                              "unit": "per byte of (input + decompressor output); ratios taken over inputs of >= 16 bytes"}

    # ============================================================ F. scaling: byte-level work must be linear too
    # (a) deterministic: bytes copied out of the input by slicing (CountingBytes) <= COPY_BASE + COPY_PER_BYTE * len, on
    #     inputs of two sizes for every decoder with a loop; (b) wall time, untraced, best of several runs: a 4 times
    #     larger input may take at most SCALE_RATIO times as long (the set decoder on 0.5 MiB / 2 MiB; thorough: all).
    scaling = {"copied_per_byte": {}, "time_ratio_4x": {}}
    for n in ((2000, 8000) if not thorough else (2000, 8000, 40000)):
        for api, ver, data in scaling_inputs(R, n):
            try:
                _, copied = copied_bytes(lambda d: run_decoder(api, ver, d), data)
            except Exception as e:  # noqa
                violation("valid input not decoded", "scaling input %s n=%d: %r" % (api, n, e), data if len(data) < 100000 else None, {"api": api, "ver": ver}, op="work")
                continue
            k = "%s/%d" % (api, n)
            scaling["copied_per_byte"][k] = max(scaling["copied_per_byte"].get(k, 0), round(copied / len(data), 2))
            if copied > COPY_BASE + COPY_PER_BYTE * len(data):
                violation("decoding work not proportional to the input: bytes copied grow faster than the input",
                          "%s copied %d bytes by slicing while decoding %d input bytes (bound %d + %d/byte): the remaining buffer is copied again and again"
                          % (api, copied, len(data), COPY_BASE, COPY_PER_BYTE), data if len(data) < 300000 else None,
                          {"api": api, "ver": ver, "copied": copied, "input_bytes": len(data), "scaling_n": n}, op="scaling")
    timed = [("msgset", 0, 20000)] if not thorough else [(a, v, 10000) for a, v, _ in scaling_inputs(R, 100)]
    seen = {}
    for api, ver, n in timed:
        idx = seen[api] = seen.get(api, -1) + 1          # msgset occurs twice in scaling_inputs (plain, wrapped)
        small = [d for a, v, d in scaling_inputs(R, n) if a == api][idx]
        large = [d for a, v, d in scaling_inputs(R, 4 * n) if a == api][idx]
        ratio = None
        for reps in (3, 7):                                # a second, longer look before raising the alarm
            t1 = best_time(lambda: run_decoder(api, ver, small), reps)
            t4 = best_time(lambda: run_decoder(api, ver, large), reps)
            ratio = t4 / max(t1, 1e-6) * (4.0 * len(small) / len(large))      # normalised to exactly 4x the bytes
            if ratio <= SCALE_RATIO:
                break
        scaling["time_ratio_4x"]["%s#%d/%d->%d bytes" % (api, idx, len(small), len(large))] = round(ratio, 2)
        if ratio > SCALE_RATIO:
            violation("decoding work not proportional to the input: time grows faster than the input",
                      "%s: %d bytes in %.3f s but %d bytes in %.3f s (x%.1f for 4x the input, bound x%.1f)" % (api, len(small), t1, len(large), t4, ratio, SCALE_RATIO),
                      None, {"api": api, "ver": ver, "scaling_n": n, "seconds_small": t1, "seconds_large": t4}, op="scaling")
    ck.cov["scaling_monitor"] = scaling

    # ============================================================ E. the consumer
    grow_cases, grow_impl, grow_meta = [], [], []
    bufs = [1, 13, 100, 1000, 65536, 131072, 2 ** 20 - 1, 2 ** 20, 2 ** 20 + 1, 2 ** 21, 2 ** 24]
    TAILN = {CLEAN: "clean", TOOSMALL: "toosmall", CORRUPT: "corrupt"}

    def consumer_case(off, buf, maxbuf, events, replies, tr, label):
        grow_cases.append(grow_case(off, buf, maxbuf, events))
        grow_impl.append(tr)
        grow_meta.append((off, buf, maxbuf, events, replies))
        items = parse_ctrace(tr)
        ck.hist("consumer/%s -> %s" % (label, "start_failed" if ("failed",) in items else "running"))
        bad = consumer_monitor(tr, events, off, maxbuf)
        if bad:
            violation("consumer does not enlarge its buffer and refetch behind the last message handed over (or fail at the maximum)", bad, None,
                      {"start_offset": off, "buffer_size": buf, "max_buffer_size": maxbuf, "events": events,
                       "replies_hex": [x.hex() for x in replies], "implementation_trace": tr}, op="consumer")
        return items

    if growth_down:      # two-ties rule: the growth handler is carried by the correspondence alone
        ck.hist("consumer_cases_enlarged_because_the_growth_tie_is_down")
    for i in range(90 * scale * (3 if growth_down else 1)):
        buf = rnd.choice(bufs)
        maxbuf = None if rnd.random() < 0.3 else rnd.choice([buf, buf + 1, buf * 2 - 1, buf * 2, buf * 16 - 1, buf * 16, buf * 16 + 1, buf * 100, buf * 4096])
        maxbuf = None if maxbuf is None else max(maxbuf, buf)
        off = rnd.choice([0, 1, 500, 2 ** 40])
        events, replies, cur = [], [], off
        for _ in range(rnd.randint(1, 8)):
            # offsets the decoder will yield: some below the fetch offset (head of a wrapper), a run from it on with gaps,
            # now and then something out of order
            offs = []
            if rnd.random() < 0.3:
                lo = max(cur - rnd.randint(1, 4), 0)
                offs += list(range(lo, cur))
            x = rnd.random()
            n = 0 if x < 0.4 else rnd.randint(1, 4)
            o = cur
            for _ in range(n):
                o += rnd.choice([0, 0, 0, 1, 5])          # gaps
                offs.append(o)
                o += 1
            if offs and rnd.random() < 0.08:
                offs.insert(rnd.randrange(len(offs) + 1), rnd.choice(offs) - rnd.randint(0, 2))   # repeated / out of order
                offs = [max(v, 0) for v in offs]
            r = rnd.random()
            tail = TOOSMALL if r < (0.6 if not offs else 0.25) else CORRUPT if r < (0.7 if not offs else 0.45) else CLEAN
            ck.hist("consumer_answer/%s_%s" % ("messages" if py_accept(cur, offs)[0] else "nothing", TAILN[tail]))
            events.append((offs, tail))
            replies.append(reply_for(offs, tail, rnd))
            cur = py_accept(cur, offs)[1]
        tr = impl_consumer(off, buf, maxbuf, replies)
        consumer_case(off, buf, maxbuf, events, replies, tr, "scripted")
        # the decoder really yields what the case line says (otherwise the model would be given a different history)
        for (offs, tail), rec in zip(events, replies):
            _, _, msgs, outcome = decode_impl(rec)
            want_out = {CLEAN: (0,), TOOSMALL: (CL.E_FETCHSMALL,), CORRUPT: (CL.E_CHECKSUM, CL.E_PROTOCOL, CL.E_CODEC)}[tail]
            if [o for o, _ in msgs] != offs or outcome not in want_out:
                violation("harness: a scripted consumer answer does not decode as intended", "%r %s -> %r %s" % (offs, TAILN[tail], [o for o, _ in msgs], err_name(outcome)), rec, no_input=True)
    # honest broker: a log (gaps allowed) holding one message larger than the buffer; every reply is the log from the
    # requested offset cut at the max_bytes the consumer REALLY asked for
    for i in range(25 * scale):
        buf = rnd.choice([20, 50, 64, 100, 300])
        sizes = [rnd.choice([0, 5, 10, 40]) for _ in range(rnd.randint(1, 5))]
        sizes[rnd.randrange(len(sizes))] = rnd.choice([buf, buf * 3, buf * 16, buf * 40, buf * 300])
        offsets, o = [], 100
        for _ in sizes:
            o += rnd.choice([0, 0, 1, 7])
            offsets.append(o)
            o += 1
        log = [small_entry(oo, rnd, sz) for oo, sz in zip(offsets, sizes)]
        biggest = max(len(e) for e in log)
        maxbuf = rnd.choice([None, biggest - 1, biggest, biggest + 1, buf * 16, buf * 256])
        maxbuf = None if maxbuf is None else max(maxbuf, buf)
        events, replies = [], []

        def broker(i, offset, max_bytes, log=log, offsets=offsets, events=events, replies=replies):
            pos = next((j for j, oo in enumerate(offsets) if oo >= offset), None)
            if i >= 40 or pos is None:
                return None
            rec = b"".join(log[pos:])[:max_bytes]
            k, used = 0, 0
            while pos + k < len(log) and used + len(log[pos + k]) <= len(rec):
                used += len(log[pos + k])
                k += 1
            events.append((offsets[pos:pos + k], CLEAN if k or not rec else TOOSMALL))
            replies.append(rec)
            return rec
        tr = impl_consumer(100, buf, maxbuf, broker)
        items = consumer_case(100, buf, maxbuf, events, replies, tr, "honest_broker")
        delivered = [oo for x in items if x[0] == "deliver" for oo in x[1]]
        fits = maxbuf is None or biggest <= maxbuf
        want = offsets if fits else offsets[:next(j for j, e in enumerate(log) if len(e) > maxbuf)]
        failed = ("failed",) in items
        if delivered != want or failed != (not fits):       # C12_consumer_no_skip against the broker's own log
            violation("consumer over an honest broker: a message larger than the buffer was skipped, repeated, or the start Deferred did not fail at the maximum",
                      "delivered %r, expected %r, failed=%r" % (delivered, want, failed), None,
                      {"start_offset": 100, "buffer_size": buf, "max_buffer_size": maxbuf, "events": events, "entry_sizes": [len(e) for e in log],
                       "log_offsets": offsets, "replies_hex": [x.hex() for x in replies], "implementation_trace": tr}, op="consumer")
    # the bare rule on a grid (model op 2 vs the buffer the real consumer asks for after ONE too-small answer)
    for buf in bufs + [rnd.randint(1, 2 ** 22) for _ in range(20 * scale)]:
        for maxbuf in (None, buf, buf + 1, buf * 2, buf * 16, buf * 16 - 1, buf * 17):
            e = entry_bytes(0, 5, rnd)
            items = parse_ctrace(impl_consumer(0, buf, maxbuf, [e[:7]]))
            nxt = [1, items[1][2]] if len(items) > 1 and items[1][0] == "fetch" else [0] if items[1:] == [("failed",)] else [-5]
            grow_cases.append([2, buf, 0 if maxbuf is None else 1, maxbuf or 0])
            grow_impl.append(nxt)
            grow_meta.append((0, buf, maxbuf, [([], TOOSMALL)], [e[:7]]))

    # ============================================================ correspondences
    def set_nontrivial(c, o):
        return o[0] > 0 or o[-1] != 0

    ds, mos = ck.correspond(CODEC, CODEC_MOD, set_cases, set_impl,
                            "KafkaCodec._decode_message_set_iter on valid / bit-flipped / burst-damaged / truncated / hostile sets vs Model.MsgSet.dec_set",
                            nontrivial=set_nontrivial, describe=describe)
    for i in ds[:3]:
        label, data = set_meta[i]
        violation("implementation and proved model decode the same message set differently", label, data,
                  {"correspondence": "corr:codec:dec_set", "implementation_trace": set_impl[i][:200], "model_trace": mos[i][:200],
                   "theorems_no_longer_tied": ["C12_flip_detected", "C12_crc_field_detected", "C12_corrupt_in_set", "C12_truncation", "C12_complete_set",
                                               "C12_total_linear", "C12_yield_bound"]}, no_input=True)
    # the monitors over the MODEL's traces too (the theorems, sampled): a failure here is a model/runner defect
    dr, mor = ck.correspond(RESP, RESP_MOD, resp_cases, resp_impl,
                            "every KafkaCodec.decode_* on the malformed stream (hostile counts/lengths, mutated, random, truncated sets in fetch responses) vs Model.Responses",
                            nontrivial=lambda c, o: True, describe=describe)
    for i in dr[:3]:
        api, ver, data, label = resp_meta[i]
        violation("implementation and model decode the same hostile bytes differently", "%s %s" % (api, label), data,
                  {"correspondence": "corr:resp:decode_" + api, "api": api, "ver": ver, "implementation_trace": resp_impl[i][:200], "model_trace": mor[i][:200],
                   "theorems_no_longer_tied": ["C12_reader_*", "C12_counted_loop_*"]}, op="decode", no_input=True)
    dg, mog = ck.correspond(GROW, GROW_MOD, grow_cases, grow_impl,
                            "real Consumer (requests, deliveries, start failure) over truncated fetch responses vs Model.FetchGrow",
                            nontrivial=lambda c, o: len(o) > 3, describe=describe)
    for i in dg[:3]:
        off, buf, maxbuf, events, replies = grow_meta[i]
        violation("consumer and model react differently to too-small fetch answers", "buffer %d max %r" % (buf, maxbuf), None,
                  {"correspondence": "corr:fetchgrow:run", "start_offset": off, "buffer_size": buf, "max_buffer_size": maxbuf, "events": events,
                   "replies_hex": [x.hex() for x in replies][:10], "implementation_trace": grow_impl[i][:100], "model_trace": mog[i][:100],
                   "theorems_no_longer_tied": ["C12_consumer_grows", "C12_consumer_no_repeat", "C12_consumer_no_skip", "C12_consumer_reaches_any_size", "C12_consumer_reaches_max"]},
                  op="consumer", no_input=True)

    for label, case, impl, model in selftest_diffs[:2]:
        violation("shared codec model and implementation disagree", label, None,
                  {"correspondence": "corr:codec:" + label, "case": case[:200], "impl": impl[:100], "model": model[:100],
                   "theorems_no_longer_tied": ["all C12_* about dec_set / dec_message / read_string / crc32"]}, no_input=True)
    if suppressed[0]:
        ck.nviol = getattr(ck, "nviol", 0) + suppressed[0]
        ck.cov["violations_by_kind"] = per_kind
    if thorough:
        ck.coqchk(["AV.Props.C12"])
    ck.cov["rule"] = ("seeded generators (random.Random(VERIF_SEED)). Mostly-valid stream: message sets of 1-5 entries, formats 0/1, null/empty/random keys and "
                      "values, boundary timestamps, gzip wrappers as a broker stores them (depth <= 3); EVERY single-bit flip of one entry (first, middle, last, "
                      "a gzip wrapper, the smallest messages; messages of at most ~60 bytes) of %d base sets, random bursts spanning <= 32 bits IN CRC BIT ORDER and "
                      "<= 4-byte replacements inside the checksummed bytes, CRC field replacements; large messages (5000 / 70000 / 2^20-byte values, plain and as "
                      "gzip wrapper payload): flips at the start / middle / end / 4 KiB boundaries, bursts, CRC field; EVERY cut point of %d sets. Malformed stream (separate generator): for each of the 15 public decoders and the set decoder "
                      "8 length/count-oriented mutations (hostile int32/int16 written at a random position, two at once, truncation, extension, byte noise) of "
                      "each of 8 valid responses, random bytes of 13 lengths, hand-made count bombs (count 10^6, 10^7, 2^31-1 over empty / tiny / non-advancing "
                      "items, negative counts) for every counted structure, hostile entry sizes and key/value lengths, unusable gzip payloads, a decompression "
                      "bomb, long valid inputs (inputs of this stream stay below ~40 KB; the same bytes with three different claimed counts must cost the same lines). "
                      "Scaling: every decoder with a loop on inputs of 2000 and 8000 items (50-500 KB) under a byte-copy counter, the set decoder on 0.6 / 2.4 MB for the "
                      "4x time ratio. Consumer: scripted answers = (offsets the decoder yields: below the fetch offset, gaps, out of order; ending clean / too small / "
                      "decoding error, also after delivered messages: a wrapper whose inner set is cut) and an honest broker with gaps cutting its log at max_bytes. "
                      "A case is non-trivial if at least one message was delivered or an exception was raised; distinct = distinct canonical case lines."
                      % (nbase, 8 * scale))
    ck.assumptions += [
        "Model/Prim.v, Model/Crc.v, Model/MsgSet.v stand for afkak/_util.py:153-196, zlib.crc32 and afkak/kafkacodec.py:361-469 (tie = this run's correspondence incl. codec_lib.selftest, not proof)",
        "Model/FetchGrow.v stands for afkak/consumer.py:925-996,1015-1021,1093-1104 and the unlimited-retry path of _handle_fetch_error only (synchronous processor, request_retry_max_attempts = 0, no OffsetOutOfRange, no commits/stop: those are Model/Consumer.v, property C14)",
        "Model/Responses.v (property C05's model of every decode_*) is compared with the implementation on the malformed stream; the summed cost bound (Props/C12cost.v: ticks <= 23 * length + 26 for all 16 decoder terms) is stated on C05's decoder LANGUAGE (Model/DecDSL.v, terms Model/DecAst.v, tied to the source by Props/C05gen.v) with a tick = one statement / loop iteration; bytes copied by one read and the lazy message-set generator of a FetchResponse are not ticks; memory: only the number of yielded objects is bounded (yields <= ticks), bytes held are monitor-only",
        "bursts that straddle the boundary between the stored CRC field and the checksummed bytes, and alterations of the offset/size fields of a message-set entry (not covered by the CRC in formats 0 and 1), are outside the theorems; the run records what the implementation does there",
        "gzip is an oracle (its recorded answers are given to the model); work is bounded relative to input bytes + decompressed bytes, times the nesting depth for the hand-over of messages (C12_hops_linear_per_depth); snappy is not installed and not exercised; nesting beyond CPython's recursion limit (RecursionError) is not exercised",
        "work monitor: sys.settrace line events of files under <repo>/afkak (bound 3x the worst ratio of the unchanged tree), time.perf_counter, tracemalloc peak (memory is monitor-only: no theorem); byte-level work is seen only by the scaling monitor: bytes copied by slicing a counting bytes subclass (bound 4x the unchanged tree) and the wall-time ratio for a 4x larger set (bound 10, linear = 4, quadratic = 16); copies made without slicing the input (e.g. bytes(data) in a loop) are visible to the time ratio only",
        "extraction: ExtrOcamlBasic only; OCaml 4.13.1 ocamlopt; a sample of the case lines is re-evaluated in Coq by vm_compute",
    ]
    ck.cov["trusted_base"] += ["correspondence harness harness/props/C12.py + harness/props/codec_lib.py + harness/props/C05.py (impl_decode / generators) + harness/vlib.py",
                               "extracted OCaml runners `codec`, `resp`, `fetchgrow` (ExtrOcamlBasic) cross-checked by vm_compute sample"]


# ====================================================================== replay
def replay(rp):
    import json
    op = rp.get("replay_op")
    if op == "msgset":
        data = bytes.fromhex(rp["data_hex"])
        tr, orc, msgs, outcome = decode_impl(data)
        print("message set of %d bytes -> %d message(s), then %s" % (len(data), len(msgs), err_name(outcome)))
        for o, f in msgs[:20]:
            print("   offset", o, "magic/attr/key/value/ts", f)
        print("recorded:", rp.get("what"))
        if "original_hex" in rp and "region" in rp:
            _, _, m0, o0 = decode_impl(bytes.fromhex(rp["original_hex"]))
            print("undamaged set decodes to %d message(s), then %s; damaged region: %s of entry %s"
                  % (len(m0), err_name(o0), rp["region"], rp.get("victim_entry")))
            per, exp, i = rp.get("messages_per_entry") or [1] * len(m0), [], 0
            for n in per:
                exp.append(m0[i:i + n])
                i += n
            bad = corruption_verdict(rp["region"], rp["victim_entry"], exp, msgs, outcome)
            print("verdict:", ("VIOLATION reproduced: " + bad) if bad else "monitor passes")
            return 1 if bad else 0
        if "full_set_hex" in rp and "entry_sizes" in rp:
            full = bytes.fromhex(rp["full_set_hex"])
            _, _, m0, o0 = decode_impl(full)
            ents, exp, pos, i = [], [], 0, 0
            for size, n in zip(rp["entry_sizes"], rp["messages_per_entry"]):
                ents.append((0, full[pos + 12:pos + size]))
                exp.append(m0[i:i + n])
                pos, i = pos + size, i + n
            bad = truncation_verdict(ents, exp, rp["cut"], msgs, outcome)
            print("truncation of a %d-byte set at %d;" % (len(full), rp["cut"]), "verdict:", ("VIOLATION reproduced: " + bad) if bad else "monitor passes")
            return 1 if bad else 0
        return 1
    if op in ("work", "decode"):
        from props import C05 as R
        data = bytes.fromhex(rp["data_hex"])
        api, ver = rp.get("api", "msgset"), rp.get("ver", 0)
        f = (lambda: CL.impl_decode_set(data)) if api == "msgset" else (lambda: R.impl_decode(R.API_OP[api], data, ver))
        m = Meter()
        tracemalloc.start()
        res, lines, dt, peak, aborted = m.run(f, 50 * (LINES_BASE + LINES_PER_BYTE * len(data)))
        tracemalloc.stop()
        nbytes = len(data) + (oracle_out_bytes(res[1]) if res else 0)
        print("%s (api_version %s) on %d bytes: %s%d afkak source lines, %.4f s, tracemalloc peak %d bytes" % (api, ver, len(data), ">" if aborted else "", lines, dt, peak))
        print("bounds: lines %d, peak %d, seconds %.3f" % (LINES_BASE + LINES_PER_BYTE * nbytes, MEM_BASE + MEM_PER_BYTE * nbytes, TIME_BASE + TIME_PER_BYTE * nbytes))
        if res:
            print("trace:", res[0][:100])
        if rp.get("expected_trace") is not None:
            ok = res is not None and res[0] == rp["expected_trace"]
            print("expected:", rp["expected_trace"][:100])
            print("verdict:", "as expected" if ok else "VIOLATION reproduced")
            return 0 if ok else 1
        bad = aborted or lines > LINES_BASE + LINES_PER_BYTE * nbytes or peak > MEM_BASE + MEM_PER_BYTE * nbytes or dt > TIME_BASE + TIME_PER_BYTE * nbytes
        print("verdict:", "VIOLATION reproduced (work not proportional to the input)" if bad else "within the bounds")
        return 1 if bad else 0
    if op == "scaling":
        from props import C05 as R
        api, ver, n = rp["api"], rp.get("ver", 0), rp.get("scaling_n", 2000)
        idx = 0
        data = bytes.fromhex(rp["data_hex"]) if rp.get("data_hex") else [d for a, v, d in scaling_inputs(R, n) if a == api][idx]
        _, copied = copied_bytes(lambda d: run_decoder(api, ver, d), data)
        print("%s on %d bytes: %d bytes copied by slicing (bound %d)" % (api, len(data), copied, COPY_BASE + COPY_PER_BYTE * len(data)))
        bad = copied > COPY_BASE + COPY_PER_BYTE * len(data)
        if "seconds_small" in rp:
            small = [d for a, v, d in scaling_inputs(R, n) if a == api][idx]
            large = [d for a, v, d in scaling_inputs(R, 4 * n) if a == api][idx]
            t1, t4 = best_time(lambda: run_decoder(api, ver, small), 5), best_time(lambda: run_decoder(api, ver, large), 5)
            ratio = t4 / max(t1, 1e-6) * (4.0 * len(small) / len(large))
            print("%d bytes: %.3f s, %d bytes: %.3f s, ratio for 4x the input %.1f (bound %.1f)" % (len(small), t1, len(large), t4, ratio, SCALE_RATIO))
            bad = bad or ratio > SCALE_RATIO
        print("verdict:", "VIOLATION reproduced (work grows faster than the input)" if bad else "within the bounds")
        return 1 if bad else 0
    if op == "consumer":
        replies = [bytes.fromhex(x) for x in rp["replies_hex"]]
        tr = impl_consumer(rp["start_offset"], rp["buffer_size"], rp["max_buffer_size"], replies)
        print("consumer buffer_size=%r max_buffer_size=%r start offset %r" % (rp["buffer_size"], rp["max_buffer_size"], rp["start_offset"]))
        print("answers (offsets the decoder yields, ending 0 clean / 1 too small / 2 decoding error):", rp["events"])
        print("trace now (1 off max_bytes = fetch, 3 n offsets = handed to the processor, 2 = start failed):", tr)
        bad = consumer_monitor(tr, [(list(o), t) for o, t in rp["events"]], rp["start_offset"], rp["max_buffer_size"])
        print("verdict:", ("VIOLATION reproduced: " + bad) if bad else "monitor passes")
        return 1 if bad else 0
    if op == "crc":
        d1, d0 = bytes.fromhex(rp["data_hex"]), bytes.fromhex(rp["original_hex"])
        print("crc32", zlib.crc32(d0), zlib.crc32(d1))
        return 0 if zlib.crc32(d0) != zlib.crc32(d1) else 1
    print(json.dumps(rp, indent=1, default=repr)[:6000])
    return 1
