# C20 - closing the client fails everything pending and releases every connection.
# Correspondence of the REAL afkak KafkaClient (+ real _KafkaBrokerClient, real bootstrap protocol) over harness/simnet.py
# with coq/Model/ClientReq.v, monitors restating the theorems of coq/Props/C20.v over the implementation's own trace,
# and the probe for the residual finding F-C20-2.
import random

import vlib
from props import clientreq_lib as L
from props import C11 as base

MODEL = "clientreq"
MODULE = "Model.ClientReq"
THEOREMS = ["C20_new_requests_refused", "C20_new_operations_fail", "C20_second_close", "C20_metadata_cleared",
            "C20_pending_end", "C20_closed_means", "C20_no_timers_after_close", "C20_pending_requests_fail", "C20_pending_operations_end", "C20_closed_forever", "C20_no_connect_no_write_after_close", "C20_close_pending_only_when_closed",
            "C20_close_awaits_every_closing_client", "C20_close_fires_not_before", "C20_close_pending_means_closing", "C20_close_fires_last",
            "C20_close_fires_once"]
WHICH = ("C20",)

CFG0 = {"timeout": 5000, "dot": False, "mode": 0, "corr0": 0, "hosts": [1, 2]}


def corpus():
    """every client state the property text names at the moment of close(), and the late events that follow"""
    up = ("update", [(1, 5), (2, 6)], False)
    late = [("send", 2, True, -1), ("op", 0, True), ("op", 1, False), ("close",), ("reset",), ("update", [(3, 7)], False)]
    out = []
    # idle client; client that never did anything
    out.append((CFG0, [("close",)] + late))
    out.append((CFG0, [up, ("close",)] + late))
    # bootstrapping: connecting / request written
    out.append((CFG0, [("op", 1, True), ("close",), ("bootok", 0), ("bootfail", 0)] + late))
    out.append((CFG0, [("op", 1, True), ("bootok", 0), ("close",), ("bootreply", 0, 1, L.meta_payload([(1, 5)], [0])),
                       ("bootlost", 0)] + late))
    out.append((CFG0, [("op", 0, True), ("op", 1, False), ("bootok", 1), ("close",), ("bootlost", 1), ("bootok", 0)] + late))
    # connecting / backing off / requests in flight on several brokers
    out.append((CFG0, [up, ("send", 1, True, -1), ("close",), ("ok", 0), ("lost", 0)] + late))
    out.append((CFG0, [up, ("send", 1, True, -1), ("fail", 0), ("close",), ("timer", 1), ("timer", 0)] + late))
    out.append((CFG0, [up, ("send", 1, True, -1), ("send", 2, True, 30000), ("send", 1, False, -1), ("ok", 0), ("ok", 1),
                       ("close",), ("reply", 0, 1, [1]), ("lost", 1), ("timer", 0), ("lost", 0), ("timer", 1)] + late))
    # brokers being closed by a metadata refresh, then close(): the close Deferred waits for them too
    out.append((CFG0, [up, ("send", 1, True, -1), ("send", 2, True, -1), ("ok", 0), ("ok", 1), ("update", [(2, 6)], True),
                       ("close",), ("lost", 1), ("lost", 0)] + late))
    out.append((CFG0, [up, ("send", 1, True, -1), ("ok", 0), ("update", [(2, 6)], True), ("lost", 0), ("send", 2, True, -1),
                       ("ok", 1), ("update", [(1, 5)], True), ("close",), ("lost", 1)] + late))
    # nested aggregates: two refreshes retire a connected broker each; the first one's connection goes down while the second
    # is still closing; close(); the client's own connection goes down first: the close Deferred must still wait for broker 2
    up3 = ("update", [(1, 5), (2, 6), (3, 7)], False)
    out.append((CFG0, [up3, ("send", 1, True, -1), ("send", 2, True, -1), ("send", 3, True, -1), ("ok", 0), ("ok", 1), ("ok", 2),
                       ("update", [(1, 5), (2, 6)], True), ("update", [(1, 5)], True), ("lost", 2), ("close",), ("lost", 0),
                       ("lost", 1)] + late))
    out.append((CFG0, [up3, ("send", 1, True, -1), ("send", 2, True, -1), ("send", 3, True, -1), ("ok", 0), ("ok", 1), ("ok", 2),
                       ("update", [(1, 5), (2, 6)], True), ("update", [(1, 5)], True), ("lost", 1), ("close",), ("lost", 0),
                       ("lost", 2)] + late))
    # close() while a broker client is connecting, with an endpoint that reports cancellation as Twisted's do
    real = dict(CFG0, cancel="connecting")
    out.append((real, [up, ("send", 1, True, -1), ("close",), ("timer", 0), ("timer", 1)] + late))
    out.append((real, [up, ("send", 1, True, -1), ("fail", 0), ("timer", 1), ("close",), ("timer", 0)] + late))
    # an operation on its last / not last known broker, and one refreshed out from under it
    out.append((CFG0, [("update", [(1, 5)], False), ("op", 1, True), ("ok", 0), ("close",), ("lost", 0)] + late))
    out.append((CFG0, [up, ("op", 1, True), ("ok", 0), ("close",), ("lost", 0)] + late))
    out.append((CFG0, [up, ("op", 1, True), ("ok", 0), ("op", 0, True), ("update", [(2, 6)], True), ("ok", 1), ("close",),
                       ("lost", 0), ("lost", 1)] + late))
    # a response that triggers the refresh: load_metadata answered by a broker that is no longer in the cluster
    out.append((CFG0, [up, ("send", 2, True, -1), ("op", 1, True), ("ok", 0), ("ok", 1),
                       ("reply", 1, 2, L.meta_payload([(2, 6)], [1, 2])), ("close",), ("lost", 0), ("lost", 1)] + late))
    # _load_topic_partitions (F-C20-3, repaired): in its retry back-off at close(); retrying after the back-off; on a known broker
    bad = L.meta_payload([], [5])
    out.append((CFG0, [("op", 2, False), ("bootok", 0), ("bootreply", 0, 1, bad), ("close",)] + late))
    out.append((CFG0, [("op", 2, False), ("bootok", 0), ("bootreply", 0, 1, bad), ("timer", 1), ("bootok", 1),
                       ("bootreply", 1, 2, L.meta_payload([(1, 5)], [0])), ("op", 2, False), ("ok", 0),
                       ("reply", 0, 3, L.meta_payload([(1, 5)], [0, 6])), ("close",), ("lost", 0)] + late))
    out.append((CFG0, [up, ("op", 2, True), ("ok", 0), ("reply", 0, 1, L.meta_payload([(1, 5), (2, 6)], [4])), ("op", 2, False),
                       ("timer", 1), ("close",), ("lost", 0)] + late))
    # timers armed at close; second close
    out.append((dict(CFG0, dot=True), [up, ("send", 1, True, -1), ("send", 1, True, 30000), ("ok", 0), ("timer", 0),
                                       ("close",), ("close",), ("lost", 0), ("timer", 1)] + late))
    return out


def small_alphabet():
    return [("send", 1, True, -1), ("op", 1, True), ("op", 0, False), ("ok", 0), ("fail", 0), ("lost", 0),
            ("reply", 0, 1, L.meta_payload([(1, 5)], [0])), ("timer", None), ("close",), ("bootok", 0), ("bootfail", 0),
            ("bootlost", 0), ("update", [(2, 6)], True), ("op", 2, False), ("bootreply", 0, 1, L.meta_payload([], [5]))]


def enumerate_small(depth, limit):
    cfg = dict(CFG0, hosts=[1])
    first = [("update", [(1, 5)], False)]
    level = [[]]
    count = 0
    for _d in range(depth):
        nxt = []
        for seq in level:
            im = L.Impl(cfg)
            for ev in first + seq:
                im.apply(ev)
            for ev in small_alphabet():
                if ev[0] == "timer":
                    a = im.armed()
                    if not a:
                        continue
                    ev = ("timer", a[0])
                if not im.enabled(ev):
                    continue
                nxt.append(seq + [ev])
        for seq in nxt:
            count += 1
            yield cfg, first + seq
            if count >= limit:
                return
        level = nxt


def nontrivial(c, o):
    # a case exercises the property if close() was called while something was going on: the close event (5) is in the
    # case line and the trace shows a failed request / ended operation / closed connection
    return 13 in o or any(o[k] in (11, 12) for k in range(len(o)))


def check_cases(ck, label, batch, describe, findings):
    cases = [L.enc_case(cfg, evs) for cfg, _g, evs, _r in batch]
    impl = [L.enc_trace(recs) for _c, _g, _e, recs in batch]
    diffs, mo = ck.correspond(MODEL, MODULE, cases, impl, label, nontrivial=nontrivial, describe=describe)
    nbad = 0
    for cfg, gev, evs, recs in batch:
        bad, finds = L.monitor(cfg, recs, WHICH)
        for f in finds:
            findings.append((f, cfg, gev))
        if bad:
            nbad += 1
            report_monitor(ck, cfg, gev, bad)
    if diffs and not nbad:
        found = search_around(ck, [batch[i] for i in diffs[:5]])
        if not found:
            i = diffs[0]
            cfg, gev, evs, recs = batch[i]
            ck.violation({"kind": "correspondence broken", "correspondence": "corr:clientreq:trace(%s)" % label,
                          "theorems_no_longer_tied": THEOREMS, "cfg": cfg, "events": L.jsonable(gev),
                          "first_difference": base.first_diff(impl[i], mo[i]), "replay_op": "events"}, no_input=True)
    return len(diffs)


def report_monitor(ck, cfg, gev, bad):
    thm = bad[0][0]

    def failing(evs):
        _e, recs = L.run_impl(cfg, evs)
        b, _f = L.monitor(cfg, recs, WHICH)
        return any(x[0] == thm for x in b)
    small = L.shrink(cfg, gev, failing)
    _e, recs = L.run_impl(cfg, small)
    b, _f = L.monitor(cfg, recs, WHICH)
    ck.violation({"kind": "monitor", "theorem": thm, "what": [x[1] for x in b][:3], "cfg": cfg,
                  "events": L.jsonable(small), "impl_trace": [[list(map(repr, r["outs"])), repr(r["ev"])] for r in recs][-12:],
                  "replay_op": "events"})


def search_around(ck, batch):
    rnd = random.Random(ck.seed + 23)
    for cfg, gev, _evs, _recs in batch:
        for _try in range(60):
            ev2 = list(gev)
            if rnd.random() < 0.6 and ev2:
                del ev2[rnd.randrange(len(ev2))]
            g = L.Gen(rnd, "c20", length=len(ev2) + 25, cfg=dict(cfg), close_at=len(ev2) + rnd.randint(0, 10))
            try:
                for ev in ev2:
                    if g.im.enabled(ev):
                        g.im.apply(ev)
                        g.events.append(ev)
                _e, recs = g.run()
            except Exception:
                continue
            bad, _f = L.monitor(cfg, recs, WHICH)
            if bad:
                report_monitor(ck, cfg, g.events, bad)
                return True
    return False


def probe_f_c20_2(ck):
    """replays the two witnesses of Props/C20.v (C20_pending_fail_refuted, C20_close_waits_bootstrap_refuted) on the code"""
    cfg = dict(CFG0)
    evs1 = [("op", 1, True), ("close",)]
    _e, recs = L.run_impl(cfg, evs1)
    first = any(o[0] == "opres" and o[2] == 9 for o in recs[-1]["outs"])
    evs2 = [("op", 1, True), ("bootok", 0), ("close",)]
    _e, recs2 = L.run_impl(cfg, evs2)
    second = any(o[0] == "closefired" for o in recs2[-1]["outs"]) and bool(recs2[-1]["live_boot"])
    what = []
    if first:
        what.append("load_metadata_for_topics() pending at close() resolves with None instead of failing")
    if second:
        what.append("close()'s Deferred fires while the ephemeral bootstrap connection is still up")
    ck.finding("F-C20-2", first or second, "; ".join(what) if what else "not observed",
               {"kind": "finding witness", "cfg": cfg, "events": L.jsonable(evs1 if first else evs2), "replay_op": "events"})
    return first, second


def probe_f_c20_3(ck):
    """F-C20-3 (fixed in /repo 33a3ade): _load_topic_partitions() waiting in its retry back-off at close() must fail at once and
    leave no DelayedCall behind.  Witness replayed on the code every run; a recurrence is a VIOLATION."""
    import struct
    import simnet
    from twisted.python.failure import Failure
    vlib.import_repo()
    from afkak.client import KafkaClient
    log = []
    clock = simnet.SimClock(log)
    net = simnet.SimNet(log)
    c = KafkaClient("h001:9093", reactor=clock, endpoint_factory=net, retry_policy=lambda f: 0.44, timeout=5000,
                    enable_protocol_version_discovery=False)
    res = []
    c._load_topic_partitions("t0").addBoth(res.append)
    tr = net.pending()[0].accept()
    body = struct.pack(">ii", 1, 0) + struct.pack(">i", 1) + struct.pack(">h", 5) + L._s16("t0") + struct.pack(">i", 0)
    tr.deliver(simnet.frame(body))
    armed_before = len(clock.getDelayedCalls())
    c.close()
    observed = (not res) or bool(clock.getDelayedCalls()) or not isinstance(res[0], Failure)
    ck.finding("F-C20-3", observed and armed_before == 1,
               "_load_topic_partitions() in its retry back-off at close(): pending=%r, DelayedCalls left=%d" % (not res, len(clock.getDelayedCalls())),
               {"kind": "finding witness", "script": "props/C20.py:probe_f_c20_3", "replay_op": "none"})
    ck.hist("F-C20-3_probe_reached_backoff", 1 if armed_before == 1 else 0)


def run(ck):
    vlib.import_repo()
    ck.build([MODEL])
    ck.props()
    rnd = random.Random(ck.seed)
    thorough = ck.tier == "thorough"
    describe = lambda c: {"cfg": c[:4], "line": c[:60]}
    findings = []

    batch = []
    for cfg, evs in corpus():
        done, recs = L.run_impl(cfg, evs)
        batch.append((cfg, evs, done, recs))
    ndiff = check_cases(ck, "corpus", batch, describe, findings)

    n = 320 if not thorough else 6000
    batch = []
    hist = {}
    for k in range(n):
        length = rnd.choice([12, 25, 40, 60] if not thorough else [25, 40, 60, 90, 140])
        close_at = rnd.randrange(2, max(3, length - 4)) if k % 3 else None     # two thirds: close() at a random point
        g = L.Gen(rnd, "c20", length=length, cfg=L.random_cfg(rnd), close_at=close_at)
        evs, recs = g.run()
        batch.append((g.cfg, g.events, evs, recs))
        for key, v in g.hist.items():
            hist[key] = hist.get(key, 0) + v
    ndiff += check_cases(ck, "generated histories", batch, describe, findings)
    for key, v in sorted(hist.items()):
        ck.hist(key, v)

    depth, limit = (4, 2500) if not thorough else (6, 150000)
    batch = []
    for cfg, evs in enumerate_small(depth, limit):
        done, recs = L.run_impl(cfg, evs)
        batch.append((cfg, evs, done, recs))
    ck.hist("exhaustive_sequences_depth_%d" % depth, len(batch))
    ndiff += check_cases(ck, "exhaustive small scope (1 broker, 1 bootstrap host, depth %d)" % depth, batch, describe, findings)

    # --- residual finding F-C20-2: the witnesses of the _refuted theorems replayed on the code, plus what the monitors met
    probe_f_c20_2(ck)
    probe_f_c20_3(ck)
    ck.hist("F-C20-2_occurrences_in_generated_cases", len(findings))

    # --- the REAL public entry points (produce/fetch/offset*, the group code's JoinGroup with its 35 s minimum, heartbeats,
    #     metadata / coordinator lookups, _load_topic_partitions) against a scripted honest broker: monitors only
    from props import clientreq_public as PUB
    PUB.run_public(ck, WHICH, 60 if not thorough else 1500)

    if thorough:
        ck.coqchk(["AV.Props.C20"])
    ck.cov["rule"] = ("corpus (every client state the property names at close(): idle, bootstrapping (connecting / request written), "
                      "connecting, backing off, requests in flight on several brokers, brokers being closed by a refresh, operations on the "
                      "last / an earlier known broker, timers armed, second close; each followed by late events and new work) + seeded "
                      "state-aware generator with close() forced at a random point in two thirds of the histories + every sequence of enabled "
                      "events over a 15-event alphabet up to the stated depth.  Non-trivial: a request/operation was resolved or the close "
                      "Deferred fired; distinct = distinct case lines.")
    ck.assumptions += [
        "hand-written Gallina model Model/ClientReq.v stands for afkak/client.py:368-392, 897-987, 1028-1229, 468-527 composed with Model/BrokerClient.v "
        "(brokerclient.py) and the one-request bootstrap protocol (_protocol.py:63-140); tied to the code by this run's correspondence only",
        "the order in which close() cancels several bootstrap steps (a set of Deferreds) is not observable: the canonical trace sorts the outputs of one step by actor",
        "random.shuffle is replaced by a deterministic permutation chosen per case; set(self.clients) - set(brokers) iterated in ascending node id (node ids 0..7)",
        "only the key set of topic_errors and the broker table are in the model; the monitors check on the implementation that topics_to_brokers, "
        "topic_partitions, topic_errors and the coordinator cache are all empty after close() (partition_meta is never pruned by the code and is not part of the check)",
        "F-C20-2 (known): a load_metadata_for_topics() pending at close() resolves with None; the close Deferred does not wait for an ephemeral bootstrap connection",
        "_load_topic_partitions is operation kind 2 of the model (attempts counted in the kind, retry back-off = timer kind TWait, cancelled by close(): "
        "F-C20-3's repair is inside the model); a metadata response makes it retry iff it names a topic in error / without partitions (abstract topic ids >= 4)",
        "extraction: ExtrOcamlBasic only; OCaml runner cross-checked by vm_compute on a sample",
    ]
    ck.cov["trusted_base"] += ["correspondence harness harness/props/clientreq_lib.py + harness/simnet.py + harness/vlib.py",
                               "extracted OCaml runner (ExtrOcamlBasic) cross-checked by vm_compute sample"]


def replay(rp):
    if rp.get("public"):
        from props import clientreq_public as PUB
        return PUB.replay_public(rp, WHICH)
    cfg = rp["cfg"]
    evs = L.unjson(rp["events"])
    done, recs = L.run_impl(cfg, evs)
    for r in recs:
        print(r["ev"], "->", r["outs"], "timers", r["ntimers"], "live", r["live_bc"], r["live_boot"])
    bad, finds = L.monitor(cfg, recs, WHICH)
    print("monitor:", bad, finds)
    return 1 if bad else 0
