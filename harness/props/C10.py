# C10 - after a connection drop, unanswered requests are re-sent once, in order; reconnect iff pending; back-off; close.
#
# Ties coq/Model/BrokerClient.v (M7) to afkak/brokerclient.py: the real _KafkaBrokerClient runs under simnet (virtual
# clock, puppet endpoints whose connect Deferred the driver accepts / fails, recording transports whose loss is a separate
# event) and is driven through generated and exhaustively enumerated histories; the same histories go through the
# extracted model; canonical traces are compared; monitors restating the theorems of coq/Props/C10.v run over the
# implementation's own trace.  The float handed to callLater is compared bit for bit with retryPolicy(k) for the
# count k the implementation passed (drv_brokerclient.Impl._canon); the model carries k only.
import random

import vlib

import drv_brokerclient as D
from props import brokerclient_lib as L

THEOREMS = ["C10_sync_step_simulation", "C10_sync_run_is_async_run", "C10_sync_reachable", "C10_sync_never_resent", "C10_sync_closed_forever",
            "C10_no_early_attempt", "C10_written_on_current_connection", "C10_reentrant_close_all_fired", "C10_reentrant_reachable", "C10_reentrant_never_resent", "C10_reentrant_conservative", "C10_unguarded_flush_refuted", "C10_never_stuck", "C10_one_connection", "C10_table_shape", "C10_reachable", "C10_resend", "C10_resend_at_loss", "C10_never_resent", "C10_once_per_connection", "C10_write_own_id",
            "C10_reconnect_iff_pending", "C10_idle_connects_on_request", "C10_backoff_fail", "C10_backoff_fire", "C10_backoff",
            "C10_close", "C10_closed_forever"]
WHICH = ("C10",)


def drop_point_histories(rnd, n):
    """structured histories: a request set in every status (answered, cancelled-written, cancelled-unsent, no-reply, unsent,
    live), then the connection is lost at a chosen point (before / between / inside frames), k failed attempts, reconnect,
    possibly lost again; interleaved cancels / new requests / close while disconnected"""
    out = []
    for _ in range(n):
        evs, nreq = [], rnd.randint(1, 7)
        rids = rnd.sample(range(1, 40), nreq)
        expect = [rnd.random() > 0.2 for _ in rids]
        pre = rnd.randint(0, nreq)                       # requests made before the connection is up
        for i in range(pre):
            evs.append(("make", rids[i], expect[i]))
        if pre == 0:
            evs.append(("make", 100, True))
        if rnd.random() < 0.3:
            evs += [("fail",), ("fire",)] * rnd.randint(1, 3)
        evs.append(("ok",))
        for i in range(pre, nreq):
            evs.append(("make", rids[i], expect[i]))
        wire = b""
        for i in rnd.sample(range(nreq), rnd.randint(0, nreq)):
            r = rnd.random()
            if r < 0.45 and expect[i]:
                wire += D.simnet.frame(D.reply(rids[i], b"ok"))
            elif r < 0.75:
                evs.append(("cancel", i if pre else i + 1))
        # drop point: deliver a prefix of the wire (between or inside frames), then lose the connection
        cut = rnd.choice([0, len(wire), rnd.randint(0, len(wire))])
        if cut:
            evs.append(("data", wire[:cut]))
        for _round in range(rnd.randint(1, 3)):
            if rnd.random() < 0.2:
                evs.append(("disc",))
            evs.append(("lost",))
            for _k in range(rnd.choice([0, 0, 1, 2, 5])):
                evs.append(("fail",))
                x = rnd.random()
                if x < 0.15:
                    evs.append(("cancel", rnd.randint(0, nreq)))
                elif x < 0.3:
                    evs.append(("make", rnd.randint(41, 60), rnd.random() > 0.2))
                elif x < 0.34:
                    evs.append(("close",))
                evs.append(("fire",))
            if rnd.random() < 0.15:
                evs.append(("make", rnd.randint(61, 80), rnd.random() > 0.3))
            if rnd.random() < 0.1:
                evs.append(("cancel", rnd.randint(0, nreq)))
            evs.append(("ok",))
            if rnd.random() < 0.4:
                evs.append(("data", wire[cut:]))        # stale bytes of the old connection's stream must mean nothing special
            if rnd.random() < 0.3:
                evs.append(("frame", D.reply(rnd.choice(rids))))
        if rnd.random() < 0.3:
            evs += [("close",), ("lost",), ("make", 99, True), ("fire",), ("ok",)]
        out.append(evs)
    return out


def run(ck):
    vlib.import_repo()
    ck.build(["brokerclient", "brokerclienthook", "brokerclientsync", "brokerclientwrite"])
    ck.props()
    rnd = random.Random(ck.seed)
    thorough = ck.tier == "thorough"
    scale = 25 if thorough else 1

    items = [(evs, D.run_impl(evs, pk), pk) for _name, evs in L.CORPUS for pk in ("const", "const+cc")]
    L.evaluate(ck, "corpus: hand-written histories (Props examples, mixed table lost twice, close in every connection state)", items,
               WHICH, THEOREMS, L.nontrivial_c10, rnd)

    items = []
    for evs in drop_point_histories(rnd, 500 * scale):
        pk = rnd.choice(L.POLICIES)
        items.append((evs, D.run_impl(evs, pk), pk))
        ck.hist("drop_point_histories")
    L.evaluate(ck, "structured drop-point histories (random sample of: request statuses x loss before/between/inside frames x k failed attempts x re-loss)",
               items, WHICH, THEOREMS, L.nontrivial_c10, rnd)

    items = L.generate(ck, rnd, 1100 * scale, ["c10", "c10", "c10", "c06"], [8, 20, 40, 40, 70, 120], end_close_p=0.3)
    L.evaluate(ck, "generated histories vs Model.BrokerClient.run (profile c10: losses, consecutive connect failures, timers, close, disconnect)",
               items, WHICH, THEOREMS, L.nontrivial_c10, rnd)
    if thorough:
        items = L.generate(ck, rnd, 300, ["c10"], [400, 800])
        L.evaluate(ck, "long generated histories (400-800 events)", items, WHICH, THEOREMS, L.nontrivial_c10, rnd)

    L.sync_connect_part(ck, rnd, 400 * (10 if thorough else 1), THEOREMS)
    L.reentrant_part(ck, rnd, 400 * (10 if thorough else 1), THEOREMS)
    L.tree_part(ck, rnd, 600 * (10 if thorough else 1), THEOREMS)

    L.write_part(ck, rnd, 400 * (10 if thorough else 1), ["C10_write_failure_reachable", "C10_write_failure_never_resent"])

    # ---- finding F-C10-1 (repaired by 7c12cf4): the witness is replayed on every run as a regression probe
    observed, fev, fhooks, fouts = L.probe_f_c10_1()
    what = ("close() called from the callback of a no-reply request while the queue is flushed on a new connection: a request "
            "is written after close() failed its Deferred (afkak/brokerclient.py _sendQueued)")
    frp = {"kind": "finding witness", "theorem": "C10_reentrant_never_resent", "events": D.jsonable(fev), "hooks": fhooks, "policy": "const",
           "outputs_of_connect_event": [list(map(repr, o)) for o in fouts], "replay_op": "bc-tree"}
    ck.finding("F-C10-1", observed, what, frp)

    L.exhaustive(ck, 7 if thorough else 6, "whole", WHICH, THEOREMS, rnd)
    for hk in sorted(L.HOOK_TABLES):
        L.exhaustive(ck, 6 if thorough else 5, hk, WHICH, THEOREMS, rnd)
    if thorough:
        L.exhaustive(ck, 7, "split", WHICH, THEOREMS, rnd)
        ck.coqchk(["AV.Props.C10"])

    ck.cov["rule"] = ("seeded generators (random.Random(VERIF_SEED)): (a) structured drop-point histories (a random sample, not an enumeration) - 1-7 requests drawn over every status (answered, "
                      "cancelled after/before being written, no-reply, unsent, live), connection lost before / between / inside response frames, 0-5 consecutive "
                      "failed attempts with cancels, new requests and close during back-off, reconnect, stale bytes, 1-3 rounds; (b) on-line state-aware "
                      "generator over the whole event alphabet with about 10% late/disabled events (disabled ones - no object to act on - exercise only the "
                      "model's no-op); (c) every enabled sequence up to the stated depth over 13 events, over 12 events with three fixed tables of user "
                      "callbacks (and, thorough, over an alphabet where one reply arrives in two pieces); (d) histories with connect() completing "
                      "synchronously incl. a fixed corpus (close during back-off after a synchronous failure), with user callbacks in tail position, and "
                      "with user callbacks/errbacks calling cancel/makeRequest/disconnect/close from inside _sendQueued's and close()'s loops. Retry policies: constant, Twisted backoffPolicy "
                      "(default and afkak's parameters, no jitter), two non-monotone random tables - the delay passed to callLater is compared bit for bit "
                      "with policy(k). A case is non-trivial if a connection was lost with a request outstanding, a connection attempt failed, or close() "
                      "failed a pending request; distinct = distinct canonical case lines.")
    ck.assumptions += [
        "hand-written Gallina model Model/BrokerClient.v stands for afkak/brokerclient.py:44-79,148-462 (tie = this run's differential correspondence, not a proof)",
        "Twisted (Deferred, Clock, deferLater, maybeDeferred) is exercised, not verified; that a reactor fires the back-off timer after the delay it was given is runtime behaviour: the model carries the failure COUNT handed to the retry policy, the driver checks the float bit for bit",
        "the retry policy is a parameter (any callable that returns a number); jitter of afkak's default policy is outside the statement; a policy or endpoint factory that RAISES is outside the model and not generated (a raising retryPolicy leaves self.connector a fired Deferred: the real client would never reconnect, C10_never_stuck says nothing about it)",
        "request payload bytes are outside the model; a write that raises inside _sendRequest is modelled by Model/BrokerClientWrite.v as a per-request oracle (str payload), C10_write_failure_*; user callbacks that raise are driven (no model event, traces must agree)",
        "endpoints whose connect() completes synchronously are modelled by Model/BrokerClientSync.v (connect mode per attempt; tryConnect transcribed statement by statement) and PROVED equal to the asynchronous run with the outcome as the next event (C10_sync_step_simulation, C10_sync_run_is_async_run); the real code is compared with both (sync_connect_part); user callbacks/errbacks re-entering the client: inside _sendQueued's and close()'s loops they are INSIDE the extended model Model/BrokerClientHook.v (IConnOk / IClose interleavings, theorems C10_reentrant_*) and its correspondence; in tail positions the driver inserts the call as the next event (checked on the real code; proved for reply callbacks by C06_tail_reentrancy); where user code runs inside close()'s loop the comparison with the model is made only when the order of failing is observably the model's (newest first, no tombstone), otherwise only the order-independent monitors apply (the property does not fix that order)",
        "a cancelled connection attempt fails with CancelledError (bare Deferred) or ConnectingCancelledError (Twisted's stock endpoints): both flavours are generated (policy suffix +cc, drv_brokerclient.CcNet), the model does not distinguish them",
        "events the environment cannot produce (no attempt / transport / Deferred to act on) cannot be applied to the implementation; a timer event with no timer armed is applied as an hour of virtual time passing",
        "C10_close and the model fail the pending requests newest first; the property does not fix the order: the driver puts the ClientError firings of one close() into that order before comparing and the monitor demands only the SET",
        "loseConnection() is only a REQUEST in the simulated transport: the loss is the separate event `lost`, so the window between the two is explored",
        "extraction: ExtrOcamlBasic only; the comparison is made against the extracted runner; a sample of every part, including about 195 lines per enumerated alphabet and about 30 of the user-callback histories, is re-evaluated inside Coq by vm_compute (not the tail-position and synchronous-connect comparisons, whose model traces are post-processed by the driver)",
    ]
    ck.cov["trusted_base"] += ["correspondence harness harness/props/C10.py + props/brokerclient_lib.py + drv_brokerclient.py + simnet.py + vlib.py",
                               "extracted OCaml runner (ExtrOcamlBasic) cross-checked by vm_compute sample"]


def replay(rp):
    if rp.get("replay_op") == "bc":
        return L.replay_bc(rp)
    if rp.get("replay_op") == "bc-hook":
        return L.replay_hook(rp)
    if rp.get("replay_op") == "bc-tree":
        return L.replay_tree(rp)
    if rp.get("replay_op") == "bc-write":
        return L.replay_write(rp)
    if rp.get("replay_op") == "bc-sync":
        return L.replay_sync(rp)
    print(rp)
    return 1
