# group_lib - shared by C16 / C17: drives the REAL afkak._group.ConsumerGroup / Coordinator under a
# recording task.Clock with a scripted stand-in client and a stub partition Consumer, and produces the
# canonical integer trace that coq/Model/Group.v `run_case` produces for the same case line.
#
# Case line:  [kind] ++ events          kind: 1 = ConsumerGroup, 0 = bare Coordinator
#   event codes (fixed arity unless noted)
#     1 Start                      2 Stop
#     3 LookupResult rid res       res: 0 broker, 1 none (falsy), 100+k failure kind k
#     4 MetaResult rid res         res: 0 ok, 100+k
#     5 JoinReply rid res gen member leader   res 0 ok / 100+k; leader: 0 follower 1 leader 2 leader+members without subscriptions
#     6 PartsResult rid res        res: 0 ok, 1 ok but a topic is missing, 100+k
#     7 SyncReply rid res n t1 p1 .. tn pn   res: 0 ok, 1 ok but undecodable (non-Kafka exception), 2 undecodable (ProtocolError), 100+k,
#                                            10+j ok, but the Consumer constructor raises for the (j+1)-th consumer on_join_complete builds
#     8 HeartbeatTick              9 HeartbeatReply rid res (0 ok / 100+k)
#    10 FireJoinTimer id          11 LeaveReply rid res (0 ok / 100+k)
#    12 ConsumerStartFails cid k  13 ConsumerShutdownDone cid res (0 ok / 1 fail)
#   failure kinds k: 0 RebalanceInProgress 1 CoordinatorNotAvailable 2 NotCoordinator 3 IllegalGeneration
#     4 InvalidGroupId 5 UnknownMemberId 6 InconsistentGroupProtocol 7 RequestTimedOut 8 other KafkaError
#     9 twisted CancelledError 10 non-Kafka exception
# Trace: for every event  -1 followed by the outputs it caused, each  [code, args...]:
#     1 LookupCoordinator rid      2 LoadMetadata rid        3 SendJoin rid member
#     4 LookupPartitions rid       5 SendSync rid gen member leaderflag
#     6 SendHeartbeat rid gen member   7 SendLeave rid member
#     8 Sched class delaykind id   (class 0 join_and_sync timer [id = creation index], 1 heartbeat looper [id 0];
#                                   delaykind 0 initial_backoff 1 retry_backoff 2 fatal_backoff 3 heartbeat interval)
#     9 CancelTimer class id      10 StartConsumer cid topic partition gen member committed(1)
#    11 ShutdownConsumer cid      12 StopConsumer cid
#    13 StartDeferred idx res (0 ok / 100+k)     14 StopDeferred idx res (0 ok, 1 RestopError, 2 other)
#    15 ApiResult (0 returned, 1 raised RestartError, 2 raised other)
#    16 ResetCoordinatorMetadata  17 CancelRequest rid
# generation None = -1; member "" = 0, "m<k>" = k.
import logging
import random

from twisted.internet import defer
from twisted.internet.base import DelayedCall
from twisted.internet.task import Clock, LoopingCall
from twisted.python.failure import Failure

# unhandled-error reports of Deferreds the scripted histories deliberately leave failed must not reach stderr
try:
    from twisted.logger import globalLogBeginner
    globalLogBeginner.beginLoggingTo([lambda ev: None], redirectStandardIO=False, discardBuffer=True)
except Exception:      # already begun by somebody else: harmless
    pass

NKINDS = 11
K_REBALANCE, K_CNA, K_NOTCOORD, K_ILLGEN, K_INVGROUP, K_UNKMEMBER, K_INCONSISTENT, K_TIMEOUT, K_OTHERKAFKA, K_CANCELLED, K_NONKAFKA = range(NKINDS)
KIND_NAMES = ["RebalanceInProgress", "CoordinatorNotAvailable", "NotCoordinator", "IllegalGeneration", "InvalidGroupId",
              "UnknownMemberId", "InconsistentGroupProtocol", "RequestTimedOut", "otherKafkaError", "CancelledError", "nonKafka"]

E_START, E_STOP, E_LOOKUP, E_META, E_JOIN, E_PARTS, E_SYNC, E_TICK, E_HBREPLY, E_FIRE, E_LEAVE, E_CFAIL, E_CSHUT = range(1, 14)
EV_NAMES = {1: "Start", 2: "Stop", 3: "LookupResult", 4: "MetaResult", 5: "JoinReply", 6: "PartsResult", 7: "SyncReply",
            8: "HeartbeatTick", 9: "HeartbeatReply", 10: "FireJoinTimer", 11: "LeaveReply", 12: "ConsumerStartFails",
            13: "ConsumerShutdownDone"}
O_LOOKUP, O_META, O_JOIN, O_PARTS, O_SYNC, O_HB, O_LEAVE, O_SCHED, O_CANCELT, O_STARTC, O_SHUTC, O_STOPC, O_STARTD, O_STOPD, O_API, O_RESET, O_CANCELR = range(1, 18)
OUT_NAMES = {1: "LookupCoordinator", 2: "LoadMetadata", 3: "SendJoin", 4: "LookupPartitions", 5: "SendSync", 6: "SendHeartbeat",
             7: "SendLeave", 8: "Sched", 9: "CancelTimer", 10: "StartConsumer", 11: "ShutdownConsumer", 12: "StopConsumer",
             13: "StartDeferred", 14: "StopDeferred", 15: "ApiResult", 16: "ResetCoordinatorMetadata", 17: "CancelRequest"}
OUT_ARITY = {1: 1, 2: 1, 3: 2, 4: 1, 5: 4, 6: 3, 7: 2, 8: 3, 9: 2, 10: 6, 11: 1, 12: 1, 13: 2, 14: 2, 15: 1, 16: 0, 17: 1}
EV_ARITY = {1: 0, 2: 0, 3: 2, 4: 2, 5: 5, 6: 2, 8: 0, 9: 2, 10: 1, 11: 2, 12: 2, 13: 2}   # 7 is variable

GROUP_TOPICS = ["t0", "t1", "t2"]


# ------------------------------------------------------------------ case lines
def parse_events(line):
    """[kind, ...] -> (kind, [event tuples]); raises ValueError on a malformed line"""
    kind, i, evs = line[0], 1, []
    while i < len(line):
        c = line[i]
        if c == E_SYNC:
            rid, res, n = line[i + 1], line[i + 2], line[i + 3]
            pairs = line[i + 4:i + 4 + 2 * n]
            if n < 0 or len(pairs) != 2 * n:
                raise ValueError("bad sync event")
            evs.append((c, rid, res, [(pairs[2 * j], pairs[2 * j + 1]) for j in range(n)]))
            i += 4 + 2 * n
        elif c in EV_ARITY:
            a = EV_ARITY[c]
            if i + 1 + a > len(line):
                raise ValueError("truncated event")
            evs.append(tuple(line[i:i + 1 + a]))
            i += 1 + a
        else:
            raise ValueError("unknown event code %r" % c)
    return kind, evs


def encode_event(ev):
    if ev[0] == E_SYNC:
        flat = []
        for t, p in ev[3]:
            flat += [t, p]
        return [E_SYNC, ev[1], ev[2], len(ev[3])] + flat
    return list(ev)


def encode_case(kind, evs):
    out = [kind]
    for ev in evs:
        out += encode_event(ev)
    return out


def split_trace(tr):
    """flat trace -> list (per event) of lists of output tuples"""
    steps, i = [], 0
    while i < len(tr):
        if tr[i] == -1:
            steps.append([])
            i += 1
            continue
        code = tr[i]
        a = OUT_ARITY.get(code)
        if a is None or not steps:
            steps.append([("?",) + tuple(tr[i:])])
            break
        steps[-1].append(tuple(tr[i:i + 1 + a]))
        i += 1 + a
    return steps


def pretty_event(ev):
    n = EV_NAMES.get(ev[0], "?")
    if ev[0] in (E_LOOKUP, E_META, E_PARTS, E_HBREPLY, E_LEAVE):
        r = ev[2]
        return "%s(rid=%d, %s)" % (n, ev[1], ("fail " + KIND_NAMES[r - 100]) if r >= 100 else {0: "ok", 1: "none/missing"}.get(r, r))
    if ev[0] == E_JOIN:
        r = ev[2]
        return "%s(rid=%d, %s)" % (n, ev[1], ("fail " + KIND_NAMES[r - 100]) if r >= 100 else "ok gen=%d member=%d leader=%d" % ev[3:6])
    if ev[0] == E_SYNC:
        r = ev[2]
        return "%s(rid=%d, %s)" % (n, ev[1], ("fail " + KIND_NAMES[r - 100]) if r >= 100 else
                                   ("assignment=%r, Consumer constructor raises at #%d" % (ev[3], r - 10)) if r >= 10 else "res=%d assignment=%r" % (r, ev[3]))
    if ev[0] == E_CFAIL:
        return "%s(cid=%d, %s)" % (n, ev[1], KIND_NAMES[ev[2]] if 0 <= ev[2] < NKINDS else ev[2])
    if ev[0] == E_CSHUT:
        return "%s(cid=%d, %s)" % (n, ev[1], "ok" if ev[2] == 0 else "fail")
    return "%s%r" % (n, tuple(ev[1:]))


def pretty_trace(kind, evs, tr):
    steps = split_trace(tr)
    lines = ["kind=%s" % ("ConsumerGroup" if kind == 1 else "Coordinator")]
    for i, ev in enumerate(evs):
        outs = steps[i] if i < len(steps) else ["<missing>"]
        lines.append("%2d %-46s -> %s" % (i, pretty_event(ev), ", ".join(
            (OUT_NAMES.get(o[0], str(o[0])) + repr(tuple(o[1:]))) if isinstance(o, tuple) else str(o) for o in outs)))
    return "\n".join(lines)


# ------------------------------------------------------------------ recording reactor
class RecClock(Clock):
    """task.Clock whose callLater / DelayedCall.cancel are recorded.  Virtual time never advances: the driver
    fires one chosen call at a time, so every schedule (ordering of timers and replies) can be produced and the
    delay handed to callLater is exactly the implementation's own expression (checked bit for bit)."""

    def __init__(self, rec):
        Clock.__init__(self)
        self.rec = rec

    def callLater(self, delay, callable, *args, **kw):
        def cancel(call):
            self.calls.remove(call)
            self.rec.timer_cancelled(call)
        dc = DelayedCall(self.seconds() + delay, callable, args, kw, cancel, lambda c: None, self.seconds)
        self.calls.append(dc)
        self.rec.timer_created(dc, delay, callable)
        return dc

    def fire(self, dc):
        self.calls.remove(dc)
        dc.called = 1
        dc.func(*dc.args, **dc.kw)


class Req(object):
    __slots__ = ("rid", "kind", "d", "info")


class StandInClient(object):
    """what Coordinator uses of KafkaClient; every Deferred is resolved by the driver"""

    def __init__(self, rec):
        self.rec = rec
        self.reactor = rec.clock

    def _new(self, kind, out):
        rec = self.rec
        r = Req()
        r.rid, r.kind = len(rec.reqs), kind
        r.d = defer.Deferred(lambda d, r=r: rec.out(O_CANCELR, r.rid))
        r.info = list(out)
        rec.reqs.append(r)
        rec.out(*([out[0], r.rid] + out[1:]))
        return r.d

    def _get_coordinator_for_group(self, group_id):
        from afkak.common import BrokerMetadata
        self.rec.note_group(group_id)
        d = self._new("lookup", [O_LOOKUP])
        if self.rec.sync_policy is not None and self.rec.sync_policy("lookup"):
            # cached coordinator: KafkaClient returns an already-fired Deferred.  Equivalent event for the model: ELookup rid ok,
            # delivered right after the event that issued the lookup
            r = self.rec.reqs[-1]
            self.rec.auto_events.append((E_LOOKUP, r.rid, 0))
            d.callback(BrokerMetadata(1, "h", 9092))
        return d

    def load_metadata_for_topics(self, *topics):
        self.rec.note_topics(topics)
        return self._new("meta", [O_META])

    def _load_topic_partitions(self, *topics):
        return self._new("parts", [O_PARTS])

    def reset_consumer_group_metadata(self, *groups):
        self.rec.out(O_RESET)

    def _send_request_to_coordinator(self, group, payload, encoder_fn, decode_fn, **kwargs):
        from afkak.common import _HeartbeatRequest, _JoinGroupRequest, _LeaveGroupRequest, _SyncGroupRequest
        self.rec.note_group(group)
        self.rec.note_group(payload.group)
        if isinstance(payload, _JoinGroupRequest):
            self.rec.join_payloads.append((payload, kwargs))
            return self._new("join", [O_JOIN, mem_int(payload.member_id)])
        if isinstance(payload, _SyncGroupRequest):
            return self._new("sync", [O_SYNC, gen_int(payload.generation_id), mem_int(payload.member_id),
                                      1 if payload.group_assignment else 0])
        if isinstance(payload, _HeartbeatRequest):
            return self._new("hb", [O_HB, gen_int(payload.generation_id), mem_int(payload.member_id)])
        if isinstance(payload, _LeaveGroupRequest):
            return self._new("leave", [O_LEAVE, mem_int(payload.member_id)])
        raise AssertionError("unexpected payload %r" % (payload,))


def mem_int(m):
    if m == "" or m is None:
        return 0
    if isinstance(m, str) and m.startswith("m") and m[1:].isdigit():
        return int(m[1:])
    return -7


def mem_str(k):
    return "" if k == 0 else "m%d" % k


def gen_int(g):
    return -1 if g is None else int(g)


def make_stub_consumer(rec):
    from afkak.common import OFFSET_COMMITTED, RestartError, RestopError

    class StubConsumer(object):
        """The partition Consumer by its contract only (afkak/consumer.py:289-464): start() returns a Deferred that
        fails when the consumer meets an unrecoverable error (and `_start_d` stays set), shutdown() returns a plain
        Deferred that fires after the consumer stopped itself, stop() fires the start Deferred if it has not fired."""

        def __init__(self, client, topic, partition, processor, consumer_group=None, commit_consumer_id=None,
                     commit_generation_id=None, **kw):
            if rec.ctor_raise_at is not None:          # driver: `Consumer(...)` raises for the (j+1)-th consumer of this sync (bad consumer_kwargs)
                if rec.ctor_count == rec.ctor_raise_at:
                    rec.ctor_raise_at = None
                    raise TypeError("__init__() got an unexpected keyword argument 'auto_comit_every_n'")
                rec.ctor_count += 1
            self.cid = len(rec.consumers)
            rec.consumers.append(self)
            self.topic, self.partition = topic, partition
            self.group, self.member, self.generation = consumer_group, commit_consumer_id, commit_generation_id
            self.extra_kw = kw
            self._start_d = None
            self._shutdown_d = None
            self.start_offset = None
            rec.note_group(consumer_group)

        def start(self, start_offset):
            if self._start_d is not None:
                raise RestartError("Start called on already-started consumer")
            self.start_offset = start_offset
            t = int(self.topic[1:]) if self.topic[:1] == "t" and self.topic[1:].isdigit() else -7
            rec.out(O_STARTC, self.cid, t, self.partition, gen_int(self.generation), mem_int(self.member),
                    1 if start_offset == OFFSET_COMMITTED else 0)
            self._start_d = defer.Deferred()
            k = rec.sync_start_failures.pop(0) if rec.sync_start_failures else None
            if k is not None:      # the consumer meets an unrecoverable error before start() returns: already-failed Deferred
                rec.sync_failed.append((self.cid, k))
                self._start_d.errback(Failure(make_exc(k, rec.salt + self.cid)))
            return self._start_d

        def shutdown(self):
            rec.out(O_SHUTC, self.cid)
            if self._start_d is None:
                return defer.fail(Failure(RestopError("Shutdown called on non-running consumer")))
            if self._shutdown_d:
                return defer.fail(Failure(RestopError("Shutdown called more than once.")))
            self._shutdown_d = d = defer.Deferred()
            if rec.sync_policy is not None and rec.sync_policy("shutdown"):
                # an idle consumer with nothing to commit: shutdown() completes before it returns (model: ECShut cid ok right after)
                rec.auto_events.append((E_CSHUT, self.cid, 0))
                self._shutdown_d = None
                self._finish()
                d.callback(0)
            return d

        def stop(self):
            rec.out(O_STOPC, self.cid)
            if self._start_d is None:
                raise RestopError("Stop called on non-running consumer")
            self._finish()
            sd, self._shutdown_d = self._shutdown_d, None
            if sd is not None and not sd.called:
                sd.errback(Failure(defer.CancelledError()))   # the commit of the pending shutdown is cancelled

        def _finish(self):
            self._start_d, d = None, self._start_d
            if not d.called:
                d.callback(0)

        # ---- driver side
        def can_fail_start(self):
            return self._start_d is not None and not self._start_d.called

        def shutdown_pending(self):
            return self._shutdown_d is not None and not self._shutdown_d.called

        def drv_start_fails(self, exc):
            self._start_d.errback(Failure(exc))

        def drv_shutdown_done(self, ok):
            sd, self._shutdown_d = self._shutdown_d, None
            self._finish()                       # Consumer.shutdown's continuation calls its own stop() first
            if ok:
                sd.callback(0)
            else:
                sd.errback(Failure(make_exc(K_OTHERKAFKA, self.cid)))
    return StubConsumer


def make_exc(kind, salt=0):
    import afkak.common as C
    if kind == K_REBALANCE:
        return C.RebalanceInProgress()
    if kind == K_CNA:
        return C.CoordinatorNotAvailable()
    if kind == K_NOTCOORD:
        return C.NotCoordinatorForConsumerError()
    if kind == K_ILLGEN:
        return C.IllegalGeneration()
    if kind == K_INVGROUP:
        return C.InvalidGroupId()
    if kind == K_UNKMEMBER:
        return C.UnknownMemberId()
    if kind == K_INCONSISTENT:
        return C.InconsistentGroupProtocol()
    if kind == K_TIMEOUT:
        return C.RequestTimedOutError()
    if kind == K_OTHERKAFKA:
        return [C.KafkaError("x"), C.UnknownError(), C.GroupAuthorizationFailed(), C.CoordinatorLoadInProgress(),
                C.InvalidSessionTimeout(), C.KafkaUnavailableError("x"), C.CancelledError("afkak's own"),
                C.FailedPayloadsError([], []), C.NetworkException()][salt % 9]
    if kind == K_CANCELLED:
        return defer.CancelledError()
    if kind == K_NONKAFKA:
        return [ValueError("x"), ArithmeticError("x"), RuntimeError("x"), KeyError("x"), AttributeError("x")][salt % 5]
    raise ValueError(kind)


def classify_exc(v):
    import afkak.common as C
    order = [(C.RebalanceInProgress, K_REBALANCE), (C.CoordinatorNotAvailable, K_CNA), (C.NotCoordinatorForConsumerError, K_NOTCOORD),
             (C.IllegalGeneration, K_ILLGEN), (C.InvalidGroupId, K_INVGROUP), (C.UnknownMemberId, K_UNKMEMBER),
             (C.InconsistentGroupProtocol, K_INCONSISTENT), (C.RequestTimedOutError, K_TIMEOUT), (C.KafkaError, K_OTHERKAFKA),
             (defer.CancelledError, K_CANCELLED)]
    for cls, k in order:
        if isinstance(v, cls):
            return k
    return K_NONKAFKA


DEFAULT_DELAYS = {"initial_backoff_ms": 1000, "retry_backoff_ms": 100, "fatal_backoff_ms": 10000, "heartbeat_interval_ms": 5000}
DELAY_ATTRS = ["initial_backoff_ms", "retry_backoff_ms", "fatal_backoff_ms", "heartbeat_interval_ms"]


class Impl(object):
    """One case = one fresh object of the real class."""

    def __init__(self, kind, delays=None, use_defaults=False, salt=0):
        import afkak._group as G
        self.salt = salt           # which concrete class stands for "other KafkaError" / "non-Kafka exception" (drawn per history)
        self.G = G
        self.kind = kind
        self.trace = []
        self.cur = None
        self.reqs = []
        self.consumers = []
        self.join_timers = []      # DelayedCalls whose callable is join_and_sync, creation order
        self.hb_calls = []
        self.join_payloads = []
        self.problems = []         # things outside the canonical alphabet (reported, never silently dropped)
        self.nstart = 0
        self.nstop = 0
        self.sync_policy = None    # driver: callable(kind) -> bool: does this lookup / consumer shutdown complete synchronously?
        self.auto_events = []      # the equivalent events of such completions, in order of occurrence
        self.ctor_raise_at, self.ctor_count = None, 0
        self.sync_start_failures = []   # driver: failure kinds (or None) for the next consumers' start() calls - outside the model's alphabet
        self.sync_failed = []
        self.start_fired = []      # per start() call: has its Deferred fired?
        self.delivered = False     # did the last event reach a pending Deferred / armed call / live consumer?
        self.clock = RecClock(self)
        self.client = StandInClient(self)
        self.group_id = "grp"
        kw = {} if use_defaults else dict(delays or DEFAULT_DELAYS)
        self._orig_consumer = G.Consumer
        G.Consumer = make_stub_consumer(self)
        try:
            if kind == 1:
                self.obj = G.ConsumerGroup(self.client, self.group_id, list(GROUP_TOPICS), processor=lambda *a: None, **kw)
            else:
                self.obj = G.Coordinator(self.client, self.group_id, list(GROUP_TOPICS), **kw)
        except BaseException:
            G.Consumer = self._orig_consumer
            raise
        # the documented delays, read from the implementation's own (public, constructor-named) attributes
        self.delay_hex = [float.hex(getattr(self.obj, a) / 1000.0) for a in DELAY_ATTRS]

    def close(self):
        self.G.Consumer = self._orig_consumer

    # ---- recording
    def out(self, *xs):
        self.cur.extend(int(x) for x in xs)

    def note_group(self, g):
        if g != self.group_id:
            self.problems.append("group id %r used instead of %r" % (g, self.group_id))

    def note_topics(self, topics):
        if list(topics) != GROUP_TOPICS:
            self.problems.append("metadata loaded for %r" % (topics,))

    def timer_created(self, dc, delay, f):
        h = float.hex(float(delay))
        dk = self.delay_hex.index(h) if h in self.delay_hex else -1
        foreign_ok = getattr(self, "allow_foreign_timers", False)      # real partition Consumers (group_wire_lib) arm their own calls
        if dk < 0 and not foreign_ok:
            self.problems.append("callLater delay %r is none of the documented delays" % (delay,))
        if isinstance(f, LoopingCall) and (getattr(f.f, "__self__", None) is self.obj or not foreign_ok):
            dc.v_class, dc.v_id = 1, 0
            self.hb_calls.append(dc)
        elif getattr(f, "__name__", "") == "join_and_sync" and getattr(f, "__self__", None) is self.obj:
            dc.v_class, dc.v_id = 0, len(self.join_timers)
            self.join_timers.append(dc)
        else:
            dc.v_class, dc.v_id = 2, 0
            if not foreign_ok:
                self.problems.append("callLater of unexpected callable %r" % (f,))
        self.out(O_SCHED, dc.v_class, dk, dc.v_id)

    def timer_cancelled(self, dc):
        self.out(O_CANCELT, dc.v_class, dc.v_id)

    def _watch_start(self, d, idx):
        def cb(r):
            self.start_fired[idx] = True
            self.out(O_STARTD, idx, 0)

        def eb(f):
            self.start_fired[idx] = True
            self.out(O_STARTD, idx, 100 + classify_exc(f.value))
        self.start_fired.append(False)
        d.addCallbacks(cb, eb)

    def _watch_stop(self, d, idx):
        from afkak.common import RestopError

        def cb(r):
            self.out(O_STOPD, idx, 0)

        def eb(f):
            self.out(O_STOPD, idx, 1 if isinstance(f.value, RestopError) else 2)
            if not isinstance(f.value, RestopError):
                self.problems.append("stop() Deferred failed with %r" % (f.value,))
        d.addCallbacks(cb, eb)

    # ---- events
    def _req(self, rid, kind):
        if 0 <= rid < len(self.reqs):
            r = self.reqs[rid]
            if r.kind == kind and not r.d.called:
                return r
        return None

    def _fire(self, r, res, ok_value):
        if res >= 100:
            if res - 100 >= NKINDS:
                return
            self.delivered = True
            r.d.errback(Failure(make_exc(res - 100, self.salt + r.rid)))
        else:
            self.delivered = True
            r.d.callback(ok_value)

    def apply(self, ev):
        from afkak.common import (BrokerMetadata, RestartError, _HeartbeatResponse, _JoinGroupResponse, _JoinGroupResponseMember,
                                  _LeaveGroupResponse, _SyncGroupResponse)
        from afkak.kafkacodec import KafkaCodec
        self.cur = [-1]
        self.delivered = False
        c = ev[0]
        try:
            if c == E_START:
                try:
                    d = self.obj.start()
                except RestartError:
                    self.out(O_API, 1)
                else:
                    idx = self.nstart
                    self.nstart += 1
                    self.out(O_API, 0)
                    self._watch_start(d, idx)
            elif c == E_STOP:
                idx = self.nstop
                self.nstop += 1
                d = self.obj.stop()
                self.out(O_API, 0)
                self._watch_stop(d, idx)
            elif c == E_LOOKUP:
                r = self._req(ev[1], "lookup")
                if r and (ev[2] in (0, 1) or ev[2] >= 100):
                    self._fire(r, ev[2], BrokerMetadata(1, "h", 9092) if ev[2] == 0 else None)
            elif c == E_META:
                r = self._req(ev[1], "meta")
                if r and (ev[2] == 0 or ev[2] >= 100):
                    self._fire(r, ev[2], True)
            elif c == E_JOIN:
                r = self._req(ev[1], "join")
                if r and (ev[2] == 0 or ev[2] >= 100) and ev[3] >= 0 and ev[4] >= 0 and ev[5] in (0, 1, 2):
                    gen, member, leader = ev[3], ev[4], ev[5]
                    me = mem_str(member)
                    if leader:
                        subs = list(GROUP_TOPICS) if leader == 1 else []
                        md = KafkaCodec.encode_join_group_protocol_metadata(0, subs, b"")
                        members = [_JoinGroupResponseMember(me, md), _JoinGroupResponseMember("m9999", md)]
                        resp = _JoinGroupResponse(0, gen, "consumer", me, me, members)
                    else:
                        resp = _JoinGroupResponse(0, gen, "consumer", "m9999", me, [])
                    self._fire(r, ev[2], resp)
            elif c == E_PARTS:
                r = self._req(ev[1], "parts")
                if r and (ev[2] in (0, 1) or ev[2] >= 100):
                    tp = dict((t, [0, 1, 2]) for t in GROUP_TOPICS)
                    if ev[2] == 1:
                        del tp[GROUP_TOPICS[-1]]
                    self._fire(r, ev[2], tp)
            elif c == E_SYNC:
                r = self._req(ev[1], "sync")
                if r and (ev[2] in (0, 1, 2) or ev[2] >= 10) and all(0 <= t < 1000 and 0 <= p < 2 ** 31 for t, p in ev[3]):
                    asg = {}
                    for t, p in ev[3]:
                        asg.setdefault("t%d" % t, []).append(p)
                    data = KafkaCodec.encode_sync_group_member_assignment(0, asg, b"")
                    if ev[2] == 1:
                        data = b"\x00\x00\x00\x00\x00\x01\x00\x02\xff\xfe\x00\x00\x00\x00\xff\xff\xff\xff"   # non-ascii topic
                    elif ev[2] == 2:
                        data = b"\x00\x01" + data[2:]   # unsupported version -> ProtocolError (a KafkaError)
                    if 10 <= ev[2] < 100:
                        self.ctor_raise_at, self.ctor_count = ev[2] - 10, 0
                        self._fire(r, 0, _SyncGroupResponse(0, data))
                        self.ctor_raise_at = None
                    else:
                        self._fire(r, ev[2], _SyncGroupResponse(0, data))
            elif c == E_TICK:
                live = [dc for dc in self.hb_calls if dc.active()]
                if live:
                    self.delivered = True
                    self.clock.fire(live[0])
                    if len(live) > 1:
                        self.problems.append("%d heartbeat calls armed at once" % len(live))
            elif c == E_HBREPLY:
                r = self._req(ev[1], "hb")
                if r and (ev[2] == 0 or ev[2] >= 100):
                    self._fire(r, ev[2], _HeartbeatResponse(0))
            elif c == E_FIRE:
                if 0 <= ev[1] < len(self.join_timers) and self.join_timers[ev[1]].active():
                    self.delivered = True
                    self.clock.fire(self.join_timers[ev[1]])
            elif c == E_LEAVE:
                r = self._req(ev[1], "leave")
                if r and (ev[2] == 0 or ev[2] >= 100):
                    self._fire(r, ev[2], _LeaveGroupResponse(0))
            elif c == E_CFAIL:
                if 0 <= ev[1] < len(self.consumers) and 0 <= ev[2] < NKINDS and self.consumers[ev[1]].can_fail_start():
                    self.delivered = True
                    self.consumers[ev[1]].drv_start_fails(make_exc(ev[2], self.salt + ev[1]))
            elif c == E_CSHUT:
                if 0 <= ev[1] < len(self.consumers) and ev[2] in (0, 1) and self.consumers[ev[1]].shutdown_pending():
                    self.delivered = True
                    self.consumers[ev[1]].drv_shutdown_done(ev[2] == 0)
        except BaseException as e:   # an exception reaching the caller of a reply / timer / API call
            self.out(O_API, 2)
            self.problems.append("exception escaped to the reactor/caller at %s: %r" % (pretty_event(ev), e))
        out, self.cur = self.cur, None
        self.trace.extend(out)
        return out

    # ---- observations for monitors / generator (public or harness-owned state only)
    def pending_requests(self):
        return [(r.rid, r.kind) for r in self.reqs if not r.d.called]

    def active_join_timers(self):
        return [dc.v_id for dc in self.join_timers if dc.active()]

    def heartbeat_armed(self):
        return any(dc.active() for dc in self.hb_calls)

    def trace_member_of(self, rid):
        """member id carried by the JoinGroup request number rid (0 = empty)"""
        r = self.reqs[rid]
        return r.info[1] if r.kind == "join" else 0

    def obs(self):
        """the observation vector Model.GroupObs.obs computes from the model state (first 10 entries): only harness-owned
        objects and the public attributes generation_id / member_id named by the property"""
        pend = self.pending_requests()
        nseq = sum(1 for _, k in pend if k in ("lookup", "meta", "join", "parts", "sync"))
        return [1 if (self.start_fired and not self.start_fired[-1]) else 0,
                nseq, len(self.active_join_timers()), 1 if self.heartbeat_armed() else 0,
                sum(1 for _, k in pend if k == "hb"), sum(1 for _, k in pend if k == "leave"),
                len(self.running_consumers()), sum(1 for c in self.consumers if c.shutdown_pending()),
                gen_int(self.obj.generation_id), mem_int(self.obj.member_id)]

    def running_consumers(self):
        """stub consumers whose start Deferred exists (not stopped): cid list"""
        return [c.cid for c in self.consumers if c._start_d is not None]


def run_impl(line, delays=None, use_defaults=False, collect=None, salt=0):
    """Run a case line on the real implementation; returns (trace, problems)."""
    kind, evs = parse_events(line)
    logging.getLogger("afkak").setLevel(logging.CRITICAL + 1)
    im = Impl(kind, delays, use_defaults, salt)
    try:
        for ev in evs:
            im.apply(ev)
            if collect is not None:
                collect(im, ev)
        return im.trace, im.problems
    finally:
        im.close()


def run_impl_steps(line, delays=None, use_defaults=False, salt=0):
    """Run a case line on the real implementation; returns (trace, problems, steps) with one record per event:
    {"ev", "out" (list of output tuples), "delivered", "obs", "hb_before", "timers_before"}"""
    kind, evs = parse_events(line)
    logging.getLogger("afkak").setLevel(logging.CRITICAL + 1)
    im = Impl(kind, delays, use_defaults, salt)
    steps = []
    try:
        for ev in evs:
            hb_before, tb = im.heartbeat_armed(), len(im.active_join_timers())
            out = im.apply(ev)
            steps.append({"ev": ev, "out": split_trace(out)[0] if out else [], "delivered": im.delivered, "obs": im.obs(),
                          "hb_before": hb_before, "timers_before": tb, "running": sorted(im.running_consumers()),
                          "consumers": [(c.cid, gen_int(c.generation), mem_int(c.member), c.topic, c.partition) for c in im.consumers
                                        if c._start_d is not None]})
        return im.trace, im.problems, steps
    finally:
        im.close()


# ------------------------------------------------------------------ validation (mirrors Model.Group.parse_events)
def valid_event(ev):
    c = ev[0]
    okres = lambda x, extra=(0,): x in extra or (100 <= x < 100 + NKINDS)
    if c in (E_START, E_STOP, E_TICK, E_FIRE):
        return True
    if c == E_LOOKUP or c == E_PARTS:
        return okres(ev[2], (0, 1))
    if c in (E_META, E_HBREPLY, E_LEAVE):
        return okres(ev[2])
    if c == E_JOIN:
        return ev[3] >= 0 and ev[4] >= 0 and 0 <= ev[5] <= 2 and okres(ev[2])
    if c == E_SYNC:
        return (okres(ev[2], (0, 1, 2)) or 10 <= ev[2] < 100) and all(0 <= t < 1000 and 0 <= p < 2 ** 31 for t, p in ev[3])
    if c == E_CFAIL:
        return 0 <= ev[2] < NKINDS
    if c == E_CSHUT:
        return ev[2] in (0, 1)
    return False


# ------------------------------------------------------------------ state-aware seeded generator
class Profile(object):
    """knobs of one generated history"""

    def __init__(self, rnd):
        self.kind = 1 if rnd.random() < 0.85 else 0
        self.fault = rnd.choice([0.0, 0.0, 0.05, 0.15, 0.3, 0.6])        # probability that a reply is a failure
        self.nonkafka = rnd.choice([0.0, 0.0, 0.1, 0.3])                 # share of failures that are non-Kafka / Cancelled
        self.stop_rate = rnd.choice([0.0, 0.01, 0.03, 0.08, 0.2])
        self.junk = rnd.choice([0.0, 0.05, 0.1, 0.2])                    # disabled / late / duplicate events
        self.cfail = rnd.choice([0.0, 0.02, 0.1])
        self.slow_shutdown = rnd.choice([0.1, 0.5, 0.9])                 # reluctance to complete consumer shutdowns
        self.leader = rnd.choice([0.0, 0.3, 0.7, 1.0])
        self.length = rnd.choice([6, 10, 16, 25, 40, 60])
        self.restart = rnd.random() < 0.1


def gen_kind(rnd, prof):
    if rnd.random() < prof.nonkafka:
        return rnd.choice([K_NONKAFKA, K_NONKAFKA, K_CANCELLED])
    return rnd.choice([K_REBALANCE, K_REBALANCE, K_CNA, K_NOTCOORD, K_ILLGEN, K_INVGROUP, K_UNKMEMBER, K_INCONSISTENT,
                       K_TIMEOUT, K_OTHERKAFKA])


def gen_assignment(rnd, prev):
    """assignments growing / shrinking / moving relative to the previous one"""
    r = rnd.random()
    universe = [(t, p) for t in range(3) for p in range(3)]
    if r < 0.1:
        return []
    if prev and r < 0.35:     # grow
        return prev + [tp for tp in rnd.sample(universe, rnd.randint(1, 3)) if tp not in prev]
    if prev and r < 0.6:      # shrink
        return [tp for tp in prev if rnd.random() < 0.6]
    if prev and r < 0.7:      # same
        return list(prev)
    if r < 0.75:              # duplicates / unknown topic
        base = rnd.sample(universe, rnd.randint(1, 3))
        return base + [rnd.choice(base), (rnd.choice([3, 7]), rnd.randint(0, 4))]
    return rnd.sample(universe, rnd.randint(1, 5))   # move


def gen_history(rnd, prof=None, hook=None):
    """Generates one event list while running the implementation in lock step (its harness-owned pending sets are the
    enabled-event set).  Returns (kind, events, trace, problems)."""
    prof = prof or Profile(rnd)
    logging.getLogger("afkak").setLevel(logging.CRITICAL + 1)
    salt = rnd.randrange(9 * 5 * 7)
    im = Impl(prof.kind, salt=salt)
    evs = []
    generation = rnd.randint(0, 3)
    last_asg = []
    next_member = rnd.randint(1, 4)
    started = False
    try:
        for _ in range(prof.length):
            cands = []
            pend = im.pending_requests()
            for rid, kind in pend:
                w = 6.0
                cands.append((w, ("req", rid, kind)))
            for tid in im.active_join_timers():
                cands.append((3.0, ("fire", tid)))
            if im.heartbeat_armed():
                cands.append((2.0, ("tick",)))
            for c in im.consumers:
                if c.shutdown_pending():
                    cands.append((4.0 * (1.0 - prof.slow_shutdown) + 0.3, ("cshut", c.cid)))
                if c.can_fail_start() and prof.cfail:
                    cands.append((prof.cfail * 5, ("cfail", c.cid)))
            if not started:
                cands.append((30.0, ("start",)))
            elif prof.restart:
                cands.append((0.3, ("start",)))
            if prof.stop_rate:
                cands.append((prof.stop_rate * 12, ("stop",)))
            if prof.junk:
                cands.append((prof.junk * 10, ("junk",)))
            if started and im.start_fired and im.start_fired[-1] and not pend and not im.active_join_timers() and not im.heartbeat_armed() \
                    and not any(c.shutdown_pending() for c in im.consumers) and not prof.restart and len(evs) > 3:
                break          # stop() has completed and nothing is left: further events are RestopError calls only
            if not cands:
                cands.append((1.0, ("junk",)))
            tot = sum(w for w, _ in cands)
            x = rnd.random() * tot
            for w, ch in cands:
                x -= w
                if x <= 0:
                    break
            fail = rnd.random() < prof.fault
            fr = (100 + gen_kind(rnd, prof)) if fail else 0
            if ch[0] == "req":
                rid, kind = ch[1], ch[2]
                if kind == "lookup":
                    ev = (E_LOOKUP, rid, fr if fail else (1 if rnd.random() < 0.1 else 0))
                elif kind == "meta":
                    ev = (E_META, rid, fr)
                elif kind == "join":
                    generation += rnd.choice([1, 1, 1, 2])
                    sent_member = im.trace_member_of(rid)
                    member = sent_member if sent_member else next_member
                    if not sent_member:
                        next_member += 1
                    role = 0
                    if rnd.random() < prof.leader:
                        role = 2 if rnd.random() < 0.05 else 1
                    ev = (E_JOIN, rid, fr, generation, member, role)
                elif kind == "parts":
                    ev = (E_PARTS, rid, fr if fail else (1 if rnd.random() < 0.05 else 0))
                elif kind == "sync":
                    last_asg = gen_assignment(rnd, last_asg)
                    ok_res = rnd.choice([1, 2]) if rnd.random() < 0.04 else (10 + rnd.randint(0, max(len(last_asg), 1)) if rnd.random() < 0.03 else 0)
                    ev = (E_SYNC, rid, fr if fail else ok_res, list(last_asg))
                elif kind == "hb":
                    ev = (E_HBREPLY, rid, fr)
                else:
                    ev = (E_LEAVE, rid, fr)
            elif ch[0] == "fire":
                ev = (E_FIRE, ch[1])
            elif ch[0] == "tick":
                ev = (E_TICK,)
            elif ch[0] == "cshut":
                ev = (E_CSHUT, ch[1], 1 if rnd.random() < max(prof.fault, 0.1) else 0)
            elif ch[0] == "cfail":
                ev = (E_CFAIL, ch[1], gen_kind(rnd, prof))
            elif ch[0] == "start":
                ev = (E_START,)
                started = True
            elif ch[0] == "stop":
                ev = (E_STOP,)
            else:
                ev = gen_junk(rnd, im)
            evs.append(ev)
            im.apply(ev)
            if hook is not None:
                hook(im, ev)
        return prof.kind, evs, im.trace, im.problems, salt
    finally:
        im.close()


def gen_junk(rnd, im):
    """an event the environment cannot produce now: late / duplicate reply, dead timer, wrong request kind"""
    nreq, ncons, ntim = len(im.reqs) + 2, len(im.consumers) + 1, len(im.join_timers) + 1
    c = rnd.choice([E_LOOKUP, E_META, E_JOIN, E_PARTS, E_SYNC, E_TICK, E_HBREPLY, E_FIRE, E_LEAVE, E_CFAIL, E_CSHUT])
    rid = rnd.randrange(nreq)
    res = rnd.choice([0, 0, 100 + rnd.randrange(NKINDS)])
    if c in (E_LOOKUP, E_META, E_PARTS, E_HBREPLY, E_LEAVE):
        return (c, rid, res)
    if c == E_JOIN:
        return (c, rid, res, rnd.randint(0, 9), rnd.randint(0, 5), rnd.randint(0, 2))
    if c == E_SYNC:
        return (c, rid, res, [(rnd.randint(0, 2), rnd.randint(0, 2)) for _ in range(rnd.randint(0, 2))])
    if c == E_TICK:
        return (c,)
    if c == E_FIRE:
        return (c, rnd.randrange(ntim))
    if c == E_CFAIL:
        return (c, rnd.randrange(ncons), rnd.randrange(NKINDS))
    return (c, rnd.randrange(ncons), rnd.randint(0, 1))


# ------------------------------------------------------------------ shared by C16.py / C17.py
OBS_LEN = 10          # entries of Model.GroupObs.obs that the harness can observe; the model prints 5 more (model-only)
OBS_MODEL_LEN = 15


COMMUTING = (9, 12, 16, 17)     # CancelTimer, StopConsumer, ResetCoordinatorMetadata, CancelRequest: see Model.GroupObs.canon_step


def canon_trace(tr):
    """each step's outputs with every maximal run of mutually independent calls sorted (same rule as Model.GroupObs.canon_step)"""
    out = []
    for step in split_trace(tr):
        out.append(-1)
        run = []
        for o in step:
            if isinstance(o[0], int) and o[0] in COMMUTING:
                run.append(tuple(o))
            else:
                for x in sorted(run):
                    out.extend(x)
                run = []
                out.extend(x for x in o if x != "?")
        for x in sorted(run):
            out.extend(x)
    return out


def flatten_obs(steps):
    o = []
    for st in steps:
        o += [-1] + list(st["obs"])
    return o


def observable_part(model_obs):
    """drop the model-only tail of each per-step block of a kind 2/3 model output"""
    out, i = [], 0
    while i < len(model_obs):
        if model_obs[i] != -1 or i + 1 + OBS_MODEL_LEN > len(model_obs):
            return [-98]
        out += model_obs[i:i + 1 + OBS_LEN]
        i += 1 + OBS_MODEL_LEN
    return out


def corpus_cases():
    """hand-written histories: each theorem's non-vacuity example, each repaired defect, the residual finding"""
    R = 100 + K_REBALANCE
    stable = [(E_START,), (E_LOOKUP, 0, 0), (E_META, 1, 0), (E_JOIN, 2, 0, 1, 1, 0), (E_SYNC, 3, 0, [(0, 0)])]
    rejoin = stable + [(E_TICK,), (E_HBREPLY, 4, R), (E_FIRE, 0)]
    cs = [
        (0, [(E_START,), (E_LOOKUP, 0, 0), (E_META, 1, 100 + K_NONKAFKA)]),                                   # F-C17-2
        (1, [(E_START,), (E_LOOKUP, 0, 0), (E_META, 1, 100 + K_OTHERKAFKA), (E_FIRE, 0)]),                    # F-C17-1 repaired
        (1, [(E_START,), (E_LOOKUP, 0, 0), (E_META, 1, 0), (E_JOIN, 2, 0, 5, 7, 1), (E_PARTS, 3, 0),
             (E_SYNC, 4, 0, [(0, 1), (1, 0)])]),                                                               # leader, stable
        (1, rejoin + [(E_STOP,), (E_LOOKUP, 5, 0), (E_META, 6, 0), (E_CSHUT, 0, 0), (E_LEAVE, 7, 0)]),         # F-C16-2 repaired
        (0, [(E_START,), (E_LOOKUP, 0, 0), (E_META, 1, 0), (E_JOIN, 2, 0, 1, 1, 1), (E_STOP,), (E_PARTS, 3, 0),
             (E_LEAVE, 4, 0)]),                                                                                # F-C16-3a repaired
        (1, rejoin + [(E_LOOKUP, 5, 0), (E_META, 6, 0), (E_STOP,), (E_LEAVE, 7, 0), (E_JOIN, 8, 0, 2, 1, 0)]), # F-C16-3b repaired
        (0, [(E_START,), (E_LOOKUP, 0, 0), (E_META, 1, 0), (E_JOIN, 2, 0, 1, 1, 0), (E_STOP,),
             (E_SYNC, 3, 100 + K_ILLGEN, []), (E_LEAVE, 4, 0), (E_FIRE, 0)]),                                  # F-C16-4 repaired
        (1, stable + [(E_STOP,), (E_TICK,), (E_HBREPLY, 4, R), (E_FIRE, 0), (E_CSHUT, 0, 0), (E_LEAVE, 5, 0)]),  # F-C16-1 repaired
        (1, stable + [(E_CFAIL, 0, K_ILLGEN), (E_FIRE, 0), (E_LOOKUP, 4, 0), (E_META, 5, 0), (E_JOIN, 6, 0, 2, 1, 0),
                      (E_SYNC, 7, 0, [(0, 0), (0, 1)])]),                                                     # eviction, rejoin
        (1, stable + [(E_TICK,), (E_HBREPLY, 4, 100 + K_NONKAFKA), (E_LEAVE, 5, 100 + K_TIMEOUT)]),            # fatal surfaces
        (1, rejoin + [(E_LOOKUP, 5, 0), (E_META, 6, 0), (E_CSHUT, 0, 1), (E_JOIN, 7, 0, 2, 1, 0)]),            # commit rejected at rejoin
        (1, stable + [(E_STOP,), (E_STOP,), (E_CSHUT, 0, 0), (E_LEAVE, 4, 0), (E_START,)]),                    # double stop, restart
        (0, [(E_STOP,), (E_START,), (E_START,), (E_LOOKUP, 0, 1), (E_FIRE, 0), (E_LOOKUP, 1, 100 + K_TIMEOUT), (E_FIRE, 1)]),
    ]
    out = [(k, evs, 0) for k, evs in cs]
    # transient metadata / partition-lookup failures, one per concrete class standing for "other KafkaError" (salt + rid selects the class)
    for cls in range(9):
        out.append((1, [(E_START,), (E_LOOKUP, 0, 0), (E_META, 1, 100 + K_OTHERKAFKA), (E_FIRE, 0), (E_LOOKUP, 2, 0), (E_META, 3, 0)], (cls - 1) % 9))
        out.append((1, [(E_START,), (E_LOOKUP, 0, 0), (E_META, 1, 0), (E_JOIN, 2, 0, 1, 1, 1), (E_PARTS, 3, 100 + K_OTHERKAFKA), (E_FIRE, 0)], (cls - 3) % 9))
    out.append((0, [(E_START,), (E_LOOKUP, 0, 0), (E_META, 1, 100 + K_TIMEOUT), (E_FIRE, 0)], 0))
    out.append((1, [(E_START,), (E_LOOKUP, 0, 0), (E_META, 1, 0), (E_JOIN, 2, 0, 5, 7, 0), (E_SYNC, 3, 11, [(0, 0), (0, 1), (1, 0)]), (E_TICK,),
                    (E_HBREPLY, 4, 0)], 0))      # F-C17-2, second face: a Consumer constructor raises
    return out


def directed(kind, script, salt=0):
    """Build an event list by driving the real object in lock step (request ids / timer ids are read off the harness-owned
    pending sets).  script items: ("start",) ("stop",) ("tick",) ("fire_all",) ("fire_first",) ("reply", reqkind, res[, extra...])
    ("cfail", k) [first running consumer that is not shutting down] ("cshut_all", 0|1)"""
    logging.getLogger("afkak").setLevel(logging.CRITICAL + 1)
    im = Impl(kind, salt=salt)
    evs = []

    def do(ev):
        evs.append(ev)
        im.apply(ev)
    try:
        for it in script:
            op = it[0]
            if op == "start":
                do((E_START,))
            elif op == "stop":
                do((E_STOP,))
            elif op == "tick":
                do((E_TICK,))
            elif op == "fire_all":
                for t in im.active_join_timers():
                    do((E_FIRE, t))
            elif op == "fire_first":
                ts = im.active_join_timers()
                if ts:
                    do((E_FIRE, ts[0]))
            elif op == "cfail":
                live = [c for c in im.consumers if c.can_fail_start() and not c.shutdown_pending()]
                if live:
                    do((E_CFAIL, live[0].cid, it[1]))
            elif op == "cshut_all":
                for c in list(im.consumers):
                    if c.shutdown_pending():
                        do((E_CSHUT, c.cid, it[1]))
            elif op == "reply":
                rk, res = it[1], it[2]
                pend = [rid for rid, k in im.pending_requests() if k == rk]
                if not pend:
                    continue
                rid = pend[0]
                code = {"lookup": E_LOOKUP, "meta": E_META, "join": E_JOIN, "parts": E_PARTS, "sync": E_SYNC, "hb": E_HBREPLY, "leave": E_LEAVE}[rk]
                if rk == "join":
                    do((code, rid, res) + tuple(it[3:6]))
                elif rk == "sync":
                    do((code, rid, res, list(it[3])))
                else:
                    do((code, rid, res))
        return evs
    finally:
        im.close()


def stale_timer_family():
    """Directed histories: a rejoin timer is armed by X while join J is in flight (X = the slow heartbeat failing, or nothing);
    J completes - the member is stable again with that timer still armed; LATER a retriable error Y arrives (heartbeat reply or
    consumer error); then every armed call fires and the looper ticks.  One history per (X, Y): the state "rejoin needed and a stale
    call armed" is where a lost `_rejoin_needed` strands the member."""
    out = []
    xs = [None, K_TIMEOUT, K_REBALANCE, K_ILLGEN, K_OTHERKAFKA, K_CNA]
    ys = [("hb", K_REBALANCE), ("hb", K_ILLGEN), ("hb", K_UNKMEMBER), ("hb", K_TIMEOUT), ("hb", K_NOTCOORD), ("hb", K_OTHERKAFKA),
          ("cfail", K_REBALANCE), ("cfail", K_ILLGEN), ("cfail", K_UNKMEMBER), ("cfail", K_TIMEOUT), ("cfail", K_INCONSISTENT)]
    for x in xs:
        for ysite, yk in ys:
            sc = [("start",), ("reply", "lookup", 0), ("reply", "meta", 0), ("reply", "join", 0, 1, 1, 0), ("reply", "sync", 0, [(0, 0)]),
                  ("tick",),                                   # heartbeat h in flight (slow)
                  ("cfail", K_REBALANCE), ("fire_first",),       # a consumer error starts a rejoin
                  ("reply", "lookup", 0), ("reply", "meta", 0), ("cshut_all", 0)]      # ... JoinGroup J in flight
            if x is not None:
                sc.append(("reply", "hb", 100 + x))              # X: the slow heartbeat fails while J is in flight: arms a call
            else:
                sc.append(("reply", "hb", 0))
            sc += [("reply", "join", 0, 2, 1, 0), ("reply", "sync", 0, [(0, 0), (0, 1)])]      # J completes: stable, the call still armed
            if ysite == "hb":
                sc += [("tick",), ("reply", "hb", 100 + yk)]
            else:
                sc += [("cfail", yk)]
            sc += [("fire_all",), ("tick",), ("fire_all",), ("reply", "lookup", 0), ("reply", "meta", 0), ("cshut_all", 0),
                   ("reply", "join", 0, 3, 1, 0), ("reply", "sync", 0, [(0, 0)]), ("tick",), ("reply", "hb", 0)]
            out.append((1, directed(1, sc), 0))
    return out


def doc_delay(k):
    return 1 if k in (K_REBALANCE, K_CNA, K_NOTCOORD, K_ILLGEN, K_INVGROUP, K_UNKMEMBER) else 2


def shrink_events(kind, evs, bad, budget=400):
    """greedy delta debugging on the event list; bad(kind, evs) -> bool"""
    evs = list(evs)
    n = 0
    changed = True
    while changed and n < budget:
        changed = False
        for i in range(len(evs) - 1, -1, -1):
            cand = evs[:i] + evs[i + 1:]
            n += 1
            try:
                if bad(kind, cand):
                    evs, changed = cand, True
                    break
            except Exception:
                pass
            if n >= budget:
                break
    return evs


def enumerate_small_scope(kind, depth, alphabet_hook=None, limit=200000, prefix=None):
    """All event sequences up to `depth` over the events ENABLED in the implementation's current state (pending requests x
    {ok, RebalanceInProgress, non-Kafka}, armed timers, tick, stop, consumer events), run on the implementation.
    Yields event lists (each prefix once).  Bounded validation of the tie, never the proof."""
    count = [0]

    def enabled(im, stopped):
        evs = []
        for rid, k in im.pending_requests():
            if k == "lookup":
                evs += [(E_LOOKUP, rid, 0), (E_LOOKUP, rid, 1), (E_LOOKUP, rid, 100 + K_NONKAFKA)]
            elif k == "meta":
                evs += [(E_META, rid, 0), (E_META, rid, 100 + K_TIMEOUT)]
            elif k == "join":
                evs += [(E_JOIN, rid, 0, 1 + rid, 1, 0), (E_JOIN, rid, 0, 1 + rid, 1, 1), (E_JOIN, rid, 100 + K_UNKMEMBER, 0, 0, 0)]
            elif k == "parts":
                evs += [(E_PARTS, rid, 0), (E_PARTS, rid, 100 + K_CNA)]
            elif k == "sync":
                evs += [(E_SYNC, rid, 0, [(0, 0)]), (E_SYNC, rid, 100 + K_REBALANCE, []), (E_SYNC, rid, 100 + K_NONKAFKA, [])]
            elif k == "hb":
                evs += [(E_HBREPLY, rid, 0), (E_HBREPLY, rid, 100 + K_ILLGEN)]
            elif k == "leave":
                evs += [(E_LEAVE, rid, 0)]
        for t in im.active_join_timers():
            evs.append((E_FIRE, t))
        if im.heartbeat_armed():
            evs.append((E_TICK,))
        for c in im.consumers:
            if c.shutdown_pending():
                evs.append((E_CSHUT, c.cid, 0))
            elif c.can_fail_start():
                evs.append((E_CFAIL, c.cid, K_REBALANCE))
        if not stopped:
            evs.append((E_STOP,))
        return evs

    def rec(prefix, stopped):
        if count[0] >= limit:
            return
        logging.getLogger("afkak").setLevel(logging.CRITICAL + 1)
        im = Impl(kind)
        try:
            for ev in prefix:
                im.apply(ev)
            nxt = enabled(im, stopped)
        finally:
            im.close()
        count[0] += 1
        if len(prefix) >= depth or not nxt:
            yield list(prefix)          # maximal: its trace covers every prefix
            return
        for ev in nxt:
            for x in rec(prefix + [ev], stopped or ev[0] == E_STOP):
                yield x

    for x in rec(list(prefix) if prefix else [(E_START,)], False):
        yield x


class HonestCoordinator(object):
    """The broker side of the group protocol as the Kafka protocol guide describes it, for ONE real member plus phantom others:
    a generation counter and a member table.  JoinGroup with a non-empty member id the table does not know is UNKNOWN_MEMBER_ID;
    SyncGroup / Heartbeat with a stale generation are ILLEGAL_GENERATION, from an unknown member UNKNOWN_MEMBER_ID; a pending
    rebalance answers heartbeats REBALANCE_IN_PROGRESS until the member has re-joined.  Faults are things that really happen to a
    coordinator: it evicts the member (session expiry), another member triggers a rebalance, it moves / is briefly unavailable,
    a request times out."""

    def __init__(self, rnd):
        self.rnd = rnd
        self.generation = rnd.randint(0, 3)
        self.known = set()
        self.next_member = rnd.randint(1, 4)
        self.rebalancing = False
        self.assignment = {}          # generation -> list of (t, p)
        self.glitch = None            # one-shot error for the next coordinator request: kind

    def evict(self, member):
        self.known.discard(member)
        self.generation += 1

    def rebalance(self):
        self.rebalancing = True

    def reply(self, im, rid, kind):
        """the event answering pending request rid of the given kind"""
        info = im.reqs[rid].info
        g = self.glitch
        if kind == "lookup":
            if g in (K_CNA, K_NOTCOORD, K_TIMEOUT):
                self.glitch = None
                return (E_LOOKUP, rid, 100 + g)
            return (E_LOOKUP, rid, 0)
        if kind in ("meta", "parts"):       # transient metadata failure: no broker reachable / request timed out
            if g in (K_OTHERKAFKA, K_TIMEOUT):
                self.glitch = None
                return (E_META if kind == "meta" else E_PARTS, rid, 100 + g)
            return (E_META, rid, 0) if kind == "meta" else (E_PARTS, rid, 0)
        if g is not None and kind in ("join", "sync", "hb"):
            self.glitch = None
            ev = {"join": E_JOIN, "sync": E_SYNC, "hb": E_HBREPLY}[kind]
            return (ev, rid, 100 + g, 0, 0, 0) if kind == "join" else ((ev, rid, 100 + g, []) if kind == "sync" else (ev, rid, 100 + g))
        if kind == "join":
            member = info[1]
            if member and member not in self.known:
                return (E_JOIN, rid, 100 + K_UNKMEMBER, 0, 0, 0)
            if not member:
                member = self.next_member
                self.next_member += 1
            self.known.add(member)
            self.generation += 1
            self.rebalancing = False
            universe = [(t, p) for t in range(3) for p in range(3)]
            self.assignment[self.generation] = self.rnd.sample(universe, self.rnd.randint(0, 4))
            return (E_JOIN, rid, 0, self.generation, member, 1 if self.rnd.random() < 0.4 else 0)
        if kind == "sync":
            gen, member = info[1], info[2]
            if member not in self.known:
                return (E_SYNC, rid, 100 + K_UNKMEMBER, [])
            if gen != self.generation:
                return (E_SYNC, rid, 100 + K_ILLGEN, [])
            return (E_SYNC, rid, 0, list(self.assignment.get(gen, [])))
        if kind == "hb":
            gen, member = info[1], info[2]
            if member not in self.known:
                return (E_HBREPLY, rid, 100 + K_UNKMEMBER)
            if gen != self.generation:
                return (E_HBREPLY, rid, 100 + K_ILLGEN)
            if self.rebalancing:
                return (E_HBREPLY, rid, 100 + K_REBALANCE)
            return (E_HBREPLY, rid, 0)
        return (E_LEAVE, rid, 0)


def settled_verdict(kind, im, final, ok_heartbeats):
    member, gen = mem_int(im.obj.member_id), gen_int(im.obj.generation_id)
    have = sorted((int(c.topic[1:]), c.partition) for c in im.consumers if c._start_d is not None) if kind == 1 else []
    want = [tuple(x) for x in final["assignment"]] if kind == 1 else []
    if ok_heartbeats < 2:
        return "faults ceased %d fair steps ago and the member is not heartbeating successfully" % final["budget"]
    if member not in final["known"] or gen != final["generation"]:
        return "member holds generation %d as %d, the coordinator is in generation %d with members %r" % (gen, member, final["generation"], final["known"])
    if have != want:
        return "member consumes %r, its assignment in generation %d is %r" % (have, final["generation"], want)
    return None


def gen_closed_loop(rnd, settle_budget=80, sync_failures=False):
    """One history against an honest coordinator: a fault phase (evictions, rebalances, coordinator moves, time-outs, consumer commit
    errors, arbitrary scheduling), then faults cease and the schedule is fair (oldest reply first, then consumer shutdowns, then the
    armed calls, then the heartbeat tick).  Returns (kind, events, verdict) - verdict None if the member is stable (in the coordinator's
    current generation under a known member id, consumers = its assignment, heartbeats answered ok) within settle_budget fair steps."""
    logging.getLogger("afkak").setLevel(logging.CRITICAL + 1)
    kind = 1 if rnd.random() < 0.8 else 0
    salt = rnd.randrange(9 * 5 * 7)
    im = Impl(kind, salt=salt)
    hc = HonestCoordinator(rnd)
    evs = []

    def do(ev):
        evs.append(ev)
        im.apply(ev)

    try:
        do((E_START,))
        nfault = rnd.choice([0, 1, 2, 3, 5])
        for _ in range(rnd.choice([10, 20, 40])):
            pend = im.pending_requests()
            choices = []
            for rid, k in pend:
                choices.append(("reply", rid, k))
            for t in im.active_join_timers():
                choices.append(("fire", t))
            if im.heartbeat_armed():
                choices.append(("tick",))
            for c in im.consumers:
                if c.shutdown_pending():
                    choices.append(("cshut", c.cid))
            if nfault > 0 and rnd.random() < 0.25:
                nfault -= 1
                f = rnd.choice(["evict", "evict", "rebalance", "glitch", "glitch", "cfail"] + (["sync_cfail"] if sync_failures else []))
                if f == "evict":
                    hc.evict(mem_int(im.obj.member_id))
                elif f == "rebalance":
                    hc.rebalance()
                elif f == "sync_cfail":
                    # the next consumers started: one of them fails before start() returns (a commit/fetch error met at once)
                    im.sync_start_failures = [None] * rnd.randint(0, 2) + [rnd.choice([K_REBALANCE, K_ILLGEN, K_UNKMEMBER, K_OTHERKAFKA])]
                elif f == "glitch":
                    hc.glitch = rnd.choice([K_CNA, K_NOTCOORD, K_TIMEOUT, K_OTHERKAFKA, K_INCONSISTENT, K_REBALANCE])
                else:
                    live = [c for c in im.consumers if c.can_fail_start() and not c.shutdown_pending()]
                    if live:
                        do((E_CFAIL, rnd.choice(live).cid, rnd.choice([K_ILLGEN, K_UNKMEMBER, K_REBALANCE])))
                continue
            if not choices:
                break
            ch = rnd.choice(choices)
            if ch[0] == "reply":
                do(hc.reply(im, ch[1], ch[2]))
            elif ch[0] == "fire":
                do((E_FIRE, ch[1]))
            elif ch[0] == "tick":
                do((E_TICK,))
            else:
                do((E_CSHUT, ch[1], 0))
        hc.glitch = None
        used_sync = bool(im.sync_failed)
        im.sync_start_failures = []
        # ---- faults have ceased: fair schedule
        ok_heartbeats = 0
        for _ in range(settle_budget):
            pend = im.pending_requests()
            if pend:
                rid, k = pend[0]
                ev = hc.reply(im, rid, k)
                do(ev)
                if k == "hb":
                    ok_heartbeats = ok_heartbeats + 1 if ev[2] == 0 else 0
                continue
            sh = [c for c in im.consumers if c.shutdown_pending()]
            if sh:
                do((E_CSHUT, sh[0].cid, 0))
                continue
            tm = im.active_join_timers()
            if tm:
                do((E_FIRE, tm[0]))
                continue
            if im.heartbeat_armed():
                if ok_heartbeats >= 2:
                    break
                do((E_TICK,))
                continue
            break
        final = {"generation": hc.generation, "known": sorted(hc.known), "assignment": sorted(set(hc.assignment.get(hc.generation, []))),
                 "budget": settle_budget}
        verdict = settled_verdict(kind, im, final, ok_heartbeats)
        final["ok_heartbeats"] = ok_heartbeats
        final["salt"] = salt
        final["sync_failed"] = list(im.sync_failed)
        return kind, evs, verdict, final
    finally:
        im.close()


def check_histories(ck, monitor, tied, model="group", module="Model.GroupObs"):
    """The part C16.py and C17.py share: corpus + generated (+ exhaustive) histories through the real classes, trace and observation
    correspondence with the extracted model, the property's monitor on every implementation run, violations with shrunk inputs."""
    import vlib
    rnd = random.Random(ck.seed)
    thorough = ck.tier == "thorough"
    n_gen = 12000 if thorough else 700
    histories = [(k, evs, "corpus", salt) for k, evs, salt in corpus_cases()]
    histories += [(k, evs, "directed:stale-timer-family", salt) for k, evs, salt in stale_timer_family()]
    for _ in range(n_gen):
        kind, evs, _, _, salt = gen_history(rnd)
        histories.append((kind, evs, "generated", salt))
    unsettled = []
    for _ in range(n_gen // 3):
        kind, evs, verdict, final = gen_closed_loop(rnd)
        histories.append((kind, evs, "honest-coordinator", final["salt"]))
        ck.hist("honest-coordinator:" + ("settled" if verdict is None else "NOT settled"))
        if verdict is not None:
            unsettled.append((kind, evs, verdict, final))
    # the same closed loop with partition consumers that fail BEFORE start() returns (already-failed Deferred: outside the model's event
    # alphabet, so these runs are judged by the settle verdict only and are not compared with the model)
    nsync = 0
    for _ in range(n_gen // 3):
        kind, evs, verdict, final = gen_closed_loop(rnd, sync_failures=True)
        if final["sync_failed"]:
            nsync += 1
            ck.hist("honest-coordinator+sync-consumer-failure:" + ("settled" if verdict is None else "NOT settled"))
            if verdict is not None:
                unsettled.append((kind, evs, verdict + "  [consumers failing inside start(): %r - not replayable from the event list alone]" % (final["sync_failed"],), final))
        else:            # no consumer was started in the fault window: an ordinary closed-loop run, judged and compared like the first batch
            histories.append((kind, evs, "honest-coordinator", final["salt"]))
            ck.hist("honest-coordinator:" + ("settled" if verdict is None else "NOT settled"))
            if verdict is not None:
                unsettled.append((kind, evs, verdict, final))
    ck.cov["honest_coordinator_sync_failure_runs"] = nsync
    ck.cov["honest_coordinator_runs_judged"] = 2 * (n_gen // 3)
    ck.cov["honest_coordinator_unsettled"] = len(unsettled)
    for kind, evs, verdict, final in unsettled[:2]:
        ck.violation({"kind": "monitor", "failures": [[len(evs) - 1, "C17_bounded_rejoin (honest coordinator, fair schedule): " + verdict]],
                      "case_kind": kind, "events": evs, "salt": final["salt"],
                      "impl_trace": pretty_trace(kind, evs, run_impl(encode_case(kind, evs), salt=final["salt"])[0]),
                      "honest_coordinator_final_state": final, "replay_op": "history"})
    if thorough:
        for kind, depth in ((1, 13), (0, 13)):
            for evs in enumerate_small_scope(kind, depth, limit=600000):
                histories.append((kind, evs, "exhaustive-depth-%d" % depth, 0))
        # ... and from a stable member / a member in the middle of a rejoin (so that a second generation is reached)
        pre = corpus_cases()[3][1][:8]
        for prefix, extra in ((pre[:5], 7), (pre, 7)):
            for evs in enumerate_small_scope(1, len(prefix) + extra, limit=600000, prefix=prefix):
                histories.append((1, evs, "exhaustive-from-prefix-%d" % len(prefix), 0))

    def run_case(kind, evs, salt=0):
        line = encode_case(kind, evs)
        tr, problems, steps = run_impl_steps(line, salt=salt)
        return line, tr, problems, steps

    cur_salt = [0]

    def is_bad(kind, evs):
        _, _, problems, steps = run_case(kind, evs, cur_salt[0])
        return bool(monitor(kind, steps)[0]) or bool(problems)

    cases, impl_tr, impl_obs, meta = [], [], [], []
    totals = {}
    nviol = 0
    for kind, evs, origin, salt in histories:
        line, tr, problems, steps = run_case(kind, evs, salt)
        cases.append(line)
        impl_tr.append(canon_trace(tr))
        impl_obs.append(flatten_obs(steps))
        meta.append((kind, evs, origin, salt))
        cur_salt[0] = salt
        ck.hist("origin:" + origin)
        ck.hist("kind:" + ("ConsumerGroup" if kind == 1 else "Coordinator"))
        for ev in evs:
            ck.hist("ev:" + EV_NAMES.get(ev[0], "?"))
            if ev[0] in (E_LOOKUP, E_META, E_JOIN, E_PARTS, E_SYNC, E_HBREPLY, E_LEAVE) and ev[2] >= 100:
                ck.hist("fail:" + KIND_NAMES[ev[2] - 100])
        bad, facts = monitor(kind, steps)
        for k, v in facts.items():
            totals[k] = totals.get(k, 0) + v
        bad = list(bad) + [(-1, "outside the event/observable alphabet: " + p) for p in problems]
        if bad:
            nviol += 1
            if nviol <= 3:
                small = shrink_events(kind, evs, is_bad)
                l2, t2, p2, s2 = run_case(kind, small, salt)
                ck.violation({"kind": "monitor", "failures": (monitor(kind, s2)[0] + p2) or bad, "case_kind": kind, "events": small, "salt": salt,
                              "impl_trace": pretty_trace(kind, small, t2), "case_line": l2, "origin": origin, "replay_op": "history"})
            else:
                ck.violation({"kind": "monitor", "failures": bad[:3], "case_kind": kind, "events": evs, "salt": salt, "case_line": line, "replay_op": "history"})

    describe = lambda c: {"kind": c[0], "line": c[:60]}
    nontrivial = lambda c, o: sum(1 for x in o if x == -1) >= 4 and any(x in (8, 13) for x in o)
    diffs, mo = ck.correspond(model, module, cases, impl_tr, "output trace of the real Coordinator/ConsumerGroup vs Model.Group.run (every event of every history)",
                              nontrivial=nontrivial, describe=describe)
    mobs = ck.model(model, [[2 + c[0]] + c[1:] for c in cases])
    odiffs = [i for i, (a, b) in enumerate(zip(impl_obs, mobs)) if list(a) != observable_part(b)]
    st = ck.cov["correspondence"].setdefault("per-step observation vector (pending requests by kind, armed calls, heartbeat looper, live / shutting-down consumers, "
                                             "generation_id, member_id) vs Model.GroupObs.obs", {"cases": 0, "differences": 0, "in_coq_sample": 0})
    st["cases"] += len(cases)
    st["differences"] += len(odiffs)
    ck.cov["evaluations"] += len(cases)
    chk = ck.model(model, [[4 + c[0]] + c[1:] for c in cases])
    nfalse = sum(1 for v in chk for b in v if b != 1)
    ck.cov["invariant_bits_false_on_model_runs"] = nfalse
    if nfalse:
        raise vlib.CheckAbort("Model.GroupObs.chk is false on a model run: the boolean mirror of the proved invariant is wrong")
    for i in sorted(set(diffs + odiffs))[:3]:
        if ck.violations:
            break
        kind, evs, origin, salt = meta[i]
        cur_salt[0] = salt
        found = None
        for j in range(1, len(evs) + 1):      # a difference alone is not a violation: look for a failing input inside it
            if is_bad(kind, evs[:j]):
                found = evs[:j]
                break
        if found:
            l2, t2, p2, s2 = run_case(kind, found, salt)
            ck.violation({"kind": "monitor (found from a correspondence difference)", "failures": monitor(kind, s2)[0] + p2, "case_kind": kind,
                          "events": found, "salt": salt, "impl_trace": pretty_trace(kind, found, t2), "replay_op": "history"})
        else:
            ck.violation({"kind": "correspondence broken", "correspondence": "corr:group:" + ("trace" if i in diffs else "observations"),
                          "theorems_no_longer_tied": tied, "case_kind": kind, "events": evs, "salt": salt,
                          "impl_trace_canonical": pretty_trace(kind, evs, impl_tr[i]), "model_trace_canonical": pretty_trace(kind, evs, mo[i]),
                          "impl_obs": impl_obs[i], "model_obs": observable_part(mobs[i]), "replay_op": "history"}, no_input=True)
    # documented delays: the float handed to callLater, bit for bit, with default and non-default constructor arguments
    for delays, dflt in ((None, True), ({"initial_backoff_ms": 700, "retry_backoff_ms": 33, "fatal_backoff_ms": 12345.5, "heartbeat_interval_ms": 2500}, False)):
        for kind, evs, salt in corpus_cases()[:10]:
            tr2, probs = run_impl(encode_case(kind, evs), delays=delays, use_defaults=dflt, salt=salt)
            for p in probs:
                ck.violation({"kind": "delay", "what": p, "delays": delays or "defaults", "case_kind": kind, "events": evs, "replay_op": "history"})
    ck.cov["monitor_totals"] = totals
    ck.cov["rule"] = ("histories = hand-written corpus (one per theorem / repaired defect / residual finding) + state-aware seeded generator "
                      "(random.Random(VERIF_SEED): replies and failures of every class for every pending request, timers and heartbeat ticks in any order, "
                      "stop()/start() at random points, consumer failures and slow/failed shutdowns, 10% late/duplicate/foreign events, a Consumer constructor raising) "
                      "+ directed family: a join_and_sync call armed by X while a join is in flight, the join completes, later a retriable error Y, then every armed "
                      "call fires (one history per (X, Y), 66) "
                      "+ closed loop against an honest group coordinator (member table, generation counter, protocol error codes): a fault phase (evictions, rebalances, "
                      "coordinator moves, time-outs, metadata failures, consumer commit errors; in half of the runs also consumers failing before start() returns - those "
                      "are judged by the settle verdict only, not compared with the model), then a fair schedule that must settle within 80 steps"
                      + (" + every maximal sequence of implementation-enabled events up to depth 13 over a reduced alphabet" if thorough else "")
                      + ". A history is non-trivial if it has >= 4 events and schedules a call or fires the start Deferred; distinct = distinct case lines.")
    ck.cov["trusted_base"] += ["correspondence harness harness/props/group_lib.py + vlib.py", "extracted OCaml runner (ExtrOcamlBasic) cross-checked by vm_compute sample"]
    return run_case


def replay_history(rp, monitor):
    kind = rp["case_kind"]
    evs = []
    for e in rp["events"]:
        e = list(e)
        if e and e[0] == E_SYNC:
            e[3] = [tuple(x) for x in e[3]]
        evs.append(tuple(e))
    salt = rp.get("salt", 0)
    line = encode_case(kind, evs)
    tr, problems, steps = run_impl_steps(line, salt=salt)
    print(pretty_trace(kind, evs, tr))
    bad, facts = monitor(kind, steps)
    final = rp.get("honest_coordinator_final_state")
    if final:                 # re-evaluate the bounded-rejoin verdict: re-run the recorded fair schedule, compare with the coordinator's final state
        logging.getLogger("afkak").setLevel(logging.CRITICAL + 1)
        im = Impl(kind, salt=salt)
        try:
            okhb = 0
            for ev in evs:
                im.apply(ev)
                if ev[0] == E_HBREPLY and im.delivered:
                    okhb = okhb + 1 if ev[2] == 0 else 0
            v = settled_verdict(kind, im, final, okhb)
        finally:
            im.close()
        if v:
            bad = list(bad) + [(len(evs) - 1, "C17_bounded_rejoin (honest coordinator, fair schedule): " + v)]
    print("monitor:", bad or "no failure", "| problems:", problems or "none")
    return 1 if (bad or problems) else 0


# ------------------------------------------------------------------ synchronous completions (production path), own stream
def gen_sync_history(rnd):
    """As gen_history, but coordinator lookups (cached coordinator) and consumer shutdowns (idle consumer) may complete inside the call
    that issues them.  Returns (kind, groups, salt): groups = [(event, [equivalent events of the synchronous completions it caused])]."""
    prof = Profile(rnd)
    prof.junk = 0.0
    p_lookup, p_shut = rnd.choice([0.5, 1.0]), rnd.choice([0.3, 0.7, 1.0])
    logging.getLogger("afkak").setLevel(logging.CRITICAL + 1)
    salt = rnd.randrange(9 * 5 * 7)
    im = Impl(prof.kind, salt=salt)
    im.sync_policy = lambda what: rnd.random() < (p_lookup if what == "lookup" else p_shut)
    groups, steps = [], []
    generation, last_asg, next_member, started = rnd.randint(0, 3), [], rnd.randint(1, 4), False
    try:
        for _ in range(prof.length):
            cands = [("req", rid, k) for rid, k in im.pending_requests()]
            cands += [("fire", t) for t in im.active_join_timers()]
            if im.heartbeat_armed():
                cands.append(("tick",))
            for c in im.consumers:
                if c.shutdown_pending():
                    cands.append(("cshut", c.cid))
                elif c.can_fail_start() and prof.cfail and rnd.random() < prof.cfail:
                    cands.append(("cfail", c.cid))
            if not started:
                cands = [("start",)]
            elif rnd.random() < prof.stop_rate:
                cands.append(("stop",))
            if not cands:
                break
            ch = rnd.choice(cands)
            fail = rnd.random() < prof.fault
            fr = (100 + gen_kind(rnd, prof)) if fail else 0
            if ch[0] == "req":
                rid, kind = ch[1], ch[2]
                if kind == "lookup":
                    ev = (E_LOOKUP, rid, fr if fail else 0)
                elif kind == "meta":
                    ev = (E_META, rid, fr)
                elif kind == "join":
                    generation += 1
                    sent = im.trace_member_of(rid)
                    member = sent if sent else next_member
                    next_member += 0 if sent else 1
                    ev = (E_JOIN, rid, fr, generation, member, 1 if rnd.random() < prof.leader else 0)
                elif kind == "parts":
                    ev = (E_PARTS, rid, fr)
                elif kind == "sync":
                    last_asg = gen_assignment(rnd, last_asg)
                    ev = (E_SYNC, rid, fr, list(last_asg))
                elif kind == "hb":
                    ev = (E_HBREPLY, rid, fr)
                else:
                    ev = (E_LEAVE, rid, fr)
            elif ch[0] == "fire":
                ev = (E_FIRE, ch[1])
            elif ch[0] == "tick":
                ev = (E_TICK,)
            elif ch[0] == "cshut":
                ev = (E_CSHUT, ch[1], 0)
            elif ch[0] == "cfail":
                ev = (E_CFAIL, ch[1], gen_kind(rnd, prof))
            elif ch[0] == "start":
                ev, started = (E_START,), True
            else:
                ev = (E_STOP,)
            im.auto_events = []
            out = im.apply(ev)
            groups.append((ev, list(im.auto_events)))
            steps.append((sorted(tuple(o) for o in split_trace(out)[0]), im.obs()))
        return prof.kind, groups, salt, steps, im.problems
    finally:
        im.close()


def run_sync_stream(ck, n, model="group"):
    """Correspondence for histories with synchronous completions: the model runs the issuing event followed by the equivalent events;
    per issuing event the MULTISET of outputs of that group of model steps and the observation vector after it must equal what the
    implementation did inside the one call (the position of ApiResult / StopDeferred inside the call is the only thing that moves)."""
    rnd = random.Random(ck.seed + 1717)
    cases, expect, nsync = [], [], 0
    for _ in range(n):
        kind, groups, salt, steps, problems = gen_sync_history(rnd)
        evs = []
        sizes = []
        for ev, autos in groups:
            evs.append(ev)
            evs.extend(autos)
            sizes.append(1 + len(autos))
            nsync += len(autos)
        cases.append(encode_case(kind, evs))
        expect.append((kind, groups, sizes, steps, problems, salt))
    mtr = ck.model(model, cases)
    mobs = ck.model(model, [[2 + c[0]] + c[1:] for c in cases])
    ndiff = 0
    for i, (kind, groups, sizes, steps, problems, salt) in enumerate(expect):
        msteps = split_trace(mtr[i])
        mo = observable_part(mobs[i])
        per = [mo[j * (OBS_LEN + 1) + 1:(j + 1) * (OBS_LEN + 1)] for j in range(len(msteps))]
        pos, bad = 0, list(problems)
        for (ev, autos), size, (iout, iobs) in zip(groups, sizes, steps):
            merged = sorted(tuple(o) for st in msteps[pos:pos + size] for o in st)
            pos += size
            if merged != iout:
                bad.append("outputs of %s (+%d synchronous completions): implementation %r, model %r" % (pretty_event(ev), len(autos), iout, merged))
                break
            if per[pos - 1] != list(iobs):
                bad.append("observation after %s: implementation %r, model %r" % (pretty_event(ev), list(iobs), per[pos - 1]))
                break
        if bad:
            ndiff += 1
            if ndiff <= 2:
                ck.violation({"kind": "correspondence broken", "correspondence": "corr:group:synchronous-completions", "what": bad[:2],
                              "case_kind": kind, "events": [e for g in groups for e in [g[0]] + g[1]], "groups": [[list(map(str, g[0])), len(g[1])] for g in groups],
                              "salt": salt, "replay_op": "history"}, no_input=True)
    st = ck.cov["correspondence"].setdefault("histories with synchronously completing coordinator lookups (cached coordinator) and consumer shutdowns (idle consumer): "
                                             "per call, multiset of outputs and observation vector vs the model run of the call followed by the equivalent events",
                                             {"cases": 0, "differences": 0, "in_coq_sample": 0})
    st["cases"] += n
    st["differences"] += ndiff
    ck.cov["evaluations"] += n
    ck.cov["synchronous_completions_exercised"] = nsync
    ck.hist("origin:synchronous-completions", n)
    return ndiff
