# Shared library (NOT a property check) for every driver that uses the codec models
#   coq/Model/Prim.v  coq/Model/Crc.v  coq/Model/MsgSet.v   through the runner `codec` (coq/Model/CodecRun.v).
#
#   * ERR / exc_code            the one table  Python exception class -> err code  (same numbers as Prim.err_code)
#   * case_*                    build case lines (lists of ints) from Python values, see the header of CodecRun.v
#   * impl_*                    run the REAL afkak function on the same values, return the canonical trace
#   * Recorder                  context manager: records every gzip/snappy call the real code makes (the model's
#                               compression oracle) and replaces time.time() inside afkak.kafkacodec by a scripted clock
#   * raw_msg / raw_set / gz    an independent little encoder for building (also malformed) message sets
#   * gen_cases(rnd, scale)     the seeded generator used by selftest; yields (label, case_line, impl_trace)
#   * selftest(ck_or_None, seed, scale)   model-vs-implementation comparison, returns list of differences
#
# Import order in a driver:  vlib.import_repo()  first (so that `afkak` is the tree under test), then this module.
import gzip as _gzip
import io
import math
import struct
import zlib

MODEL = "codec"
MODULE = "Model.CodecRun"
DEPTH = 6            # default nesting budget handed to dec_set (decodes up to 5 wrappers deep)

# ------------------------------------------------------------------ exception table
E_UNDERFLOW, E_CHECKSUM, E_FETCHSMALL, E_PROTOCOL, E_INVALIDMSG, E_STRUCT, E_TYPE, E_UNICODE = 1, 2, 3, 4, 5, 6, 7, 8
E_UNSUPPORTED, E_FUEL, E_ATTR, E_NOTIMPL, E_CODEC, E_NAME, E_ORACLEMISS = 9, 10, 11, 12, 13, 14, 15
E_OTHER = 99         # an exception class the model has no name for: always a difference
ERR_NAMES = {1: "Underflow", 2: "Checksum", 3: "FetchTooSmall", 4: "Protocol", 5: "InvalidMessage", 6: "StructErr",
             7: "TypeErr", 8: "UnicodeErr", 9: "Unsupported", 10: "Fuel", 11: "AttrErr", 12: "NotImpl",
             13: "CodecErr", 14: "NameErr", 15: "OracleMiss", 99: "Other"}


def _table():
    from afkak import common as C
    # first match wins: subclasses before their bases
    return [
        (C.BufferUnderflowError, E_UNDERFLOW), (C.ChecksumError, E_CHECKSUM),
        (C.ConsumerFetchSizeTooSmall, E_FETCHSMALL), (C.ProtocolError, E_PROTOCOL),
        (C.InvalidMessageError, E_INVALIDMSG), (C.UnsupportedCodecError, E_UNSUPPORTED),
        (struct.error, E_STRUCT), (UnicodeError, E_UNICODE), (TypeError, E_TYPE), (AttributeError, E_ATTR),
        (NotImplementedError, E_NOTIMPL), (_gzip.BadGzipFile, E_CODEC), (EOFError, E_CODEC), (zlib.error, E_CODEC),
        (OSError, E_CODEC), (UnboundLocalError, E_NAME), (NameError, E_NAME),
    ]


_TABLE = None


def exc_code(e):
    global _TABLE
    if _TABLE is None:
        _TABLE = _table()
    for cls, code in _TABLE:
        if isinstance(e, cls):
            return code
    return E_OTHER


# ------------------------------------------------------------------ little encodings of the case-line grammar
def lp(xs):
    xs = list(xs)
    return [len(xs)] + xs


def olp(b):
    return [-1] if b is None else lp(b)


FMT = {"b": 1, "B": 2, "h": 3, "H": 4, "i": 5, "I": 6, "q": 7}


def msg_ints(m):
    """MSG encoding of an afkak.common.Message (case line and trace use the same form)"""
    ts = m.timestamp
    if ts is None:
        t = [0, 0]
    elif isinstance(ts, int) and not isinstance(ts, bool):
        t = [1, ts]
    else:
        t = [2, 0]          # e.g. the 1-tuple of F-C05-1: never equal to a model trace
    return [m.magic, m.attributes] + olp(m.key) + olp(m.value) + t


def mk_msg(magic, attr, key, value, ts=None):
    from afkak.common import Message
    return Message(magic, attr, key, value, ts)


def trace_bytes(f):
    try:
        return [0] + lp(f())
    except Exception as e:  # noqa
        return [exc_code(e)]


# ------------------------------------------------------------------ oracle recorder + scripted clock
def ms_to_float(ms):
    """a float f with int(f * 1000) == ms (what the code computes from time.time())"""
    f = ms / 1000.0
    for _ in range(8):
        got = int(f * 1000)
        if got == ms:
            return f
        f = math.nextafter(f, math.inf if got < ms else -math.inf)
    raise ValueError("no float for %d ms" % ms)


class _Clock:
    def __init__(self, base, step):
        self.base, self.step, self.k = base, step, 0

    def time(self):
        v = ms_to_float(self.base + self.step * self.k)
        self.k += 1
        return v

    def __getattr__(self, name):   # anything else afkak.kafkacodec might use from the time module
        import time as _t
        return getattr(_t, name)


class Recorder:
    """with Recorder(base, step) as rec: ... real afkak calls ...;  rec.oracle() is the ORACLE part of a case line."""
    KINDS = {"gzip_decode": 1, "gzip_encode": 2, "snappy_decode": 3, "snappy_encode": 4}

    def __init__(self, base=0, step=0):
        self.pairs = []
        self.clock = _Clock(base, step)

    def __enter__(self):
        import afkak.kafkacodec as K
        self.K = K
        self.saved = {n: getattr(K, n) for n in self.KINDS}
        self.saved_time = K.time
        for n, kind in self.KINDS.items():
            setattr(K, n, self._wrap(self.saved[n], kind))
        K.time = self.clock
        return self

    def __exit__(self, *a):
        for n, f in self.saved.items():
            setattr(self.K, n, f)
        self.K.time = self.saved_time
        return False

    def _wrap(self, f, kind):
        def g(payload, *a, **kw):
            key = b"" if payload is None else bytes(payload)
            try:
                out = f(payload, *a, **kw)
            except NotImplementedError:
                raise                      # availability is the sn_avail flag, not an oracle answer
            except Exception as e:  # noqa
                if payload is not None:
                    self.pairs.append((kind, key, exc_code(e), b""))
                raise
            self.pairs.append((kind, key, 0, bytes(out)))
            return out
        return g

    def oracle(self, extra=()):
        from afkak.codec import has_snappy
        seen, out = set(), []
        for kind, i, st, o in list(self.pairs) + list(extra):
            if (kind, i) in seen:
                continue
            seen.add((kind, i))
            out += [kind] + lp(i) + [st] + lp(o)
        return [1 if has_snappy() else 0, len(seen)] + out


# ------------------------------------------------------------------ implementation runners (one per op of CodecRun.v)
def impl_pack(fmt, v):
    return trace_bytes(lambda: struct.pack(">" + fmt, v))


def case_pack(fmt, v):
    return [1, FMT[fmt], v]


def impl_unpack(fmt, data, prefix=b""):
    from afkak._util import relative_unpack
    cur = len(prefix)
    try:
        (v,), new = relative_unpack(">" + fmt, bytes(prefix) + bytes(data), cur)
        return [0, v, new - cur]
    except Exception as e:  # noqa
        return [exc_code(e)]


def case_unpack(fmt, data):
    return [2, FMT[fmt]] + lp(data)


def text_of(cps):
    return None if cps is None else "".join(chr(c) for c in cps)


def impl_write(kind, s):
    """kind 1 write_int_string(bytes) 2 write_short_bytes(bytes) 3 write_short_ascii(code points) 4 write_short_text"""
    from afkak import _util as U
    if kind == 1:
        return trace_bytes(lambda: U.write_int_string(None if s is None else bytes(s)))
    if kind == 2:
        return trace_bytes(lambda: U.write_short_bytes(None if s is None else bytes(s)))
    if kind == 3:
        return trace_bytes(lambda: U.write_short_ascii(text_of(s)))
    return trace_bytes(lambda: U.write_short_text(text_of(s)))


def case_write(kind, s):
    return [3, kind] + olp(s)


def impl_read(kind, data, prefix=b""):
    from afkak import _util as U
    f = {1: U.read_int_string, 2: U.read_short_bytes, 3: U.read_short_ascii, 4: U.read_short_text}[kind]
    cur = len(prefix)
    try:
        v, new = f(bytes(prefix) + bytes(data), cur)
        if kind == 3:
            v = v.encode("ascii")
        elif kind == 4:
            v = v.encode("utf-8")
        return [0] + olp(v) + [new - cur]
    except Exception as e:  # noqa
        return [exc_code(e)]


def case_read(kind, data):
    return [4, kind] + lp(data)


def impl_crc(data):
    return [zlib.crc32(bytes(data)) & 0xFFFFFFFF]


def case_crc(data):
    return [5] + lp(data)


def impl_encode_message(now, m):
    from afkak.kafkacodec import KafkaCodec
    with Recorder(now, 0):
        return trace_bytes(lambda: KafkaCodec._encode_message(m))


def case_encode_message(now, m):
    return [6, now] + msg_ints(m)


def impl_encode_set(base, step, msgs, offset, magic):
    from afkak.kafkacodec import KafkaCodec
    with Recorder(base, step):
        return trace_bytes(lambda: KafkaCodec._encode_message_set(list(msgs), offset, magic))


def case_encode_set(base, step, msgs, offset, magic):
    c = [7, base, step, 0 if offset is None else 1, 0 if offset is None else offset, magic, len(msgs)]
    for m in msgs:
        c += msg_ints(m)
    return c


def impl_decode_set(data, limit=None):
    """Consume KafkaCodec._decode_message_set_iter(data); returns (trace, oracle ints).
    trace = n (offset MSG)*n outcome."""
    from afkak.kafkacodec import KafkaCodec
    out, n, outcome = [], 0, 0
    with Recorder() as rec:
        it = KafkaCodec._decode_message_set_iter(bytes(data))
        while True:
            try:
                om = next(it)
            except StopIteration:
                break
            except Exception as e:  # noqa
                outcome = exc_code(e)
                break
            out += [om.offset] + msg_ints(om.message)
            n += 1
        orc = rec.oracle()
    return [n] + out + [outcome], orc


def case_decode_set(data, orc, depth=DEPTH):
    return [8, depth] + list(orc) + lp(data)


def decoded_messages(trace):
    """inverse of the op-8 trace: ([(offset, (magic, attr, key, value, ts))...], outcome)"""
    n, i, res = trace[0], 1, []

    def take_olp(i):
        if trace[i] == -1:
            return None, i + 1
        k = trace[i]
        return bytes(trace[i + 1:i + 1 + k]), i + 1 + k
    for _ in range(n):
        off, magic, attr = trace[i], trace[i + 1], trace[i + 2]
        key, i2 = take_olp(i + 3)
        val, i3 = take_olp(i2)
        ts = trace[i3 + 1] if trace[i3] == 1 else None
        res.append((off, (magic, attr, key, val, ts)))
        i = i3 + 2
    return res, trace[i]


def impl_create_set(base, step, reqs, codec, magic):
    """reqs = [(key, [payload...])...];  returns (trace, oracle ints)"""
    from afkak.common import SendRequest
    from afkak.kafkacodec import create_message_set
    with Recorder(base, step) as rec:
        try:
            ms = create_message_set([SendRequest("t", k, list(ps), None) for k, ps in reqs], codec, magic)
            tr = [0, len(ms)]
            for m in ms:
                tr += msg_ints(m)
        except Exception as e:  # noqa
            tr = [exc_code(e)]
        orc = rec.oracle()
    return tr, orc


def case_create_set(orc, base, step, reqs, codec, magic):
    c = [9] + list(orc) + [base, step, codec, magic, len(reqs)]
    for k, ps in reqs:
        c += olp(k) + [len(ps)]
        for p in ps:
            c += olp(p)
    return c


def impl_create_wrapper(base, step, msgs, codec, magic):
    from afkak.kafkacodec import create_gzip_message, create_snappy_message
    f = create_gzip_message if codec == 1 else create_snappy_message
    with Recorder(base, step) as rec:
        try:
            tr = [0] + msg_ints(f(list(msgs), magic))
        except Exception as e:  # noqa
            tr = [exc_code(e)]
        orc = rec.oracle()
    return tr, orc


def case_create_wrapper(orc, base, step, msgs, codec, magic):
    c = [10] + list(orc) + [base, step, codec, magic, len(msgs)]
    for m in msgs:
        c += msg_ints(m)
    return c


# ------------------------------------------------------------------ independent raw encoder (for malformed inputs too)
def raw_string(b, fmt=">i"):
    return struct.pack(fmt, -1) if b is None else struct.pack(fmt, len(b)) + bytes(b)


def raw_msg(magic, attr, key, value, ts=None, crc=None, tail=b""):
    """bytes of one message; crc=None computes the right one; `tail` = junk after the value (inside the message)"""
    body = struct.pack(">BB", magic & 0xFF, attr & 0xFF)
    if magic == 1:                      # only format 1 has the timestamp field; `ts` is ignored otherwise
        body += struct.pack(">q", 0 if ts is None else ts)
    body += raw_string(key) + raw_string(value) + tail
    c = (zlib.crc32(body) & 0xFFFFFFFF) if crc is None else crc
    return struct.pack(">I", c) + body


def raw_set(entries):
    """entries = [(offset, message bytes)] -> message set bytes"""
    return b"".join(struct.pack(">qi", o, len(m)) + m for o, m in entries)


def gz(data, mtime=0):
    buf = io.BytesIO()
    with _gzip.GzipFile(fileobj=buf, mode="w", mtime=mtime) as h:
        h.write(bytes(data))
    return buf.getvalue()


# ------------------------------------------------------------------ generators
I_BOUNDS = {"b": (-2 ** 7, 2 ** 7 - 1), "B": (0, 2 ** 8 - 1), "h": (-2 ** 15, 2 ** 15 - 1), "H": (0, 2 ** 16 - 1),
            "i": (-2 ** 31, 2 ** 31 - 1), "I": (0, 2 ** 32 - 1), "q": (-2 ** 63, 2 ** 63 - 1)}
SIZES = {"b": 1, "B": 1, "h": 2, "H": 2, "i": 4, "I": 4, "q": 8}


def rbytes(rnd, n):
    return bytes(rnd.getrandbits(8) for _ in range(n))


def gen_ob(rnd, maxlen=12):
    r = rnd.random()
    if r < 0.2:
        return None
    if r < 0.35:
        return b""
    return rbytes(rnd, rnd.randint(1, maxlen))


def gen_plain(rnd, magic, offset):
    ts = rnd.choice([0, 1, -1, 1500000000000, 2 ** 63 - 1, -2 ** 63, rnd.getrandbits(40)]) if magic == 1 else None
    attr = rnd.choice([0, 0, 0, 8, 0xF0, 0xFC])          # codec bits 0, other bits arbitrary
    return (offset, raw_msg(magic, attr, gen_ob(rnd), gen_ob(rnd), ts))


def gen_tree(rnd, depth, base_offset, n=None, magic=None):
    """a valid message set (list of entries) with wrappers nested up to `depth`; offsets follow the Kafka rules
    (magic-0 wrapper: inner absolute offsets; magic-1 wrapper: inner relative 0..k-1, wrapper = abs of last)."""
    n = rnd.randint(1, 4) if n is None else n
    entries, off = [], base_offset
    for _ in range(n):
        mg = rnd.choice([0, 1]) if magic is None else magic
        if depth > 0 and rnd.random() < 0.5:
            k = rnd.randint(1, 3)
            if mg == 0:
                inner = gen_tree(rnd, depth - 1, off, k)
                last = off + k - 1
            else:
                inner = gen_tree(rnd, depth - 1, 0, k)
                last = off + k - 1
            # entries of the inner tree may themselves be wrappers covering several offsets; keep it simple: the
            # wrapper offset is base + (number of inner entries) - 1, what a 0.10 broker writes for flat inner sets
            entries.append((last, raw_msg(mg, 1, None, gz(raw_set(inner)), 5 if mg == 1 else None)))
            off = last + 1
        else:
            entries.append(gen_plain(rnd, mg, off))
            off += 1
    return entries


def flip(data, bit):
    b = bytearray(data)
    b[bit // 8] ^= 1 << (bit % 8)
    return bytes(b)


def gen_decode_inputs(rnd, scale=1):
    """yields (label, bytes) message-set inputs for the decoder"""
    yield "empty", b""
    # --- valid flat and nested sets at non-zero offsets
    for i in range(60 * scale):
        d = rnd.choice([0, 0, 1, 1, 2, 2, 3])
        yield "valid_depth%d" % d, raw_set(gen_tree(rnd, d, rnd.choice([0, 1, 100, 2 ** 40, rnd.getrandbits(30)])))
    # --- the two wrapper kinds, explicit (F-C05-3 shape): 3 inner messages, wrapper at 102
    for mg in (0, 1):
        inner = [((100 + i) if mg == 0 else i, raw_msg(mg, 0, b"k%d" % i, b"v%d" % i, 7 if mg == 1 else None)) for i in range(3)]
        yield "wrapper_magic%d_at_102" % mg, raw_set([(101, raw_msg(mg, 0, None, b"before", 1 if mg else None)),
                                                      (102, raw_msg(mg, 1, None, gz(raw_set(inner)), 9 if mg else None)),
                                                      (103, raw_msg(mg, 0, None, b"after", 2 if mg else None))])
    # magic-1 wrapper whose inner offsets do not start at 0 / are absolute / not contiguous
    for offs in ([5, 6, 7], [100, 101, 102], [0, 2, 9], [3, 3, 3], [2, 1, 0]):
        inner = [(o, raw_msg(1, 0, None, b"x%d" % o, 1)) for o in offs]
        yield "wrapper_magic1_odd_inner_offsets", raw_set([(50, raw_msg(1, 1, None, gz(raw_set(inner)), 1))])
        yield "wrapper_magic0_odd_inner_offsets", raw_set([(50, raw_msg(0, 1, None, gz(raw_set(inner))))])
    # mixed nesting depth 2: v1 wrapper inside v0 wrapper and the reverse
    for outer, mid in ((0, 1), (1, 0), (1, 1), (0, 0)):
        leaf = [(i, raw_msg(rnd.choice([0, 1]), 0, b"k", b"leaf%d" % i, 3)) for i in range(2)]
        midset = [(10, raw_msg(mid, 0, None, b"m0", 4 if mid else None)),
                  (12, raw_msg(mid, 1, None, gz(raw_set(leaf)), 4 if mid else None))]
        yield "nest2_outer%d_mid%d" % (outer, mid), raw_set([(200, raw_msg(outer, 1, b"wk", gz(raw_set(midset)), 6 if outer else None)),
                                                             (201, raw_msg(outer, 0, None, None, 6 if outer else None))])
    # --- truncation at every cut point of a few sets
    for i in range(3 * scale):
        s = raw_set(gen_tree(rnd, rnd.choice([0, 1]), 10 * i, rnd.randint(2, 3)))
        for cut in range(len(s)):
            yield "truncated", s[:cut]
    # --- corruption: single bit flips all over two sets (CRC must notice unless the flip hits offset/size fields)
    for i in range(2 * scale):
        s = raw_set(gen_tree(rnd, rnd.choice([0, 1]), 7, 2))
        for bit in rnd.sample(range(len(s) * 8), min(len(s) * 8, 150)):
            yield "bitflip", flip(s, bit)
    # bursts inside the CRC-covered area
    for i in range(40 * scale):
        m = raw_msg(rnd.choice([0, 1]), 0, gen_ob(rnd), rbytes(rnd, rnd.randint(4, 30)), 11)
        pos = rnd.randint(4, len(m) - 4)
        burst = bytes(a ^ b for a, b in zip(m[pos:pos + 4], rbytes(rnd, 4)))
        yield "burst4", raw_set([(1, m[:pos] + burst + m[pos + 4:]), (2, raw_msg(0, 0, None, b"ok"))])
    # --- bad magic, with a correct and with a wrong CRC; bad codec bits; snappy
    for mg in (2, 3, 127, 128, 255):
        yield "bad_magic_crc_ok", raw_set([(0, raw_msg(0, 0, None, b"a")), (1, raw_msg(mg, 0, None, b"b"))])
        yield "bad_magic_first", raw_set([(1, raw_msg(mg, 0, None, b"b"))])
        yield "bad_magic_crc_bad", raw_set([(1, raw_msg(mg, 0, None, b"b", crc=5))])
    for mg in (0, 1):
        for attr in (3, 7, 0xFF, 2, 0x0A):
            yield "codec_bits_%d" % (attr & 3), raw_set([(0, raw_msg(mg, 0, None, b"a", 1)), (1, raw_msg(mg, attr, None, b"zz", 1))])
            yield "codec_bits_first_%d" % (attr & 3), raw_set([(1, raw_msg(mg, attr, None, b"zz", 1))])
    # --- wrappers with unusable payloads (CRC correct)
    g = gz(raw_set([(0, raw_msg(0, 0, None, b"in"))]))
    for mg in (0, 1):
        ts = 1 if mg else None
        for label, val in (("null", None), ("empty", b""), ("garbage", b"not gzip"), ("short_magic", b"\x1f\x8b"),
                           ("truncated", g[:-5]), ("crc_damaged", g[:-6] + bytes([g[-6] ^ 1]) + g[-5:]),
                           ("trailing_junk", g + b"junk"), ("two_members", g + g),
                           ("empty_inner", gz(b"")), ("inner_too_small", gz(b"\0\0\0")),
                           ("inner_partial_after_one", gz(raw_set([(0, raw_msg(0, 0, None, b"in"))]) + b"\0\0\0\0")),
                           ("inner_bad_crc_after_one", gz(raw_set([(0, raw_msg(0, 0, None, b"in")), (1, raw_msg(0, 0, None, b"x", crc=1))]))),
                           ("inner_neg_len_after_one", gz(raw_set([(0, raw_msg(0, 0, None, b"in"))]) + struct.pack(">qi", 1, -7))),
                           ("inner_null_entry", gz(struct.pack(">qi", 1, -1)))):
            yield "gzip_value_" + label, raw_set([(4, raw_msg(mg, 0, None, b"first", ts)), (5, raw_msg(mg, 1, None, val, ts)),
                                                  (6, raw_msg(mg, 0, None, b"last", ts))])
            yield "gzip_value_first_" + label, raw_set([(5, raw_msg(mg, 1, None, val, ts))])
    # --- hostile length fields
    ok = raw_msg(0, 0, None, b"ok")
    for size in (-1, -2, -2 ** 31, 0, 1, 5, 6, 13, 14, len(ok) - 1, len(ok) + 1, 2 ** 31 - 1):
        yield "hostile_entry_size", struct.pack(">qi", 3, size) + ok
        yield "hostile_entry_size_after_one", raw_set([(2, ok)]) + struct.pack(">qi", 3, size) + ok
    for mg in (0, 1):
        for klen, vlen in ((-2, 0), (0, -2), (-2 ** 31, 0), (2 ** 31 - 1, 0), (0, 2 ** 31 - 1), (1, 0), (0, 1), (-1, 5), (3, -1)):
            body = struct.pack(">BB", mg, 0) + (struct.pack(">q", 1) if mg else b"") + struct.pack(">i", klen) + struct.pack(">i", vlen)
            m = struct.pack(">I", zlib.crc32(body) & 0xFFFFFFFF) + body
            yield "hostile_key_value_len", raw_set([(9, m)])
            yield "hostile_key_value_len_after_one", raw_set([(8, ok), (9, m)])
    # junk after the value inside a message; short messages
    yield "tail_inside_message", raw_set([(1, raw_msg(0, 0, b"k", b"v", tail=b"junk")), (2, raw_msg(1, 0, b"k", b"v", 5, tail=b"\0"))])
    for n in range(0, 14):
        body = rbytes(rnd, n)
        yield "short_message", raw_set([(1, struct.pack(">I", zlib.crc32(body[0:]) & 0xFFFFFFFF) + body)])
    # --- random bytes and mutated valid sets
    for i in range(60 * scale):
        yield "random_bytes", rbytes(rnd, rnd.randint(1, 60))
    for i in range(120 * scale):
        s = bytearray(raw_set(gen_tree(rnd, rnd.choice([0, 1, 2]), rnd.getrandbits(8), rnd.randint(1, 3))))
        for _ in range(rnd.randint(1, 3)):
            p = rnd.randrange(len(s))
            s[p] = rnd.choice([0, 0xFF, 0x7F, 0x80, rnd.getrandbits(8)])
        yield "mutated", bytes(s)


UTF8_EDGE = [b"\xc0\x80", b"\xc1\xbf", b"\xc2\x80", b"\xdf\xbf", b"\xc2", b"\xc2\x7f", b"\xc2\xc0", b"\xe0\x80\x80",
             b"\xe0\x9f\xbf", b"\xe0\xa0\x80", b"\xe0\xa0", b"\xe0", b"\xed\x9f\xbf", b"\xed\xa0\x80", b"\xed\xbf\xbf",
             b"\xee\x80\x80", b"\xef\xbf\xbf", b"\xe1\x80", b"\xe1\x80\xc0", b"\xf0\x80\x80\x80", b"\xf0\x8f\xbf\xbf",
             b"\xf0\x90\x80\x80", b"\xf0\x90\x80", b"\xf0\x90", b"\xf0", b"\xf3\xbf\xbf\xbf", b"\xf4\x8f\xbf\xbf",
             b"\xf4\x90\x80\x80", b"\xf5\x80\x80\x80", b"\xf8\x88\x80\x80\x80", b"\xff", b"\xfe", b"\x80", b"\xbf",
             b"a\x80", b"\x7f", b"\x00", b"ab\xc3\xa9cd", b"\xf1\x80\x80\xc0", b"\xf1\x80\xc0\x80", b"\xf1\xc0\x80\x80",
             b"\xe1\xc0\x80", b"\xef\xbf", b"\xf4\x8f\xbf"]


def gen_cases(rnd, scale=1):
    """yields (label, case line, implementation trace)"""
    # ---- op 1 / 2: integers
    for fmt, (lo, hi) in I_BOUNDS.items():
        vals = [lo - 1, lo, lo + 1, -1, 0, 1, hi - 1, hi, hi + 1, -2 ** 64, 2 ** 64] + [rnd.randint(lo - 3, hi + 3) for _ in range(4 * scale)] \
            + [rnd.randint(-300, 300) for _ in range(3 * scale)]
        for v in vals:
            yield "pack_" + fmt, case_pack(fmt, v), impl_pack(fmt, v)
        n = SIZES[fmt]
        datas = [b"\x00" * n, b"\xff" * n, b"\x80" + b"\x00" * (n - 1), b"\x7f" + b"\xff" * (n - 1), b"\x80" * n + b"xyz"]
        datas += [rbytes(rnd, rnd.randint(0, n + 2)) for _ in range(8 * scale)]
        datas += [rbytes(rnd, k) for k in range(0, n)]
        for d in datas:
            pre = rbytes(rnd, rnd.choice([0, 0, 1, 5]))
            yield "unpack_" + fmt, case_unpack(fmt, d), impl_unpack(fmt, d, pre)
    # ---- op 3: string writers
    bs = [None, b"", b"a", b"\x00\xff", rbytes(rnd, 300), bytes(32767), bytes(32768), bytes(70000)] + [gen_ob(rnd, 40) for _ in range(10 * scale)]
    for b in bs:
        yield "write_int_string", case_write(1, b), impl_write(1, b)
        yield "write_short_bytes", case_write(2, b), impl_write(2, b)
    texts = [None, [], [0x61], [0x7F], [0x80], [0xE9], [0x7FF, 0x800, 0xFFFF, 0x10000, 0x10FFFF], [0xD800], [0x61, 0xDFFF],
             [0x61] * 32767, [0x61] * 32768, [0xE9] * 16383 + [0x61], [0xE9] * 16384, [0x20AC] * 10922, [0x20AC] * 10923]
    for _ in range(12 * scale):
        texts.append([rnd.choice([rnd.randint(0, 0x7F), rnd.randint(0x80, 0x7FF), rnd.randint(0x800, 0xFFFF), rnd.randint(0x10000, 0x10FFFF)])
                      for _ in range(rnd.randint(0, 12))])
    for t in texts:
        yield "write_short_ascii", case_write(3, t), impl_write(3, t)
        yield "write_short_text", case_write(4, t), impl_write(4, t)
    # ---- op 4: string readers: valid, truncated at every point, hostile lengths, invalid text
    for kind, fmt in ((1, ">i"), (2, ">h"), (3, ">h"), (4, ">h")):
        hi = 2 ** 31 - 1 if kind == 1 else 2 ** 15 - 1
        datas = []
        for b in [None, b"", b"a", b"abc", rbytes(rnd, 9), b"caf\xc3\xa9", b"\xe2\x82\xac!", bytes(range(0x20, 0x7F))]:
            enc = raw_string(b, fmt)
            datas += [enc + rbytes(rnd, rnd.choice([0, 3]))] + [enc[:c] for c in range(len(enc))]
        for ln in (-1, -2, -3, -hi - 1, hi, hi - 1, 0, 1, 4, 5, 6):
            datas.append(struct.pack(fmt, ln) + b"hello")
        if kind >= 3:
            datas += [raw_string(e, fmt) + b"!" for e in UTF8_EDGE]
            for _ in range(25 * scale):
                s = "".join(chr(rnd.choice([rnd.randint(0, 0x7F), rnd.randint(0x80, 0x7FF), rnd.randint(0xE000, 0xFFFF), rnd.randint(0x10000, 0x10FFFF)]))
                            for _ in range(rnd.randint(0, 6))).encode("utf-8")
                if rnd.random() < 0.5 and s:
                    p = rnd.randrange(len(s))
                    s = s[:p] + bytes([rnd.choice([0x80, 0xBF, 0xC0, 0xE0, 0xED, 0xF0, 0xF4, 0xFF, rnd.getrandbits(8)])]) + s[p + 1:]
                datas.append(raw_string(s, fmt))
        datas += [rbytes(rnd, rnd.randint(0, 8)) for _ in range(10 * scale)]
        for d in datas:
            pre = rbytes(rnd, rnd.choice([0, 0, 2, 7]))
            yield "read_kind%d" % kind, case_read(kind, d), impl_read(kind, d, pre)
    # ---- op 5: crc32
    for d in [b"", b"\x00", b"\xff", b"123456789", bytes(32), b"\xff" * 32] + [rbytes(rnd, rnd.randint(1, 200)) for _ in range(40 * scale)]:
        yield "crc32", case_crc(d), impl_crc(d)
    # ---- op 6: one message
    for _ in range(120 * scale):
        magic = rnd.choice([0, 0, 0, 1, 1, 1, 2, -1, 255, 256])
        attr = rnd.choice([0, 0, 1, 2, 3, 8, 255, 256, -1, rnd.getrandbits(8)])
        ts = rnd.choice([None, None, 0, -1, 1500000000123, 2 ** 63 - 1, 2 ** 63, -2 ** 63, -2 ** 63 - 1])
        m = mk_msg(magic, attr, gen_ob(rnd), gen_ob(rnd, 30), ts)
        now = rnd.choice([0, 1600000000000, 1234567890123, rnd.getrandbits(41)])
        yield "encode_message_magic%s" % magic, case_encode_message(now, m), impl_encode_message(now, m)
    # ---- op 7: message set
    for _ in range(120 * scale):
        magic = rnd.choice([0, 0, 1, 1, 1, 2, -1])
        msgs = [mk_msg(rnd.choice([0, 1, 1, 1, 2] if rnd.random() < 0.1 else [0, 1]), rnd.choice([0, 0, 1, 8, 300 if rnd.random() < 0.1 else 0]),
                       gen_ob(rnd), gen_ob(rnd), rnd.choice([None, None, 5, rnd.getrandbits(40)])) for _ in range(rnd.randint(0, 5))]
        offset = rnd.choice([None, None, 0, 1, 100, 2 ** 63 - 2, 2 ** 63 - 1, 2 ** 63, -5, -2 ** 63])
        base, step = rnd.choice([(1600000000000, 1), (1234567890123, 7), (0, 0), (10 ** 12, 1000)])
        yield "encode_set_magic%s" % magic, case_encode_set(base, step, msgs, offset, magic), impl_encode_set(base, step, msgs, offset, magic)
    # ---- op 8: decoder
    for label, data in gen_decode_inputs(rnd, scale):
        tr, orc = impl_decode_set(data)
        yield "decode_" + label, case_decode_set(data, orc), tr
    # ---- op 9: create_message_set
    for _ in range(150 * scale):
        codec = rnd.choice([0, 0, 1, 1, 1, 2, 3, -1, 4])
        magic = rnd.choice([0, 0, 1, 1, 1, 2, 7])
        reqs = [(gen_ob(rnd, 5), [gen_ob(rnd, 10) for _ in range(rnd.randint(0, 3))]) for _ in range(rnd.randint(0, 4))]
        base, step = rnd.choice([(1600000000000, 1), (1234567890123, 7), (0, 0), (10 ** 12, 1000)])
        tr, orc = impl_create_set(base, step, reqs, codec, magic)
        yield "create_set_codec%s_magic%s" % (codec, magic), case_create_set(orc, base, step, reqs, codec, magic), tr
    # ---- op 10: create_gzip_message / create_snappy_message over arbitrary (also nested / timestamp-less) messages
    for _ in range(60 * scale):
        codec = rnd.choice([1, 1, 1, 2])
        magic = rnd.choice([0, 1, 1, 5])
        msgs = [mk_msg(rnd.choice([0, 1, 1]), rnd.choice([0, 0, 1]), gen_ob(rnd), gen_ob(rnd), rnd.choice([None, 77])) for _ in range(rnd.randint(0, 4))]
        if rnd.random() < 0.1:
            msgs.append(mk_msg(2, 0, None, b"x"))           # unencodable inner message: ProtocolError
        base, step = rnd.choice([(1600000000000, 1), (1234567890123, 7), (5, 0)])
        tr, orc = impl_create_wrapper(base, step, msgs, codec, magic)
        yield "create_wrapper_codec%d_magic%d" % (codec, magic), case_create_wrapper(orc, base, step, msgs, codec, magic), tr


def run_model(cases, timeout=600):
    """run the extracted runner directly (for use without a vlib.Check)"""
    import os
    import subprocess
    exe = os.path.join(os.path.dirname(os.path.dirname(os.path.dirname(os.path.abspath(__file__)))), "coq", "Run", "out", "run_codec")
    inp = "\n".join(" ".join(str(int(x)) for x in c) for c in cases) + "\n"
    p = subprocess.run([exe], input=inp.encode(), stdout=subprocess.PIPE, stderr=subprocess.PIPE, timeout=timeout)
    if p.returncode:
        raise RuntimeError("run_codec failed: " + p.stderr.decode()[-2000:])
    lines = p.stdout.decode().split("\n")
    if lines and lines[-1] == "":
        lines.pop()
    if len(lines) != len(cases):
        raise RuntimeError("run_codec: %d outputs for %d cases" % (len(lines), len(cases)))
    return [[int(t) for t in l.split()] for l in lines]


def selftest(ck=None, seed=0, scale=1):
    """Compare model and implementation on the generated cases.
    Returns (ncases, differences, histogram) with differences = [(label, case, impl, model)]."""
    import random
    rnd = random.Random(seed)
    labels, cases, impls = [], [], []
    for label, case, tr in gen_cases(rnd, scale):
        labels.append(label)
        cases.append(case)
        impls.append(tr)
    mo = ck.model(MODEL, cases) if ck is not None else run_model(cases)
    diffs = [(labels[i], cases[i], impls[i], mo[i]) for i in range(len(cases)) if list(impls[i]) != list(mo[i])]
    hist = {}
    for l, tr in zip(labels, impls):
        hist[l] = hist.get(l, 0) + 1
    return len(cases), diffs, hist, (labels, cases, impls, mo)
